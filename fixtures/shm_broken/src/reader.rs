use crate::{ClockErrorBound, ShmError};
use std::sync::atomic;

pub struct ShmReader {
    version: *const atomic::AtomicU16,
    generation: *const atomic::AtomicU16,
    ceb_shm: *const ClockErrorBound,
    snapshot_ceb: ClockErrorBound,
    snapshot_gen: u16,
}

impl ShmReader {
    // broken on purpose: cache served on `<=`, no acquire fence after the copy, the retry
    // counter is not decremented when the generation was odd, Ok(cache) after the loop
    pub fn snapshot(&mut self) -> Result<&ClockErrorBound, ShmError> {
        let version = unsafe { &*self.version };
        if version.load(atomic::Ordering::Acquire) == 0 {
            return Ok(&self.snapshot_ceb);
        }
        let generation = unsafe { &*self.generation };
        let mut first_gen = generation.load(atomic::Ordering::Acquire);
        if first_gen <= self.snapshot_gen {
            return Ok(&self.snapshot_ceb);
        }
        let mut retries = 1000;
        while retries > 0 {
            let snapshot = unsafe { self.ceb_shm.read_volatile() };
            let second_gen = generation.load(atomic::Ordering::Acquire);
            if first_gen == second_gen {
                self.snapshot_gen = first_gen;
                self.snapshot_ceb = snapshot;
                return Ok(&self.snapshot_ceb);
            }
            first_gen = second_gen;
            if second_gen & 1 == 0 {
                retries -= 1;
            }
        }
        Ok(&self.snapshot_ceb)
    }
}
