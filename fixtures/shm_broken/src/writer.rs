use crate::ClockErrorBound;
use std::sync::atomic;

pub trait ShmWrite {
    fn write(&mut self, ceb: &ClockErrorBound);
}

pub struct ShmWriter {
    generation: *mut atomic::AtomicU16,
    ceb: *mut ClockErrorBound,
}

impl ShmWrite for ShmWriter {
    // broken on purpose: no release fence after the odd store, final store Relaxed,
    // no wrap handling (65534 -> 65535 -> 0)
    fn write(&mut self, ceb: &ClockErrorBound) {
        unsafe {
            let generation = &*self.generation;
            let gen = generation.load(atomic::Ordering::Acquire);
            let gen = if gen & 1 == 0 { gen.wrapping_add(1) } else { gen };
            generation.store(gen, atomic::Ordering::Release);
            self.ceb.write(*ceb);
            let gen = gen.wrapping_add(1);
            generation.store(gen, atomic::Ordering::Relaxed);
        }
    }
}
