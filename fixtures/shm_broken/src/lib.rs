//! POSITIVE CONTROL for the checker, not part of aws/clock-bound.
//! A deliberately broken miniature of the seqlock writer/reader, named like the real crate
//! so that the same rule code analyses it.  Every run of C02/C03/C11/C18 first requires
//! its rules to FIRE on this file; a rule that stays silent here is reported as broken.
#![allow(dead_code)]
pub mod reader;
pub mod writer;

#[repr(C)]
#[derive(Copy, Clone, Default)]
pub struct ClockErrorBound {
    pub a: i64,
    pub b: i64,
}

pub enum ShmError {
    SegmentNotInitialized,
}
