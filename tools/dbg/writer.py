"""debug: conditions and generation stores of every path of ShmWrite::write / snapshot"""
import sys; sys.path.insert(0,'/verif')
from cbv import core, psi
from cbv.psi import fmt
ctx=core.Ctx("quick"); fb=ctx.facts()
from cbv.rules.seqlock_model import WriterModel, ReaderModel
class C:
    analysed={'paths':0,'functions':set(),'call_sites':0}
    def saw(self,b): pass
    def missing(self,*a): print('missing',a)
m = (ReaderModel if 'reader' in sys.argv[1:] else WriterModel)(fb,C(),'x')
for p,evs in zip(m.paths,m.evs):
    print(p.kind, fmt(p.value)[:80] if p.value else None)
    for c in p.conds: print('    C', psi.fmt_cond(c)[:260])
    for e in evs:
        if e.kind in ('gstore','gload','dwrite','dread','fence','vload'): print('    E', e.kind, getattr(e,'order',None), fmt(e.value)[:200] if getattr(e,'value',None) else '')
