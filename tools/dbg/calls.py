"""debug: print resolved callee + type args of every call in a function: tools/dbg/calls.py <fn-suffix> [substr]"""
import sys; sys.path.insert(0,'/verif')
from cbv import core, mir
ctx=core.Ctx("quick"); fb=ctx.facts()
for b in fb.bodies():
    if b.path.endswith(sys.argv[1]):
        print(b.path)
        for bb,t,fn in b.calls():
            if fn and (len(sys.argv)<3 or sys.argv[2] in fn['path']):
                print('  bb%d'%bb, fn['path'], [b.crate.types[x]['s'] for x in fn.get('targs') or []], '| resolved', (fn.get('resolved') or {}).get('path'), [b.crate.types[x]['s'] for x in (fn.get('resolved') or {}).get('targs') or []])
