"""debug: print the outcome rows of both client wrappers (run with CBV_REPO etc. set by tools/dbg_copy.sh)"""
import sys; sys.path.insert(0,'/verif')
from cbv import core, mir, psi
from cbv.psi import fmt
ctx=core.Ctx("quick"); fb=ctx.facts()
from cbv.rules import common, wrappers_model
class C:
    analysed={'paths':0,'functions':set(),'call_sites':0}
    def saw(self,b): pass
    def missing(self,*a): print('missing',a)
    def ob(self,*a,**k): print('OB',a[:4])
    def floor(self,*a): pass
ws=wrappers_model.load(fb,C(),'x')
for side in sys.argv[1:] or ['rust']:
  for r in ws[side].rows:
    print(r['stage'], r['shm_err'], r['status_in'], str(r['out'])[:150])
    print('    ', [psi.fmt_cond(c)[:150] for c in r['path'].conds])
    print('     VALUE', fmt(r['path'].value)[:300] if r['path'].value else None)
