#!/usr/bin/env python3
"""Confirms a seeded change produced by an independent sub-agent and records it.

  tools/seed_eval.py <PROP-ID> [<label>]     e.g. tools/seed_eval.py C10

Reads /tmp/seed-<label>-out/{patch.diff,demo.diff,notes.json}; in a fresh scratch worktree of
/repo (removed afterwards) confirms: suite passes with the patch, demo fails with it, demo
passes without it.  Then applies the patch to /repo itself, runs every quick check with the
evidence redirected to a scratch directory, undoes the patch, and writes
/verif/seeded/<label>/{patch.diff,demo.diff,meta.json}."""
import json, os, shutil, subprocess, sys, tempfile

VERIF = os.path.dirname(os.path.dirname(os.path.abspath(__file__)))
REPO = '/repo'


def sh(cmd, cwd=None, env=None, timeout=1800):
    r = subprocess.run(cmd, shell=True, cwd=cwd, env=env, stdout=subprocess.PIPE, stderr=subprocess.STDOUT, text=True, timeout=timeout)
    return r.returncode, r.stdout


def main():
    pid = sys.argv[1]
    label = sys.argv[2] if len(sys.argv) > 2 else pid
    out = '/tmp/seed-%s-out' % label
    notes = json.load(open(os.path.join(out, 'notes.json')))
    patch = os.path.join(out, 'patch.diff')
    demo = os.path.join(out, 'demo.diff')
    wt = tempfile.mkdtemp(prefix='cbv-confirm-')
    os.rmdir(wt)
    res = {'property': pid, 'label': label, 'summary': notes.get('summary'), 'needs': notes.get('needs')}
    env = dict(os.environ, CARGO_NET_OFFLINE='true', CARGO_TARGET_DIR=wt + '-target')
    try:
        assert sh('git -C %s worktree add -q %s HEAD' % (REPO, wt))[0] == 0
        rc, o = sh('git apply %s' % patch, cwd=wt)
        res['patch_applies'] = rc == 0
        if rc != 0:
            res['error'] = o[-500:]
            return res
        rc, o = sh('cargo test --workspace --no-fail-fast --offline 2>&1 | grep -E "^test result|FAILED|^error" ', cwd=wt, env=env)
        passed = sum(int(l.split()[3]) for l in o.splitlines() if l.startswith('test result'))
        failed = sum(int(l.split()[5]) for l in o.splitlines() if l.startswith('test result'))
        res['suite_with_patch'] = {'passed': passed, 'failed': failed, 'errors': [l for l in o.splitlines() if l.startswith('error')][:3]}
        has_demo = os.path.exists(demo) and os.path.getsize(demo) > 0
        res['has_demo'] = has_demo
        if has_demo:
            rc, o = sh('git apply %s' % demo, cwd=wt)
            res['demo_applies'] = rc == 0
            cmd = notes.get('demo_cmd', '').replace('&amp;', '&').replace('/tmp/seed-%s' % label, wt)
            res['demo_cmd'] = notes.get('demo_cmd', '').replace('&amp;', '&')
            rc1, o1 = sh(cmd, env=env)
            res['demo_with_patch_rc'] = rc1
            res['demo_with_patch_tail'] = o1[-600:]
            sh('git apply -R %s' % patch, cwd=wt)
            rc2, o2 = sh(cmd, env=env)
            res['demo_without_patch_rc'] = rc2
        # run the checks against /repo with the patch applied (default), or, with SEED_EVAL_SCRATCH=1, against a scratch
        # copy of /repo (CBV_REPO) so that several evaluations and a self-test can run side by side
        scratch = os.environ.get('SEED_EVAL_SCRATCH') == '1'
        ev = tempfile.mkdtemp(prefix='cbv-seed-ev-')
        root = REPO
        if scratch:
            root = os.path.join(ev, 'repo')
            assert sh('rsync -a --exclude target --exclude .git %s/ %s/' % (REPO, root))[0] == 0
        else:
            st = sh('git -C %s status --porcelain' % REPO)[1].strip()
            if st:
                res['error'] = '/repo is not clean: ' + st[:200]
                return res
        try:
            if scratch:
                assert sh('patch -p1 -s -i %s' % patch, cwd=root)[0] == 0
            else:
                assert sh('git -C %s apply %s' % (REPO, patch))[0] == 0
            man = json.load(open(os.path.join(VERIF, 'MANIFEST.json')))
            fired = {}
            env2 = dict(os.environ, CBV_EVIDENCE=os.path.join(ev, 'ev'))
            if scratch:
                env2.update(CBV_REPO=root, CBV_TAG='-seed' + label)
            for c in man['checks']:
                rc, o = sh(c['quick_cmd'], cwd=VERIF, env=env2)
                rules = sorted({l.split()[0][5:] + ' ' + l.split()[1][4:] for l in o.splitlines() if l.strip().startswith('rule=')})
                if rc != 0:
                    fired[c['property_id']] = {'rc': rc, 'rules': rules, 'first': [l.strip()[:300] for l in o.splitlines() if l.strip().startswith('rule=')][:2]}
            res['checks_fired'] = fired
            res['checks_ran_on'] = 'scratch copy of /repo with the patch (CBV_REPO)' if scratch else '/repo with the patch applied, restored afterwards'
        finally:
            if not scratch:
                sh('git -C %s checkout -- .' % REPO)
            shutil.rmtree(ev, ignore_errors=True)
            if scratch:
                for prof in ('dev', 'release'):
                    shutil.rmtree(os.path.join(VERIF, '.work', 'target-%s-seed%s' % (prof, label)), ignore_errors=True)
        res['repo_clean_after'] = sh('git -C %s status --porcelain' % REPO)[1].strip() == ''
        res['caught'] = bool(res.get('checks_fired'))
        res['caught_by_target_property'] = pid in res.get('checks_fired', {})
        return res
    finally:
        sh('git -C %s worktree remove --force %s' % (REPO, wt))
        shutil.rmtree(wt + '-target', ignore_errors=True)
        d = os.path.join(VERIF, 'seeded', label)
        os.makedirs(d, exist_ok=True)
        shutil.copy(patch, os.path.join(d, 'patch.diff'))
        if os.path.exists(demo):
            shutil.copy(demo, os.path.join(d, 'demo.diff'))
        res['what_was_run'] = ['git worktree add <scratch>; git apply patch.diff; cargo test --workspace --no-fail-fast --offline',
                               'git apply demo.diff; <demo_cmd> (must fail); git apply -R patch.diff; <demo_cmd> (must pass)',
                               'git -C /repo apply patch.diff; every MANIFEST quick_cmd; git -C /repo checkout -- .']
        json.dump(res, open(os.path.join(d, 'meta.json'), 'w'), indent=1)
        print(json.dumps({k: v for k, v in res.items() if k not in ('demo_with_patch_tail', 'what_was_run')}, indent=1)[:3000])


if __name__ == '__main__':
    main()
