#!/bin/bash
# usage: tools/try_patch.sh <patch> <check-id>...   -- run checks on a scratch copy of /repo with the patch applied
P=$(realpath "$1"); shift
T=$(mktemp -d /tmp/cbv-try-XXXX)
rsync -a --exclude target --exclude .git /repo/ $T/repo/
(cd $T/repo && patch -p1 -s -i "$P") || { echo "patch failed"; rm -rf $T; exit 2; }
for c in "$@"; do CBV_REPO=$T/repo CBV_EVIDENCE=$T/ev CBV_TAG=-try$(basename $T | tr -dc "A-Za-z0-9") $(dirname $(dirname $(realpath $0)))/cbv.py check $c 2>&1 | grep -E "tier=|rule=|ERROR|Error|Trace|line " | cut -c1-330 | head -${LINES_MAX:-8}; done
rm -rf $T
# the scratch copy had its own build and fact directories under .work (tagged with the copy's name): remove them too
V=$(dirname $(dirname $(realpath $0))); TAG=try$(basename $T | tr -dc "A-Za-z0-9"); rm -rf $V/.work/*-$TAG $V/.work/*-$TAG.lock $V/.work/facts/*-$TAG 2>/dev/null
