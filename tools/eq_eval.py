#!/usr/bin/env python3
"""Evaluates behaviour-preserving refactorings produced by independent sub-agents:
copies /tmp/eq-<label>-out/eqN.diff to selftest/equiv/<label>-N.diff (with the agent's
notes), applies each to a scratch copy, runs all 19 quick checks on it and reports alarms.
  tools/eq_eval.py <label> [...]"""
import json, os, shutil, subprocess, sys, tempfile
from concurrent.futures import ThreadPoolExecutor
VERIF = os.path.dirname(os.path.dirname(os.path.abspath(__file__)))
ALL = ['C%02d' % i for i in range(1, 20)]


def one(args):
    label, n, patch, slot = args
    tmp = tempfile.mkdtemp(prefix='cbv-eq-')
    root = os.path.join(tmp, 'repo')
    try:
        subprocess.run(['rsync', '-a', '--exclude', 'target', '--exclude', '.git', os.environ.get('CBV_BASE_REPO', '/repo') + '/', root + '/'], check=True)
        r = subprocess.run(['patch', '-p1', '-s', '-i', patch], cwd=root, stdout=subprocess.PIPE, stderr=subprocess.STDOUT, text=True)
        if r.returncode != 0:
            return (label, n, 'patch-failed', r.stdout[-200:])
        env = dict(os.environ, CBV_REPO=root, CBV_EVIDENCE=os.path.join(tmp, 'ev'), CBV_TAG='-eq%d' % slot)
        alarms = {}
        for pid in ALL:
            r = subprocess.run([os.path.join(VERIF, 'cbv.py'), 'check', pid], env=env, stdout=subprocess.PIPE, stderr=subprocess.STDOUT, text=True)
            if r.returncode != 0:
                alarms[pid] = [l.strip()[:260] for l in r.stdout.splitlines() if l.strip().startswith(('rule=', 'ERROR'))][:4] or [r.stdout[-300:]]
        return (label, n, 'ok' if not alarms else 'ALARM', alarms)
    finally:
        shutil.rmtree(tmp, ignore_errors=True)


def main():
    jobs = []
    slot = 0
    for label in sys.argv[1:]:
        out = '/tmp/eq-%s-out' % label
        dst = os.path.join(VERIF, 'selftest', 'equiv')
        os.makedirs(dst, exist_ok=True)
        if os.path.exists(os.path.join(out, 'notes.json')):
            shutil.copy(os.path.join(out, 'notes.json'), os.path.join(dst, '%s-notes.json' % label))
        for n in range(1, 9):
            src = os.path.join(out, 'eq%d.diff' % n)
            if os.path.exists(src) and os.path.getsize(src) > 0:
                p = os.path.join(dst, '%s-%d.diff' % (label, n))
                shutil.copy(src, p)
                jobs.append((label, n, p, slot % 10))
                slot += 1
    with ThreadPoolExecutor(10) as ex:
        for res in ex.map(one, jobs):
            print(res[0], res[1], res[2], json.dumps(res[3])[:6000] if res[3] else '')
    # the scratch copies had their own build / fact directories under .work (one set per slot): remove them
    import glob
    for s_ in range(10):
        for d_ in glob.glob(os.path.join(VERIF, '.work', '*-eq%d' % s_)) + glob.glob(os.path.join(VERIF, '.work', 'facts', '*-eq%d' % s_)) + \
                glob.glob(os.path.join(VERIF, '.work', '*-eq%d.lock' % s_)):
            shutil.rmtree(d_, ignore_errors=True) if os.path.isdir(d_) else os.path.exists(d_) and os.remove(d_)


if __name__ == '__main__':
    main()
