#!/usr/bin/env python3
"""Regenerates /verif/MANIFEST.json from the table below (keeps it schema-valid)."""
import json, os, sys
VERIF = os.path.dirname(os.path.dirname(os.path.abspath(__file__)))
sys.path.insert(0, VERIF)
from tools.manifest_table import CHECKS, NOT_APPLICABLE, NOTES

def main():
    checks = []
    for pid, c in sorted(CHECKS.items()):
        checks.append({
            'property_id': pid,
            'quick_cmd': './cbv.py check %s --tier quick' % pid,
            'thorough_cmd': './cbv.py check %s --tier thorough' % pid,
            'evidence_file': '/verif/evidence/%s.json' % pid,
            'replay_cmd_template': './cbv.py explain {path}',
            'engine': 'cbv',
            'level_claimed': {'category': c['category'], 'text': c['text'], 'design_ref': c['design_ref']},
            'level_note': c['note'],
            'technique': c['technique'],
        })
    man = {
        'version': 1,
        'setup_cmd': './cbv.py setup',
        'hooks': {
            'guard': 'aws_clock_bound_verif',
            'enable': 'not used: nothing from /repo is executed or instrumented; checks read the MIR rustc builds for the unmodified sources',
            'baseline_off_cmd': 'cd /repo && cargo test --workspace --no-fail-fast --offline',
            'source_commits': [],
            'add_only': True,
        },
        'engines': [
            {'name': 'cbv', 'path': '/verif/cbv.py',
             'serves_properties': sorted(CHECKS),
             'kind_free_text': 'static analysis: rustc_private MIR fact dump (driver/) + Python analyses (cbv/): CFG dominance / must-pass-through, resolved call sites, path-sensitive abstract interpretation over uninterpreted terms (PSI), linear/sign/unit term domains, table agreement (Rust layout vs clang vs PROTOCOL.md), compile_fail witnesses'},
        ],
        'checks': checks,
        'notes': NOTES,
        'not_applicable': [{'property_id': k, 'reason': v} for k, v in sorted(NOT_APPLICABLE.items())],
    }
    with open(os.path.join(VERIF, 'MANIFEST.json'), 'w') as fh:
        json.dump(man, fh, indent=1)
    try:
        import jsonschema
        jsonschema.validate(man, json.load(open('/root/.vp/MANIFEST.schema.json')))
        print('MANIFEST.json valid: %d checks, %d not_applicable' % (len(checks), len(man['not_applicable'])))
    except ImportError:
        print('MANIFEST.json written (jsonschema not available to validate)')

if __name__ == '__main__':
    main()
