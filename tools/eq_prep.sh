#!/bin/bash
# tools/eq_prep.sh <label> ...  prepares /tmp/eq-<label> (scratch worktree of /repo HEAD) and /tmp/eq-<label>-out for one refactoring sub-agent
set -e
for L in "$@"; do
  rm -rf /tmp/eq-$L-out; mkdir -p /tmp/eq-$L-out
  git -C /repo worktree remove --force /tmp/eq-$L 2>/dev/null || true
  rm -rf /tmp/eq-$L
  git -C /repo worktree add -q /tmp/eq-$L HEAD
done
git -C /repo worktree prune
