#!/usr/bin/env python3
"""validate MANIFEST.json and evidence/*.json against the harness schemas (uses the tooling venv's jsonschema)"""
import json, glob, sys
import jsonschema
ok = True
man = json.load(open('/verif/MANIFEST.json'))
jsonschema.validate(man, json.load(open('/root/.vp/MANIFEST.schema.json')))
print('MANIFEST ok:', len(man['checks']), 'checks')
es = json.load(open('/root/.vp/EVIDENCE.schema.json'))
for f in sorted(glob.glob('/verif/evidence/*.json')):
    try:
        jsonschema.validate(json.load(open(f)), es)
        print('ok', f)
    except Exception as e:
        ok = False
        print('INVALID', f, str(e)[:300])
sys.exit(0 if ok else 1)
