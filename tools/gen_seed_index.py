#!/usr/bin/env python3
"""Regenerate seeded/INDEX.md from seeded/*/meta.json and a self-test log (tools/selftest.py all > log):
the 'fires now' column is what the target check reports for the S-<label> entry in that log."""
import json, os, re, sys

VERIF = os.path.dirname(os.path.dirname(os.path.abspath(__file__)))
log = sys.argv[1] if len(sys.argv) > 1 else None
now = {}
if log and os.path.exists(log):
    for ln in open(log):
        m = re.match(r'^S-(\S+)\s+mutant\s+(\S+)\s+(\{.*\})\s*$', ln)
        if m:
            try:
                fired = eval(m.group(3))
            except Exception:
                fired = {}
            now[m.group(1)] = (m.group(2), fired)
rows = []
for lab in sorted(os.listdir(os.path.join(VERIF, 'seeded'))):
    mp = os.path.join(VERIF, 'seeded', lab, 'meta.json')
    if not os.path.exists(mp):
        continue
    d = json.load(open(mp))
    pid = d['property']
    others = sorted(k for k in d.get('checks_fired', {}) if k != pid)
    tgt_now = sorted({r.split(' ')[0].replace('rule=', '') for r in (now.get(lab, ('', {}))[1].get(pid, []))}) or \
        sorted({r.split(' ')[0] for r in d.get('checks_fired', {}).get(pid, {}).get('rules', [])})
    rows.append('| %s | %s | %s | %s | %s | %s | %s | %s |' % (
        lab, pid, (d.get('summary') or '').replace('|', '/')[:150], (d.get('needs') or '').replace('|', '/')[:90],
        d.get('first_evaluation', 'caught'), ', '.join(tgt_now) or '-', ', '.join(others) or '-', d.get('clause_added_after', '-')))
out = ['# Seeded changes (independent sub-agents; each confirmed in a scratch worktree: suite passes with the patch, demonstration fails with it and passes without)',
       '', '| label | property | change | needs | first evaluation | rules of the target check that fire now | other checks that fired at evaluation | clause added because of it |',
       '|---|---|---|---|---|---|---|---|'] + rows
open(os.path.join(VERIF, 'seeded', 'INDEX.md'), 'w').write('\n'.join(out) + '\n')
print('%d rows' % len(rows))
