"""Per-property claims. Edited by hand; tools/gen_manifest.py renders MANIFEST.json."""
NOTES = ('Static analysis only. Every check re-extracts MIR facts from /repo\'s current working tree '
         '(cached by content hash) and decides named structural clauses; see DESIGN.md section 4 per property.')

TB = ('Trusted: rustc MIR construction, callee resolution and const evaluation; the cbv-mirdump serialisation; '
      'the Python analyses; cbv/summaries.py (external function semantics pinned to Cargo.lock).')

CHECKS = {
    'C06': {
        'category': 'proof',
        'text': 'The status decision of now() is a finite decision table over stored status x ordering of the monotonic '
                'reading around as_of+5s and void_after; PSI extracts it from MIR for all paths and all 9 (status, region) '
                'pairs are compared with the oracle. The decision is the property, so this is a proof up to the trusted base.',
        'design_ref': 'DESIGN.md 4 C06, Appendix A.1',
        'note': TB + ' Assumes void_after >= as_of + 5 s as the property states; threshold points accepted either way.',
        'technique': 'path-sensitive abstract interpretation of MIR (decision-table extraction) + canonical linear time atoms',
    },
}

PENDING = 'check not built yet in this session; will be claimed once its rule module exists (DESIGN.md section 4)'
NOT_APPLICABLE = {pid: PENDING for pid in ['C%02d' % i for i in range(1, 20)] if pid not in CHECKS}
