#!/usr/bin/env python3
"""Checker self-test: applies one catalogue entry (a mutant or a behaviour-preserving
variant) to a scratch copy of /repo outside /repo and /verif, runs the named checks on
it, reports whether each fired, and removes the copy.

  tools/selftest.py list
  tools/selftest.py run <entry-id> [<entry-id> ...] [--keep]
  tools/selftest.py all [--kind mutant|equivalent] [-j N]
"""
import json, os, shutil, subprocess, sys, tempfile
from concurrent.futures import ThreadPoolExecutor

VERIF = os.path.dirname(os.path.dirname(os.path.abspath(__file__)))
sys.path.insert(0, VERIF)
from selftest.catalogue import ENTRIES  # noqa

REPO = '/repo'


def make_copy(dst):
    subprocess.run(['rsync', '-a', '--exclude', 'target', '--exclude', '.git', REPO + '/', dst + '/'], check=True)


def apply(entry, root):
    for path, old, new in entry.get('edits', []):
        p = os.path.join(root, path)
        s = open(p).read()
        if s.count(old) < 1:
            return 'edit does not apply: %s: %r' % (path, old[:60])
        s = s.replace(old, new, 1)
        open(p, 'w').write(s)
    if 'patch' in entry:
        r = subprocess.run(['patch', '-p1', '-s', '-i', os.path.join(VERIF, entry['patch'])], cwd=root,
                           stdout=subprocess.PIPE, stderr=subprocess.STDOUT, text=True)
        if r.returncode != 0:
            return 'patch does not apply: ' + r.stdout[-300:]
    for path, old, new in entry.get('post_edits', []):
        p = os.path.join(root, path)
        s = open(p).read()
        if s.count(old) < 1:
            return 'post-edit does not apply: %s: %r' % (path, old[:60])
        open(p, 'w').write(s.replace(old, new, 1))
    return None


def run_entry(eid, slot=0, keep=False, verbose=False):
    entry = ENTRIES[eid]
    tmp = tempfile.mkdtemp(prefix='cbv-selftest-')
    root = os.path.join(tmp, 'repo')
    ev = os.path.join(tmp, 'evidence')
    res = {'id': eid, 'kind': entry['kind'], 'checks': {}, 'status': 'ok'}
    try:
        make_copy(root)
        err = apply(entry, root)
        if err:
            res['status'] = 'skipped: ' + err
            return res
        env = dict(os.environ, CBV_REPO=root, CBV_EVIDENCE=ev, CBV_TAG='-st%d' % slot)
        for pid in entry['checks']:
            r = subprocess.run([os.path.join(VERIF, 'cbv.py'), 'check', pid], env=env, stdout=subprocess.PIPE,
                               stderr=subprocess.STDOUT, text=True)
            fired = [ln.strip() for ln in r.stdout.splitlines() if ln.strip().startswith('rule=')]
            res['checks'][pid] = {'rc': r.returncode, 'fired': fired}
            if verbose:
                print(r.stdout)
            if r.returncode == 2:
                res['status'] = 'infra-error'
                res['output'] = r.stdout[-1500:]
        exp = entry.get('expect', {})
        if res['status'] == 'ok':
            if entry['kind'] == 'mutant':
                for pid, rules in exp.items():
                    c = res['checks'].get(pid, {})
                    hit = any(any(('rule=' + ru) in f for f in c.get('fired', [])) for ru in rules) if rules else c.get('rc') == 1
                    if not hit:
                        res['status'] = 'MISSED'
                if not exp and not any(c['rc'] == 1 for c in res['checks'].values()):
                    res['status'] = 'MISSED'
            else:
                if any(c['rc'] != 0 for c in res['checks'].values()):
                    res['status'] = 'FALSE-ALARM'
        return res
    finally:
        if not keep:
            shutil.rmtree(tmp, ignore_errors=True)
        else:
            print('kept', tmp)


def main(argv):
    if len(argv) < 2 or argv[1] == 'list':
        for k, e in sorted(ENTRIES.items()):
            print('%-8s %-10s %-22s %s' % (k, e['kind'], ','.join(e['checks']), e['what']))
        return 0
    if argv[1] == 'run':
        keep = '--keep' in argv
        rc = 0
        for eid in [a for a in argv[2:] if not a.startswith('-')]:
            r = run_entry(eid, keep=keep, verbose='-v' in argv)
            print(json.dumps(r, indent=1))
            if r['status'] not in ('ok',) and not r['status'].startswith('skipped'):
                rc = 1
        return rc
    if argv[1] == 'all':
        kind = argv[argv.index('--kind') + 1] if '--kind' in argv else None
        jobs = int(argv[argv.index('-j') + 1]) if '-j' in argv else 4
        ids = [k for k, e in sorted(ENTRIES.items()) if kind is None or e['kind'] == kind]
        slots = list(range(jobs))
        import queue
        q = queue.Queue()
        for s in slots:
            q.put(s)

        def work(eid):
            s = q.get()
            try:
                return run_entry(eid, slot=s)
            finally:
                q.put(s)
        bad = 0
        with ThreadPoolExecutor(jobs) as ex:
            for r in ex.map(work, ids):
                fired = {p: [f.split()[0] for f in c['fired']] for p, c in r['checks'].items()}
                print('%-8s %-10s %-12s %s' % (r['id'], r['kind'], r['status'], fired))
                if r['status'] in ('MISSED', 'FALSE-ALARM', 'infra-error'):
                    bad += 1
                    if r.get('output'):
                        print(r['output'])
        print('%d entries, %d bad' % (len(ids), bad))
        # the scratch copies had their own build / fact directories under .work (one set per slot): remove them
        import glob
        for s_ in slots:
            for d_ in glob.glob(os.path.join(VERIF, '.work', '*-st%d' % s_)) + glob.glob(os.path.join(VERIF, '.work', 'facts', '*-st%d' % s_)) + \
                    glob.glob(os.path.join(VERIF, '.work', '*-st%d.lock' % s_)):
                shutil.rmtree(d_, ignore_errors=True) if os.path.isdir(d_) else os.path.exists(d_) and os.remove(d_)
        return 1 if bad else 0


if __name__ == '__main__':
    sys.exit(main(sys.argv))
