#!/bin/bash
# tools/seed_prep.sh <label> <PID|ALL> ...   prepares /tmp/seed-<label> (scratch worktree of /repo HEAD), /tmp/seed-<label>-out,
# /tmp/prop-<PID>.json, /tmp/seed_prompt.txt and /tmp/already_tried.txt for one seeding sub-agent. Nothing from /verif's
# analyses is exposed: only the fixed property text, the generic task prompt and one-line summaries of earlier changes.
set -e
V=$(cd "$(dirname "$0")/.." && pwd)
cp $V/tools/prompts/seed_prompt.txt /tmp/seed_prompt.txt
cp $V/tools/prompts/already_tried.txt /tmp/already_tried.txt
python3 - "$V" <<'PY'
import json,sys
V=sys.argv[1]
ps=[json.loads(l) for l in open(V+'/properties.jsonl')]
json.dump(ps,open('/tmp/prop-ALL.json','w'),indent=1)
for p in ps: json.dump(p,open('/tmp/prop-%s.json'%p['id'],'w'),indent=1)
PY
for L in "$@"; do
  rm -rf /tmp/seed-$L-out; mkdir -p /tmp/seed-$L-out
  git -C /repo worktree remove --force /tmp/seed-$L 2>/dev/null || true
  rm -rf /tmp/seed-$L
  git -C /repo worktree add -q /tmp/seed-$L HEAD
done
git -C /repo worktree prune
