#!/bin/bash
# usage: tools/dbg_copy.sh <patch>  -- (re)create /tmp/cbv-dbg/repo = /repo + patch, for interactive debugging with
#   CBV_REPO=/tmp/cbv-dbg/repo CBV_EVIDENCE=/tmp/cbv-dbg/ev CBV_TAG=-dbg ./cbv.py ...   (remove /tmp/cbv-dbg afterwards)
P=""; [ -n "$1" ] && P=$(realpath "$1")
rm -rf /tmp/cbv-dbg; mkdir -p /tmp/cbv-dbg
rsync -a --exclude target --exclude .git /repo/ /tmp/cbv-dbg/repo/
[ -n "$P" ] && (cd /tmp/cbv-dbg/repo && patch -p1 -s -i "$P" </dev/null)
echo "export CBV_REPO=/tmp/cbv-dbg/repo CBV_EVIDENCE=/tmp/cbv-dbg/ev CBV_TAG=-dbg"
