// cbv-mirdump: rustc_private driver used as RUSTC_WORKSPACE_WRAPPER.
// For every workspace crate it compiles, it serialises MIR facts (bodies, resolved
// callees, constants, ADT layouts, impls) to one JSON file in $CBV_OUT.
// Nothing from the analysed crate is executed; the file is written in one write().
#![feature(rustc_private)]
#![allow(clippy::all)]

extern crate rustc_abi;
extern crate rustc_driver;
extern crate rustc_hir;
extern crate rustc_interface;
extern crate rustc_middle;
extern crate rustc_session;
extern crate rustc_span;

use rustc_driver::Compilation;
use rustc_hir::def::DefKind;
use rustc_hir::def_id::{DefId, LOCAL_CRATE};
use rustc_middle::mir::{
    self, AggregateKind, BasicBlock, BinOp, BorrowKind, CastKind, ConstValue, Operand, Place,
    ProjectionElem, Rvalue, StatementKind, TerminatorKind, UnOp,
};
use rustc_middle::ty::{self, Instance, Ty, TyCtxt, TypeVisitableExt, TypingEnv};
use rustc_span::Span;
use std::collections::{BTreeMap, HashMap};
use std::fmt::Write as _;

// ---------------------------------------------------------------- JSON helpers

fn jstr(s: &str) -> String {
    let mut o = String::with_capacity(s.len() + 2);
    o.push('"');
    for c in s.chars() {
        match c {
            '"' => o.push_str("\\\""),
            '\\' => o.push_str("\\\\"),
            '\n' => o.push_str("\\n"),
            '\r' => o.push_str("\\r"),
            '\t' => o.push_str("\\t"),
            c if (c as u32) < 0x20 => {
                let _ = write!(o, "\\u{:04x}", c as u32);
            }
            c => o.push(c),
        }
    }
    o.push('"');
    o
}

fn jarr(items: &[String]) -> String {
    format!("[{}]", items.join(","))
}

fn jobj(items: &[(&str, String)]) -> String {
    let v: Vec<String> = items.iter().map(|(k, v)| format!("{}:{}", jstr(k), v)).collect();
    format!("{{{}}}", v.join(","))
}

fn jopt(o: Option<String>) -> String {
    o.unwrap_or_else(|| "null".to_string())
}

// ---------------------------------------------------------------- dumper

struct Dumper<'tcx> {
    tcx: TyCtxt<'tcx>,
    types: Vec<String>,
    type_ix: HashMap<Ty<'tcx>, usize>,
    adts: BTreeMap<String, String>,
    adt_seen: HashMap<DefId, ()>,
}

impl<'tcx> Dumper<'tcx> {
    fn path(&self, did: DefId) -> String {
        let p = ty::print::with_crate_prefix!(ty::print::with_no_visible_paths!(
            ty::print::with_no_trimmed_paths!(self.tcx.def_path_str(did))
        ));
        self.fix_crate(p)
    }

    // `crate::` (printed for local items under with_crate_prefix) -> the crate's name, so that
    // every path is spelled the same from whichever crate it is seen
    fn fix_crate(&self, p: String) -> String {
        let name = format!("{}::", self.tcx.crate_name(LOCAL_CRATE));
        let mut out = String::with_capacity(p.len() + 16);
        let mut rest = p.as_str();
        while let Some(i) = rest.find("crate::") {
            let boundary = i == 0 || !(rest.as_bytes()[i - 1].is_ascii_alphanumeric() || rest.as_bytes()[i - 1] == b'_' || rest.as_bytes()[i - 1] == b'$');
            out.push_str(&rest[..i]);
            if boundary {
                out.push_str(&name);
            } else {
                out.push_str("crate::");
            }
            rest = &rest[i + 7..];
        }
        out.push_str(rest);
        out
    }

    fn tystr(&self, t: Ty<'tcx>) -> String {
        let s = ty::print::with_crate_prefix!(ty::print::with_no_visible_paths!(
            ty::print::with_no_trimmed_paths!(format!("{}", t))
        ));
        self.fix_crate(s)
    }

    fn span(&self, sp: Span) -> String {
        let sm = self.tcx.sess.source_map();
        let cs = sp.source_callsite();
        let loc = sm.lookup_char_pos(cs.lo());
        let file = match &loc.file.name {
            rustc_span::FileName::Real(r) => match r.local_path() {
                Some(p) => p.to_string_lossy().to_string(),
                None => format!("{:?}", loc.file.name),
            },
            other => format!("{:?}", other),
        };
        let mut items = vec![
            ("file", jstr(&file)),
            ("line", loc.line.to_string()),
            ("col", (loc.col.0 + 1).to_string()),
        ];
        if sp.from_expansion() {
            let mut macros = Vec::new();
            for ed in sp.macro_backtrace() {
                let name = match ed.kind {
                    rustc_span::ExpnKind::Macro(_, n) => n.to_string(),
                    rustc_span::ExpnKind::Desugaring(d) => format!("desugar:{:?}", d),
                    rustc_span::ExpnKind::AstPass(p) => format!("astpass:{:?}", p),
                    rustc_span::ExpnKind::Root => "root".to_string(),
                };
                let krate = match ed.macro_def_id {
                    Some(d) => self.tcx.crate_name(d.krate).to_string(),
                    None => String::new(),
                };
                macros.push(jobj(&[("name", jstr(&name)), ("crate", jstr(&krate))]));
            }
            items.push(("exp", jarr(&macros)));
        }
        jobj(&items)
    }

    fn ty(&mut self, t: Ty<'tcx>) -> usize {
        if let Some(&i) = self.type_ix.get(&t) {
            return i;
        }
        // reserve the slot first (recursive types)
        let ix = self.types.len();
        self.types.push(String::new());
        self.type_ix.insert(t, ix);
        let s = self.tystr(t);
        let mut items: Vec<(&str, String)> = vec![("s", jstr(&s))];
        match t.kind() {
            ty::Bool => items.push(("k", jstr("bool"))),
            ty::Char => items.push(("k", jstr("char"))),
            ty::Int(i) => {
                items.push(("k", jstr("int")));
                items.push(("bits", i.bit_width().unwrap_or(64).to_string()));
            }
            ty::Uint(i) => {
                items.push(("k", jstr("uint")));
                items.push(("bits", i.bit_width().unwrap_or(64).to_string()));
            }
            ty::Float(f) => {
                items.push(("k", jstr("float")));
                items.push(("bits", f.bit_width().to_string()));
            }
            ty::Adt(def, args) => {
                items.push(("k", jstr("adt")));
                items.push(("adt", jstr(&self.path(def.did()))));
                let a: Vec<String> = args.types().map(|x| self.ty(x).to_string()).collect();
                items.push(("args", jarr(&a)));
                self.adt(def.did(), t);
            }
            ty::Ref(_, inner, m) => {
                items.push(("k", jstr("ref")));
                items.push(("inner", self.ty(*inner).to_string()));
                items.push(("mut", m.is_mut().to_string()));
            }
            ty::RawPtr(inner, m) => {
                items.push(("k", jstr("ptr")));
                items.push(("inner", self.ty(*inner).to_string()));
                items.push(("mut", m.is_mut().to_string()));
            }
            ty::Tuple(ts) => {
                items.push(("k", jstr("tuple")));
                let a: Vec<String> = ts.iter().map(|x| self.ty(x).to_string()).collect();
                items.push(("args", jarr(&a)));
                if !t.has_non_region_param() && !t.has_aliases() {
                    if let Ok(l) = self.tcx.layout_of(TypingEnv::fully_monomorphized().as_query_input(t)) {
                        items.push(("size", l.size.bytes().to_string()));
                        let offs: Vec<String> =
                            (0..ts.len()).map(|i| l.fields.offset(i).bytes().to_string()).collect();
                        items.push(("offsets", jarr(&offs)));
                        let mut sizes: Vec<String> = Vec::new();
                        for x in ts.iter() {
                            let sz = self
                                .tcx
                                .layout_of(TypingEnv::fully_monomorphized().as_query_input(x))
                                .map(|fl| fl.size.bytes())
                                .unwrap_or(0);
                            sizes.push(sz.to_string());
                        }
                        items.push(("sizes", jarr(&sizes)));
                    }
                }
            }
            ty::Array(inner, _) => {
                items.push(("k", jstr("array")));
                items.push(("inner", self.ty(*inner).to_string()));
                if !t.has_non_region_param() && !t.has_aliases() {
                    if let Ok(l) = self.tcx.layout_of(TypingEnv::fully_monomorphized().as_query_input(t)) {
                        items.push(("size", l.size.bytes().to_string()));
                    }
                    if let Ok(el) = self.tcx.layout_of(TypingEnv::fully_monomorphized().as_query_input(*inner)) {
                        items.push(("esize", el.size.bytes().to_string()));
                    }
                }
            }
            ty::Slice(inner) => {
                items.push(("k", jstr("slice")));
                items.push(("inner", self.ty(*inner).to_string()));
            }
            ty::FnDef(did, args) => {
                items.push(("k", jstr("fndef")));
                items.push(("def", jstr(&self.path(*did))));
                let a: Vec<String> = args.types().map(|x| self.ty(x).to_string()).collect();
                items.push(("args", jarr(&a)));
            }
            ty::Closure(did, args) => {
                items.push(("k", jstr("closure")));
                items.push(("def", jstr(&self.path(*did))));
                let ups: Vec<String> =
                    args.as_closure().upvar_tys().iter().map(|x| self.ty(x).to_string()).collect();
                items.push(("upvars", jarr(&ups)));
            }
            ty::Dynamic(preds, ..) => {
                items.push(("k", jstr("dyn")));
                if let Some(p) = preds.principal_def_id() {
                    items.push(("trait", jstr(&self.path(p))));
                }
            }
            ty::Never => items.push(("k", jstr("never"))),
            ty::Param(_) => items.push(("k", jstr("param"))),
            ty::FnPtr(..) => items.push(("k", jstr("fnptr"))),
            ty::Str => items.push(("k", jstr("str"))),
            _ => items.push(("k", jstr("other"))),
        }
        self.types[ix] = jobj(&items);
        ix
    }

    // ADT table: repr, variants, fields, layout when monomorphic
    fn adt(&mut self, did: DefId, t: Ty<'tcx>) {
        let tcx = self.tcx;
        let key = self.tystr(t);
        if self.adts.contains_key(&key) {
            return;
        }
        self.adts.insert(key.clone(), String::new());
        let _ = self.adt_seen.insert(did, ());
        let (def, args) = match t.kind() {
            ty::Adt(d, a) => (*d, *a),
            _ => return,
        };
        let mut items: Vec<(&str, String)> = vec![("path", jstr(&self.path(did)))];
        let kind = if def.is_enum() {
            "enum"
        } else if def.is_union() {
            "union"
        } else {
            "struct"
        };
        items.push(("kind", jstr(kind)));
        let r = def.repr();
        items.push(("repr_c", r.c().to_string()));
        items.push(("repr_transparent", r.transparent().to_string()));
        if let Some(a) = r.align {
            items.push(("repr_align", a.bytes().to_string()));
        }
        if let Some(i) = r.int {
            items.push(("repr_int", jstr(&format!("{:?}", i))));
        }
        // layout
        let mono = !t.has_non_region_param() && !t.has_aliases();
        let layout = if mono {
            tcx.layout_of(TypingEnv::fully_monomorphized().as_query_input(t)).ok()
        } else {
            None
        };
        if let Some(l) = &layout {
            items.push(("size", l.size.bytes().to_string()));
            items.push(("align", l.align.abi.bytes().to_string()));
            if let rustc_abi::Variants::Multiple { tag, tag_encoding, tag_field, .. } = &l.variants {
                if let rustc_abi::TagEncoding::Direct = tag_encoding {
                    items.push(("tag_off", l.fields.offset(tag_field.as_usize()).bytes().to_string()));
                    items.push(("tag_size", tag.size(&tcx).bytes().to_string()));
                }
                // niche-encoded tag: variant = niche_lo + (tag - niche_start) when that lies in niche_lo..=niche_hi,
                // the untagged variant otherwise
                if let rustc_abi::TagEncoding::Niche { untagged_variant, niche_variants, niche_start } = tag_encoding {
                    items.push(("niche_off", l.fields.offset(tag_field.as_usize()).bytes().to_string()));
                    items.push(("niche_size", tag.size(&tcx).bytes().to_string()));
                    items.push(("niche_start", jstr(&niche_start.to_string())));
                    items.push(("niche_lo", niche_variants.start().as_usize().to_string()));
                    items.push(("niche_hi", niche_variants.end().as_usize().to_string()));
                    items.push(("niche_untagged", untagged_variant.as_usize().to_string()));
                }
            }
        }
        let mut variants = Vec::new();
        let discrs: Vec<(rustc_abi::VariantIdx, u128)> = if def.is_enum() {
            def.discriminants(tcx).map(|(i, d)| (i, d.val)).collect()
        } else {
            Vec::new()
        };
        for (vi, v) in def.variants().iter_enumerated() {
            let mut vitems: Vec<(&str, String)> =
                vec![("name", jstr(v.name.as_str())), ("index", vi.as_usize().to_string())];
            if let Some((_, d)) = discrs.iter().find(|(i, _)| *i == vi) {
                vitems.push(("discr", d.to_string()));
            }
            let mut fields = Vec::new();
            for (fi, f) in v.fields.iter_enumerated() {
                let fty = f.ty(tcx, args);
                let mut fitems: Vec<(&str, String)> = vec![("name", jstr(f.name.as_str()))];
                fitems.push(("ty", self.ty(fty).to_string()));
                if let Some(l) = &layout {
                    if def.is_struct() {
                        let off = l.fields.offset(fi.as_usize());
                        fitems.push(("offset", off.bytes().to_string()));
                    }
                    if !fty.has_non_region_param() && !fty.has_aliases() {
                        if let Ok(fl) =
                            tcx.layout_of(TypingEnv::fully_monomorphized().as_query_input(fty))
                        {
                            fitems.push(("size", fl.size.bytes().to_string()));
                        }
                    }
                }
                fields.push(jobj(&fitems));
            }
            vitems.push(("fields", jarr(&fields)));
            variants.push(jobj(&vitems));
        }
        items.push(("variants", jarr(&variants)));
        self.adts.insert(key, jobj(&items));
    }

    fn def_info(&mut self, did: DefId) -> Vec<(&'static str, String)> {
        let tcx = self.tcx;
        let mut items: Vec<(&'static str, String)> = vec![
            ("path", jstr(&self.path(did))),
            ("crate", jstr(tcx.crate_name(did.krate).as_str())),
        ];
        if let Some(n) = tcx.opt_item_name(did) {
            items.push(("name", jstr(n.as_str())));
        }
        let dk = tcx.def_kind(did);
        items.push(("defkind", jstr(&format!("{:?}", dk))));
        if matches!(dk, DefKind::AssocFn | DefKind::AssocConst { .. }) {
            let parent = tcx.parent(did);
            match tcx.def_kind(parent) {
                DefKind::Impl { of_trait } => {
                    let self_ty = tcx.type_of(parent).instantiate_identity().skip_norm_wip();
                    let s = self.tystr(self_ty);
                    items.push(("impl_self", jstr(&s)));
                    if of_trait {
                        let tr = tcx.impl_trait_ref(parent).instantiate_identity().skip_norm_wip();
                        items.push(("impl_trait", jstr(&self.path(tr.def_id))));
                    }
                }
                DefKind::Trait => {
                    items.push(("trait", jstr(&self.path(parent))));
                }
                _ => {}
            }
        }
        items
    }

    fn place(&mut self, body: &mir::Body<'tcx>, p: &Place<'tcx>) -> String {
        let tcx = self.tcx;
        let mut proj = Vec::new();
        let mut cur = mir::PlaceTy::from_ty(body.local_decls[p.local].ty);
        for elem in p.projection.iter() {
            let s = match elem {
                ProjectionElem::Deref => jobj(&[("k", jstr("deref"))]),
                ProjectionElem::Field(f, fty) => {
                    let mut items: Vec<(&str, String)> =
                        vec![("k", jstr("field")), ("i", f.as_usize().to_string())];
                    // field name if ADT
                    if let ty::Adt(def, _) = cur.ty.kind() {
                        let vi = cur.variant_index.unwrap_or(rustc_abi::FIRST_VARIANT);
                        if def.is_enum() || def.is_struct() || def.is_union() {
                            if let Some(v) = def.variants().get(vi) {
                                if let Some(fd) = v.fields.get(f) {
                                    items.push(("name", jstr(fd.name.as_str())));
                                }
                            }
                        }
                    }
                    items.push(("ty", self.ty(fty).to_string()));
                    jobj(&items)
                }
                ProjectionElem::Downcast(name, vi) => jobj(&[
                    ("k", jstr("downcast")),
                    ("v", vi.as_usize().to_string()),
                    ("name", jstr(&name.map(|n| n.to_string()).unwrap_or_default())),
                ]),
                ProjectionElem::Index(l) => {
                    jobj(&[("k", jstr("index")), ("local", l.as_usize().to_string())])
                }
                ProjectionElem::ConstantIndex { offset, from_end, .. } => jobj(&[
                    ("k", jstr("constindex")),
                    ("offset", offset.to_string()),
                    ("from_end", from_end.to_string()),
                ]),
                other => jobj(&[("k", jstr("other")), ("dbg", jstr(&format!("{:?}", other)))]),
            };
            proj.push(s);
            cur = cur.projection_ty(tcx, elem);
        }
        let t = self.ty(cur.ty);
        jobj(&[("l", p.local.as_usize().to_string()), ("proj", jarr(&proj)), ("ty", t.to_string())])
    }

    fn callee(&mut self, owner: DefId, did: DefId, args: ty::GenericArgsRef<'tcx>) -> String {
        let tcx = self.tcx;
        let mut items = self.def_info(did);
        let a: Vec<String> = args
            .iter()
            .filter_map(|g| g.as_type())
            .map(|t| self.ty(t).to_string())
            .collect();
        items.push(("targs", jarr(&a)));
        let env = TypingEnv::post_analysis(tcx, owner);
        let resolved = match Instance::try_resolve(tcx, env, did, args) {
            Ok(Some(inst)) => {
                let rd = inst.def_id();
                let mut r = self.def_info(rd);
                let kind = match inst.def {
                    ty::InstanceKind::Item(_) => "item",
                    ty::InstanceKind::Virtual(..) => "virtual",
                    ty::InstanceKind::Intrinsic(_) => "intrinsic",
                    ty::InstanceKind::ClosureOnceShim { .. } => "closure_once_shim",
                    ty::InstanceKind::FnPtrShim(..) => "fnptr_shim",
                    ty::InstanceKind::DropGlue(..) => "drop_glue",
                    ty::InstanceKind::CloneShim(..) => "clone_shim",
                    ty::InstanceKind::ReifyShim(..) => "reify_shim",
                    ty::InstanceKind::VTableShim(..) => "vtable_shim",
                    _ => "other",
                };
                r.push(("ikind", jstr(kind)));
                let ra: Vec<String> = inst
                    .args
                    .iter()
                    .filter_map(|g| g.as_type())
                    .map(|t| self.ty(t).to_string())
                    .collect();
                r.push(("targs", jarr(&ra)));
                Some(jobj(&r))
            }
            _ => None,
        };
        items.push(("resolved", jopt(resolved)));
        jobj(&items)
    }

    fn const_val(&mut self, owner: DefId, c: &mir::ConstOperand<'tcx>) -> String {
        let tcx = self.tcx;
        let t = c.const_.ty();
        let tix = self.ty(t);
        let mut items: Vec<(&str, String)> = vec![("k", jstr("const")), ("ty", tix.to_string())];
        if let ty::FnDef(did, args) = t.kind() {
            items.push(("fn", self.callee(owner, *did, args)));
            return jobj(&items);
        }
        let env = TypingEnv::post_analysis(tcx, owner);
        if let Some(si) = c.const_.try_eval_scalar_int(tcx, env) {
            let size = si.size();
            let bits = si.to_bits(size);
            items.push(("bits", bits.to_string()));
            items.push(("size", size.bytes().to_string()));
            // signed interpretation
            if let ty::Int(_) = t.kind() {
                let v = si.to_int(size);
                items.push(("int", v.to_string()));
            } else if let ty::Float(f) = t.kind() {
                let fv = match f.bit_width() {
                    64 => f64::from_bits(bits as u64),
                    32 => f32::from_bits(bits as u32) as f64,
                    _ => f64::NAN,
                };
                items.push(("float", jstr(&format!("{:e}", fv))));
            }
            return jobj(&items);
        }
        let mut evaluated = c.const_.eval(tcx, env, c.span);
        if evaluated.is_err() {
            // a promoted constant inside a *provided* trait method is generic over Self and cannot be evaluated as such;
            // when the crate has exactly one implementor of the trait, evaluate it for that implementor
            if let mir::Const::Unevaluated(uv, cty) = c.const_ {
                if uv.promoted.is_some() && !cty.has_param() {
                    if let Some(parent) = tcx.opt_parent(owner) {
                        if tcx.def_kind(parent) == DefKind::Trait && tcx.generics_of(parent).count() == 1 {
                            let impls: Vec<DefId> = tcx.all_impls(parent).filter(|d| d.is_local()).collect();
                            if impls.len() == 1 {
                                let self_ty = tcx.type_of(impls[0]).instantiate_identity().skip_norm_wip();
                                if !self_ty.has_param() {
                                    let args = tcx.mk_args(&[self_ty.into()]);
                                    let uv2 = mir::UnevaluatedConst { def: uv.def, args, promoted: uv.promoted };
                                    let c2 = mir::Const::Unevaluated(uv2, cty);
                                    let r2 = c2.eval(tcx, TypingEnv::fully_monomorphized(), c.span);
                                    if r2.is_ok() {
                                        items.push(("for_impl", jstr(&self.path(impls[0]))));
                                        evaluated = r2;
                                    }
                                }
                            }
                        }
                    }
                }
            }
        }
        match evaluated {
            Ok(ConstValue::Slice { alloc_id, meta }) => {
                let alloc = tcx.global_alloc(alloc_id).unwrap_memory();
                let bytes = alloc
                    .inner()
                    .inspect_with_uninit_and_ptr_outside_interpreter(0..(meta as usize));
                items.push(("str", jstr(&String::from_utf8_lossy(bytes))));
            }
            Ok(ConstValue::Indirect { alloc_id, offset }) => {
                if let rustc_middle::mir::interpret::GlobalAlloc::Memory(alloc) =
                    tcx.global_alloc(alloc_id)
                {
                    let a = alloc.inner();
                    let off = offset.bytes() as usize;
                    let len = a.len();
                    let bytes = a.inspect_with_uninit_and_ptr_outside_interpreter(off..len);
                    let hex: String = bytes.iter().map(|b| format!("{:02x}", b)).collect();
                    items.push(("bytes", jstr(&hex)));
                    // pointers stored in the constant (function pointers of a table, references to other constants)
                    let mut relocs: Vec<String> = Vec::new();
                    let mut mem_relocs: Vec<String> = Vec::new();
                    for (roff, prov) in a.provenance().ptrs().iter() {
                        let ro = roff.bytes() as usize;
                        if ro < off {
                            continue;
                        }
                        match tcx.global_alloc(prov.alloc_id()) {
                            rustc_middle::mir::interpret::GlobalAlloc::Function { instance, .. } => {
                                let f = self.callee(owner, instance.def_id(), instance.args);
                                relocs.push(jobj(&[("off", (ro - off).to_string()), ("fn", f)]));
                            }
                            rustc_middle::mir::interpret::GlobalAlloc::Memory(target) => {
                                // a reference to other constant data (`const ORIGIN: &CStr = ..`): the bytes it points to
                                let ta = target.inner();
                                if ta.provenance().ptrs().is_empty() && ta.len() <= 256 {
                                    let tb = ta.inspect_with_uninit_and_ptr_outside_interpreter(0..ta.len());
                                    let thex: String = tb.iter().map(|b| format!("{:02x}", b)).collect();
                                    mem_relocs.push(jobj(&[("off", (ro - off).to_string()), ("bytes", jstr(&thex))]));
                                }
                            }
                            _ => {}
                        }
                    }
                    if !relocs.is_empty() {
                        items.push(("relocs", jarr(&relocs)));
                    }
                    if !mem_relocs.is_empty() {
                        items.push(("mem_relocs", jarr(&mem_relocs)));
                    }
                }
            }
            Ok(ConstValue::ZeroSized) => {
                items.push(("zst", "true".to_string()));
            }
            Ok(ConstValue::Scalar(s)) => {
                // pointer scalar: try to follow to a str / bytes allocation
                if let rustc_middle::mir::interpret::Scalar::Ptr(p, _) = s {
                    let (prov, off) = p.into_raw_parts();
                    if let rustc_middle::mir::interpret::GlobalAlloc::Memory(alloc) =
                        tcx.global_alloc(prov.alloc_id())
                    {
                        let a = alloc.inner();
                        let bytes = a.inspect_with_uninit_and_ptr_outside_interpreter(
                            (off.bytes() as usize)..a.len(),
                        );
                        let hex: String = bytes.iter().map(|b| format!("{:02x}", b)).collect();
                        items.push(("ptr_bytes", jstr(&hex)));
                        // function pointers stored in the constant the reference points to (`&TABLE` of (fn, value) pairs)
                        let start = off.bytes() as usize;
                        let mut relocs: Vec<String> = Vec::new();
                        for (roff, prov2) in a.provenance().ptrs().iter() {
                            let ro = roff.bytes() as usize;
                            if ro < start {
                                continue;
                            }
                            if let rustc_middle::mir::interpret::GlobalAlloc::Function { instance, .. } =
                                tcx.global_alloc(prov2.alloc_id())
                            {
                                let f = self.callee(owner, instance.def_id(), instance.args);
                                relocs.push(jobj(&[("off", (ro - start).to_string()), ("fn", f)]));
                            }
                        }
                        if !relocs.is_empty() {
                            items.push(("relocs", jarr(&relocs)));
                        }
                    } else if let rustc_middle::mir::interpret::GlobalAlloc::Static(sdid) =
                        tcx.global_alloc(prov.alloc_id())
                    {
                        // a reference to an immutable `static`: its initializer is a compile-time constant
                        let sty = tcx.type_of(sdid).instantiate_identity().skip_norm_wip();
                        let frozen = sty.is_freeze(tcx, TypingEnv::fully_monomorphized());
                        if !tcx.is_mutable_static(sdid) && !tcx.is_foreign_item(sdid) && frozen {
                            if let Ok(alloc) = tcx.eval_static_initializer(sdid) {
                                let a = alloc.inner();
                                let start = off.bytes() as usize;
                                if start <= a.len() && a.provenance().ptrs().is_empty() {
                                    let bytes =
                                        a.inspect_with_uninit_and_ptr_outside_interpreter(start..a.len());
                                    let hex: String = bytes.iter().map(|b| format!("{:02x}", b)).collect();
                                    items.push(("ptr_bytes", jstr(&hex)));
                                    items.push(("static", jstr(&self.path(sdid))));
                                }
                            }
                        }
                    }
                }
            }
            Err(_) => {
                items.push(("uneval", jstr(&format!("{:?}", c.const_))));
            }
        }
        jobj(&items)
    }

    fn operand(&mut self, owner: DefId, body: &mir::Body<'tcx>, o: &Operand<'tcx>) -> String {
        match o {
            Operand::Copy(p) => jobj(&[("k", jstr("copy")), ("p", self.place(body, p))]),
            Operand::Move(p) => jobj(&[("k", jstr("move")), ("p", self.place(body, p))]),
            Operand::Constant(c) => self.const_val(owner, c),
            #[allow(unreachable_patterns)]
            other => jobj(&[("k", jstr("otherop")), ("dbg", jstr(&format!("{:?}", other)))]),
        }
    }

    fn rvalue(&mut self, owner: DefId, body: &mir::Body<'tcx>, r: &Rvalue<'tcx>) -> String {
        let tcx = self.tcx;
        match r {
            Rvalue::Use(o, ..) => jobj(&[("k", jstr("use")), ("op", self.operand(owner, body, o))]),
            Rvalue::BinaryOp(op, ops) => {
                let (l, rr) = &**ops;
                jobj(&[
                    ("k", jstr("bin")),
                    ("op", jstr(&binop(*op))),
                    ("l", self.operand(owner, body, l)),
                    ("r", self.operand(owner, body, rr)),
                ])
            }
            Rvalue::UnaryOp(op, o) => jobj(&[
                ("k", jstr("un")),
                ("op", jstr(&unop(*op))),
                ("x", self.operand(owner, body, o)),
            ]),
            Rvalue::Cast(ck, o, t) => jobj(&[
                ("k", jstr("cast")),
                ("ck", jstr(&castkind(ck))),
                ("x", self.operand(owner, body, o)),
                ("ty", self.ty(*t).to_string()),
            ]),
            Rvalue::Ref(_, bk, p) => jobj(&[
                ("k", jstr("ref")),
                ("mut", matches!(bk, BorrowKind::Mut { .. }).to_string()),
                ("p", self.place(body, p)),
            ]),
            Rvalue::RawPtr(m, p) => jobj(&[
                ("k", jstr("rawptr")),
                ("mut", jstr(&format!("{:?}", m))),
                ("p", self.place(body, p)),
            ]),
            Rvalue::Discriminant(p) => {
                jobj(&[("k", jstr("discr")), ("p", self.place(body, p))])
            }
            Rvalue::Aggregate(ak, ops) => {
                let o: Vec<String> = ops.iter().map(|x| self.operand(owner, body, x)).collect();
                let mut items: Vec<(&str, String)> = vec![("k", jstr("agg")), ("ops", jarr(&o))];
                match &**ak {
                    AggregateKind::Tuple => items.push(("ak", jstr("tuple"))),
                    AggregateKind::Array(_) => items.push(("ak", jstr("array"))),
                    AggregateKind::Adt(did, vi, args, _, active) => {
                        items.push(("ak", jstr("adt")));
                        items.push(("adt", jstr(&self.path(*did))));
                        items.push(("variant", vi.as_usize().to_string()));
                        let def = tcx.adt_def(*did);
                        let v = def.variant(*vi);
                        items.push(("vname", jstr(v.name.as_str())));
                        let fnames: Vec<String> =
                            v.fields.iter().map(|f| jstr(f.name.as_str())).collect();
                        items.push(("fields", jarr(&fnames)));
                        if let Some(a) = active {
                            items.push(("active", a.as_usize().to_string()));
                        }
                        let _ = args;
                    }
                    AggregateKind::Closure(did, _) => {
                        items.push(("ak", jstr("closure")));
                        items.push(("def", jstr(&self.path(*did))));
                    }
                    AggregateKind::RawPtr(..) => items.push(("ak", jstr("rawptr"))),
                    _ => items.push(("ak", jstr("other"))),
                }
                jobj(&items)
            }
            Rvalue::CopyForDeref(p) => jobj(&[
                ("k", jstr("use")),
                ("op", jobj(&[("k", jstr("copy")), ("p", self.place(body, p))])),
            ]),
            Rvalue::Repeat(o, _) => {
                jobj(&[("k", jstr("repeat")), ("op", self.operand(owner, body, o))])
            }
            Rvalue::ThreadLocalRef(d) => {
                jobj(&[("k", jstr("tls")), ("def", jstr(&self.path(*d)))])
            }
            other => jobj(&[("k", jstr("other")), ("dbg", jstr(&format!("{:?}", other)))]),
        }
    }

    fn body(&mut self, did: DefId) -> Option<String> {
        let tcx = self.tcx;
        let ldid = did.as_local()?;
        let dk = tcx.def_kind(did);
        let body: &mir::Body<'tcx> = match dk {
            DefKind::Fn | DefKind::AssocFn | DefKind::Closure => tcx.optimized_mir(did),
            _ => return None,
        };
        let mut items = self.def_info(did);
        items.push(("span", self.span(body.span)));
        if matches!(dk, DefKind::Fn | DefKind::AssocFn) {
            items.push(("vis", jstr(&format!("{:?}", tcx.visibility(did)))));
            items.push(("const_fn", tcx.is_const_fn(did).to_string()));
            let attrs = tcx.codegen_fn_attrs(did);
            let mut flags = Vec::new();
            if attrs.flags.contains(rustc_middle::middle::codegen_fn_attrs::CodegenFnAttrFlags::NO_MANGLE) {
                flags.push(jstr("no_mangle"));
            }
            items.push(("flags", jarr(&flags)));
            let sig = tcx.fn_sig(did).instantiate_identity().skip_norm_wip();
            items.push(("abi", jstr(&format!("{:?}", sig.abi()))));
        }
        let _ = ldid;
        items.push(("argc", body.arg_count.to_string()));
        // names of the type parameters in scope (parents first), in the order a caller's type arguments are listed
        {
            let mut names: Vec<String> = Vec::new();
            let mut stack = Vec::new();
            let mut cur = Some(did);
            while let Some(d) = cur {
                let g = tcx.generics_of(d);
                stack.push(g);
                cur = g.parent;
            }
            for g in stack.iter().rev() {
                for p in g.own_params.iter() {
                    if let ty::GenericParamDefKind::Type { .. } = p.kind {
                        names.push(jstr(p.name.as_str()));
                    }
                }
            }
            items.push(("generics", jarr(&names)));
        }
        let mut locals = Vec::new();
        for (_l, d) in body.local_decls.iter_enumerated() {
            locals.push(jobj(&[
                ("ty", self.ty(d.ty).to_string()),
                ("span", self.span(d.source_info.span)),
            ]));
        }
        items.push(("locals", jarr(&locals)));
        let mut dbg = Vec::new();
        for v in &body.var_debug_info {
            if let mir::VarDebugInfoContents::Place(p) = &v.value {
                dbg.push(jobj(&[("name", jstr(v.name.as_str())), ("p", self.place(body, p))]));
            }
        }
        items.push(("debug", jarr(&dbg)));

        let mut blocks = Vec::new();
        for (_bb, data) in body.basic_blocks.iter_enumerated() {
            let mut stmts = Vec::new();
            for st in &data.statements {
                let s = match &st.kind {
                    StatementKind::Assign(b) => {
                        let (p, r) = &**b;
                        Some(jobj(&[
                            ("k", jstr("assign")),
                            ("p", self.place(body, p)),
                            ("r", self.rvalue(did, body, r)),
                            ("span", self.span(st.source_info.span)),
                        ]))
                    }
                    StatementKind::SetDiscriminant { place, variant_index } => Some(jobj(&[
                        ("k", jstr("setdiscr")),
                        ("p", self.place(body, place)),
                        ("v", variant_index.as_usize().to_string()),
                        ("span", self.span(st.source_info.span)),
                    ])),
                    StatementKind::StorageDead(l) => {
                        Some(jobj(&[("k", jstr("dead")), ("l", l.as_usize().to_string())]))
                    }
                    StatementKind::StorageLive(l) => {
                        Some(jobj(&[("k", jstr("live")), ("l", l.as_usize().to_string())]))
                    }
                    StatementKind::Intrinsic(i) => Some(jobj(&[
                        ("k", jstr("intrinsic")),
                        ("dbg", jstr(&format!("{:?}", i))),
                        ("span", self.span(st.source_info.span)),
                    ])),
                    _ => None,
                };
                if let Some(s) = s {
                    stmts.push(s);
                }
            }
            let term = data.terminator();
            let bbn = |b: BasicBlock| b.as_usize().to_string();
            let unwind = |u: &mir::UnwindAction| match u {
                mir::UnwindAction::Cleanup(b) => b.as_usize().to_string(),
                _ => "null".to_string(),
            };
            let t = match &term.kind {
                TerminatorKind::Goto { target } => {
                    jobj(&[("k", jstr("goto")), ("target", bbn(*target))])
                }
                TerminatorKind::SwitchInt { discr, targets } => {
                    let mut ts = Vec::new();
                    for (v, b) in targets.iter() {
                        ts.push(format!("[{},{}]", v, b.as_usize()));
                    }
                    jobj(&[
                        ("k", jstr("switch")),
                        ("discr", self.operand(did, body, discr)),
                        ("targets", jarr(&ts)),
                        ("otherwise", bbn(targets.otherwise())),
                    ])
                }
                TerminatorKind::Return => jobj(&[("k", jstr("return"))]),
                TerminatorKind::Unreachable => jobj(&[("k", jstr("unreachable"))]),
                TerminatorKind::UnwindResume => jobj(&[("k", jstr("resume"))]),
                TerminatorKind::UnwindTerminate(_) => jobj(&[("k", jstr("terminate"))]),
                TerminatorKind::Drop { place, target, unwind: u, .. } => jobj(&[
                    ("k", jstr("drop")),
                    ("p", self.place(body, place)),
                    ("target", bbn(*target)),
                    ("unwind", unwind(u)),
                ]),
                TerminatorKind::Call { func, args, destination, target, unwind: u, .. } => {
                    let a: Vec<String> =
                        args.iter().map(|x| self.operand(did, body, &x.node)).collect();
                    jobj(&[
                        ("k", jstr("call")),
                        ("func", self.operand(did, body, func)),
                        ("args", jarr(&a)),
                        ("dest", self.place(body, destination)),
                        ("target", target.map(bbn).unwrap_or_else(|| "null".to_string())),
                        ("unwind", unwind(u)),
                    ])
                }
                TerminatorKind::Assert { cond, expected, msg, target, unwind: u } => jobj(&[
                    ("k", jstr("assert")),
                    ("cond", self.operand(did, body, cond)),
                    ("expected", expected.to_string()),
                    ("msg", jstr(&assert_kind(msg))),
                    ("target", bbn(*target)),
                    ("unwind", unwind(u)),
                ]),
                TerminatorKind::FalseEdge { real_target, .. } => {
                    jobj(&[("k", jstr("goto")), ("target", bbn(*real_target))])
                }
                TerminatorKind::FalseUnwind { real_target, .. } => {
                    jobj(&[("k", jstr("goto")), ("target", bbn(*real_target))])
                }
                other => jobj(&[("k", jstr("otherterm")), ("dbg", jstr(&format!("{:?}", other)))]),
            };
            blocks.push(jobj(&[
                ("stmts", jarr(&stmts)),
                ("term", t),
                ("tspan", self.span(term.source_info.span)),
                ("cleanup", data.is_cleanup.to_string()),
            ]));
        }
        items.push(("blocks", jarr(&blocks)));
        Some(jobj(&items))
    }
}

fn binop(op: BinOp) -> String {
    format!("{:?}", op)
}
fn unop(op: UnOp) -> String {
    format!("{:?}", op)
}
fn castkind(ck: &CastKind) -> String {
    let s = format!("{:?}", ck);
    // PointerCoercion(Unsize, ..) etc: keep the head and first arg
    s
}
fn assert_kind(m: &mir::AssertKind<Operand<'_>>) -> String {
    match m {
        mir::AssertKind::Overflow(op, ..) => format!("Overflow({:?})", op),
        mir::AssertKind::OverflowNeg(_) => "OverflowNeg".to_string(),
        mir::AssertKind::DivisionByZero(_) => "DivisionByZero".to_string(),
        mir::AssertKind::RemainderByZero(_) => "RemainderByZero".to_string(),
        mir::AssertKind::BoundsCheck { .. } => "BoundsCheck".to_string(),
        mir::AssertKind::MisalignedPointerDereference { .. } => "MisalignedPointerDereference".to_string(),
        mir::AssertKind::NullPointerDereference => "NullPointerDereference".to_string(),
        other => {
            let s = format!("{:?}", other);
            s.split('(').next().unwrap_or("").trim().to_string()
        }
    }
}

struct Cb;

impl rustc_driver::Callbacks for Cb {
    fn after_analysis<'tcx>(
        &mut self,
        _compiler: &rustc_interface::interface::Compiler,
        tcx: TyCtxt<'tcx>,
    ) -> Compilation {
        let out = match std::env::var("CBV_OUT") {
            Ok(o) => o,
            Err(_) => return Compilation::Continue,
        };
        let nonce = std::env::var("CBV_NONCE").unwrap_or_default();
        let crate_name = tcx.crate_name(LOCAL_CRATE).to_string();
        let crate_types: Vec<String> =
            tcx.crate_types().iter().map(|c| jstr(&format!("{:?}", c))).collect();
        let is_test = tcx.sess.opts.test;
        let mut d = Dumper {
            tcx,
            types: Vec::new(),
            type_ix: HashMap::new(),
            adts: BTreeMap::new(),
            adt_seen: HashMap::new(),
        };
        let mut bodies = Vec::new();
        for ldid in tcx.hir_body_owners() {
            let did = ldid.to_def_id();
            if let Some(b) = d.body(did) {
                bodies.push(b);
            }
        }
        // consts and statics of the local crate (evaluated)
        let mut consts = Vec::new();
        for ldid in tcx.hir_body_owners() {
            let did = ldid.to_def_id();
            let dk = tcx.def_kind(did);
            let is_const = matches!(dk, DefKind::Const { .. } | DefKind::AssocConst { .. });
            if !is_const {
                continue;
            }
            let t = tcx.type_of(did).instantiate_identity().skip_norm_wip();
            if t.has_non_region_param() {
                continue;
            }
            let mut items = d.def_info(did);
            items.push(("ty", d.ty(t).to_string()));
            if let Ok(v) = tcx.const_eval_poly(did) {
                match v {
                    ConstValue::Scalar(rustc_middle::mir::interpret::Scalar::Int(si)) => {
                        let size = si.size();
                        items.push(("bits", si.to_bits(size).to_string()));
                        if let ty::Int(_) = t.kind() {
                            items.push(("int", si.to_int(size).to_string()));
                        }
                    }
                    ConstValue::Scalar(rustc_middle::mir::interpret::Scalar::Ptr(p, _)) => {
                        let (prov, off) = p.into_raw_parts();
                        if let rustc_middle::mir::interpret::GlobalAlloc::Memory(alloc) =
                            tcx.global_alloc(prov.alloc_id())
                        {
                            let a = alloc.inner();
                            let bytes = a.inspect_with_uninit_and_ptr_outside_interpreter(
                                (off.bytes() as usize)..a.len(),
                            );
                            let hex: String = bytes.iter().map(|b| format!("{:02x}", b)).collect();
                            items.push(("ptr_bytes", jstr(&hex)));
                        }
                    }
                    ConstValue::Slice { alloc_id, meta } => {
                        let alloc = tcx.global_alloc(alloc_id).unwrap_memory();
                        let bytes = alloc
                            .inner()
                            .inspect_with_uninit_and_ptr_outside_interpreter(0..(meta as usize));
                        items.push(("str", jstr(&String::from_utf8_lossy(bytes))));
                    }
                    ConstValue::Indirect { alloc_id, offset } => {
                        if let rustc_middle::mir::interpret::GlobalAlloc::Memory(alloc) =
                            tcx.global_alloc(alloc_id)
                        {
                            let a = alloc.inner();
                            let bytes = a.inspect_with_uninit_and_ptr_outside_interpreter(
                                (offset.bytes() as usize)..a.len(),
                            );
                            let hex: String = bytes.iter().map(|b| format!("{:02x}", b)).collect();
                            items.push(("bytes", jstr(&hex)));
                        }
                    }
                    ConstValue::ZeroSized => {}
                }
            }
            consts.push(jobj(&items));
        }
        // impl table
        let mut impls = Vec::new();
        for id in tcx.hir_free_items() {
            let did = id.owner_id.to_def_id();
            if let DefKind::Impl { of_trait } = tcx.def_kind(did) {
                let self_ty = tcx.type_of(did).instantiate_identity().skip_norm_wip();
                let s = d.tystr(self_ty);
                let mut items: Vec<(&str, String)> =
                    vec![("self", jstr(&s)), ("self_ty", d.ty(self_ty).to_string())];
                if of_trait {
                    let tr = tcx.impl_trait_ref(did).instantiate_identity().skip_norm_wip();
                    items.push(("trait", jstr(&d.path(tr.def_id))));
                    let negative = matches!(tcx.impl_polarity(did), ty::ImplPolarity::Negative);
                    items.push(("negative", negative.to_string()));
                }
                let mut methods = Vec::new();
                for ai in tcx.associated_items(did).in_definition_order() {
                    methods.push(jobj(&[
                        ("name", jstr(ai.name().as_str())),
                        ("path", jstr(&d.path(ai.def_id))),
                    ]));
                }
                items.push(("items", jarr(&methods)));
                items.push(("span", d.span(tcx.def_span(did))));
                impls.push(jobj(&items));
            }
        }
        // local ADTs even if unused in bodies
        for id in tcx.hir_free_items() {
            let did = id.owner_id.to_def_id();
            if matches!(tcx.def_kind(did), DefKind::Struct | DefKind::Enum | DefKind::Union) {
                let t = tcx.type_of(did).instantiate_identity().skip_norm_wip();
                let _ = d.ty(t);
            }
        }
        let adts: Vec<String> = d
            .adts
            .iter()
            .filter(|(_, v)| !v.is_empty())
            .map(|(k, v)| format!("{}:{}", jstr(k), v))
            .collect();
        let doc = jobj(&[
            ("crate", jstr(&crate_name)),
            ("nonce", jstr(&nonce)),
            ("crate_types", jarr(&crate_types)),
            ("is_test", is_test.to_string()),
            ("overflow_checks", tcx.sess.overflow_checks().to_string()),
            ("opt_level", jstr(&format!("{:?}", tcx.sess.opts.optimize))),
            ("bodies", jarr(&bodies)),
            ("consts", jarr(&consts)),
            ("impls", jarr(&impls)),
            ("adts", format!("{{{}}}", adts.join(","))),
            ("types", jarr(&d.types)),
        ]);
        let kind = if is_test {
            "test".to_string()
        } else {
            tcx.crate_types().iter().map(|c| format!("{:?}", c)).collect::<Vec<_>>().join("-").to_lowercase()
        };
        let fname = format!("{}/{}.{}.{}.json", out, crate_name, kind, std::process::id());
        let tmp = format!("{}.tmp", fname);
        std::fs::write(&tmp, doc.as_bytes()).expect("cbv-mirdump: cannot write facts");
        std::fs::rename(&tmp, &fname).expect("cbv-mirdump: cannot rename facts");
        Compilation::Continue
    }
}

fn main() {
    // As RUSTC_WORKSPACE_WRAPPER: argv = [driver, rustc, args...]; as plain driver: [driver, args...]
    let mut args: Vec<String> = std::env::args().collect();
    if args.len() > 1 && (args[1].ends_with("rustc") || args[1].contains("/rustc")) {
        args.remove(1);
    }
    let mut cb = Cb;
    rustc_driver::run_compiler(&args, &mut cb);
}
