"""Self-test catalogue: mutants (must be caught by the named rule) and behaviour-preserving
variants (every named check must stay silent).  Edits are (file, old, new) with the first
occurrence replaced; an entry whose edit no longer applies is skipped and counted."""

SHM_LIB = 'clock-bound-shm/src/lib.rs'
READER = 'clock-bound-shm/src/reader.rs'
WRITER = 'clock-bound-shm/src/writer.rs'
HEADER = 'clock-bound-shm/src/shm_header.rs'
D_SHMW = 'clock-bound-d/src/shm_writer.rs'
D_POLL = 'clock-bound-d/src/chrony_poller.rs'
D_LIB = 'clock-bound-d/src/lib.rs'
D_MAIN = 'clock-bound-d/src/main.rs'
D_TM = 'clock-bound-d/src/thread_manager.rs'
D_FSM = 'clock-bound-d/src/shm_writer/clock_state_fsm.rs'
FFI = 'clock-bound-ffi/src/lib.rs'
CLIENT = 'clock-bound-client/src/lib.rs'

ENTRIES = {}


def M(eid, what, checks, edits, expect=None):
    ENTRIES[eid] = {'kind': 'mutant', 'what': what, 'checks': checks, 'edits': edits, 'expect': expect or {}}


def E(eid, what, checks, edits):
    ENTRIES[eid] = {'kind': 'equivalent', 'what': what, 'checks': checks, 'edits': edits}


# ---------------------------------------------------------------- C06
M('M06a', 'stored FreeRunning within grace reported as Synchronized', ['C06'],
  [(SHM_LIB, '                    self.clock_status\n                } else if mono < void_after',
    '                    ClockStatus::Synchronized\n                } else if mono < void_after')],
  {'C06': ['C06.D1']})
M('M06b', 'stored Unknown takes the decay path', ['C06'],
  [(SHM_LIB, 'ClockStatus::Unknown => self.clock_status,', 'ClockStatus::Unknown => ClockStatus::FreeRunning,')],
  {'C06': ['C06.D1']})
M('M06c', 'grace 5 s -> 7 s', ['C06'],
  [(SHM_LIB, 'TimeSpec = TimeSpec::new(5, 0)', 'TimeSpec = TimeSpec::new(7, 0)')], {'C06': ['C06.D1']})
M('M06d', 'void_after compared with the realtime reading', ['C06'],
  [(SHM_LIB, '} else if mono < void_after {', '} else if real < void_after {')], {'C06': ['C06.D1']})
M('M06e', 'expired record stays FreeRunning', ['C06'],
  [(SHM_LIB, '                    // If beyond void_after, no guarantee is provided anymore.\n                    ClockStatus::Unknown',
    '                    ClockStatus::FreeRunning')], {'C06': ['C06.D1']})
E('E06a', '<= for < at the grace threshold, reassociated comparison', ['C06'],
  [(SHM_LIB, 'if mono < as_of + CLOCKBOUND_RESTART_GRACE_PERIOD {', 'if mono - as_of <= CLOCKBOUND_RESTART_GRACE_PERIOD {')])
E('E06b', 'void_after test spelled the other way round', ['C06'],
  [(SHM_LIB, '} else if mono < void_after {', '} else if void_after > mono {')])

# ---------------------------------------------------------------- C12
M('M12a', 'poller: monotonic clock read after the chrony query', ['C12'],
  [(D_POLL, '''        match clock_gettime_safe(CLOCK_MONOTONIC) {
            Ok(as_of) => {
                // If polling is successful, pass the tracking data and monotonic timestamp to the
                // shm writer. Otherwise signal chrony is not responding.
                let message = match poller.get_tracking() {''',
    '''        let tracking_reply = poller.get_tracking();
        match clock_gettime_safe(CLOCK_MONOTONIC) {
            Ok(as_of) => {
                let message = match tracking_reply {''')], {'C12': ['C12.O1']})
M('M12b', 'client: monotonic read before realtime read', ['C12'],
  [(SHM_LIB, '''        let real = clock_gettime_safe(CLOCK_REALTIME)?;
        let mono = clock_gettime_safe(CLOCK_MONOTONIC)?;''',
    '''        let mono = clock_gettime_safe(CLOCK_MONOTONIC)?;
        let real = clock_gettime_safe(CLOCK_REALTIME)?;''')], {'C12': ['C12.O2']})
M('M12c', 'poller: clock read hoisted out of the loop', ['C12'],
  [(D_POLL, '''    let mut keep_running = true;

    // Keep on running forever until we receive the instruction to stop.
    while keep_running {
        // First,''', '''    let mut keep_running = true;
    let first_read = clock_gettime_safe(CLOCK_MONOTONIC);

    // Keep on running forever until we receive the instruction to stop.
    while keep_running {
        // First,'''),
   (D_POLL, '        match clock_gettime_safe(CLOCK_MONOTONIC) {\n            Ok(as_of) => {', '        match first_read {\n            Ok(as_of) => {')],
  {'C12': ['C12.O1']})
M('M12d', 'poller: as-of re-read after the query', ['C12'],
  [(D_POLL, 'Message::ClockErrorBoundData((tracking, 0, as_of))',
    'Message::ClockErrorBoundData((tracking, 0, clock_gettime_safe(CLOCK_MONOTONIC).unwrap_or(as_of)))')],
  {'C12': ['C12.O3']})
E('E12a', 'poller: extra debug line and renamed local', ['C12'],
  [(D_POLL, '            Ok(as_of) => {\n                // If polling', '            Ok(as_of) => {\n                debug!("polling chronyd");\n                // If polling')])

# ---------------------------------------------------------------- C05
M('M05a', 'half-width subtracts the drift term', ['C05'],
  [(SHM_LIB, 'self.bound_nsec + (duration_sec * self.max_drift_ppb as f64) as i64',
    'self.bound_nsec - (duration_sec * self.max_drift_ppb as f64) as i64')], {'C05': ['C05.E3']})
M('M05b', 'age taken as whole seconds only', ['C05'],
  [(SHM_LIB, 'let duration_sec = duration.num_nanoseconds() as f64 / 1_000_000_000_f64;',
    'let duration_sec = duration.num_seconds() as f64;')], {'C05': ['C05.E3']})
M('M05c', 'drift scaled by 1e6 instead of 1e9', ['C05'],
  [(SHM_LIB, '/ 1_000_000_000_f64;', '/ 1_000_000_f64;')], {'C05': ['C05.E4']})
M('M05d', 'narrowing conversion as i32 as i64', ['C05'],
  [(SHM_LIB, '(duration_sec * self.max_drift_ppb as f64) as i64', '(duration_sec * self.max_drift_ppb as f64) as i32 as i64')],
  {'C05': ['C05.E5']})
M('M05e', 'age measured against the realtime clock', ['C05'],
  [(SHM_LIB, '            // Happy path, no causality doubt\n            mono - as_of', '            real - as_of')],
  {'C05': ['C05.E2']})
M('M05f', 'FFI swaps earliest and latest', ['C05'],
  [(FFI, '        earliest,\n        latest,\n        clock_status: clock_status.into(),',
    '        earliest: latest,\n        latest: earliest,\n        clock_status: clock_status.into(),')], {'C05': ['C05.E6']})
M('M05g', 'Rust client duplicates earliest', ['C05'],
  [(CLIENT, 'latest: TimeSpec::from(latest),', 'latest: TimeSpec::from(earliest),')], {'C05': ['C05.E6']})
M('M05h', 'drift term dropped', ['C05'],
  [(SHM_LIB, 'self.bound_nsec + (duration_sec * self.max_drift_ppb as f64) as i64,', 'self.bound_nsec,')], {'C05': ['C05.E2']})
M('M05i', 'latest uses a different half-width', ['C05'],
  [(SHM_LIB, 'let latest = real + updated_bound;', 'let latest = real + TimeSpec::nanoseconds(self.bound_nsec);')], {'C05': ['C05.E1']})
E('E05a', 'reordered operands and mul_add spelling', ['C05', 'C14', 'C06'],
  [(SHM_LIB, 'self.bound_nsec + (duration_sec * self.max_drift_ppb as f64) as i64',
    '(self.max_drift_ppb as f64 * duration_sec) as i64 + self.bound_nsec')])
E('E05b', 'helper extracted for the drift growth', ['C05', 'C14', 'C06', 'C12'],
  [(SHM_LIB, '''        let duration_sec = duration.num_nanoseconds() as f64 / 1_000_000_000_f64;
        let updated_bound = TimeSpec::nanoseconds(
            self.bound_nsec + (duration_sec * self.max_drift_ppb as f64) as i64,
        );''', '''        let updated_bound = TimeSpec::nanoseconds(self.bound_nsec + self.growth(duration));'''),
   (SHM_LIB, '''impl ClockErrorBound {
    /// Create a new ClockErrorBound struct.''', '''impl ClockErrorBound {
    fn growth(&self, elapsed: TimeSpec) -> i64 {
        let elapsed_sec = elapsed.num_nanoseconds() as f64 / 1_000_000_000_f64;
        (elapsed_sec * self.max_drift_ppb as f64) as i64
    }

    /// Create a new ClockErrorBound struct.''')])

# ---------------------------------------------------------------- C14
M('M14a', 'malformed threshold 1e9 -> 2e9', ['C14'],
  [(SHM_LIB, 'if self.max_drift_ppb >= 1_000_000_000 {', 'if self.max_drift_ppb >= 2_000_000_000 {')], {'C14': ['C14.M1']})
M('M14a2', 'malformed threshold strict >', ['C14'],
  [(SHM_LIB, 'if self.max_drift_ppb >= 1_000_000_000 {', 'if self.max_drift_ppb > 1_000_000_000 {')], {'C14': ['C14.M1']})
M('M14b', 'blur window turned into CausalityBreach', ['C14'],
  [(SHM_LIB, '''        } else if mono > causality_blur {
            // Causality is "almost" broken. We are within a range that could be due to the clock
            // precision. Let's approximate this to equality between mono and as_of.
            TimeSpec::new(0, 0)
        } else {''', '''        } else {''')], {'C14': ['C14.M2']})
M('M14c', 'causality breach turned into zero duration', ['C14'],
  [(SHM_LIB, '            // Causality is breached.\n            return Err(ShmError::CausalityBreach);', '            TimeSpec::new(0, 0)')],
  {'C14': ['C14.M2']})
M('M14d', 'FFI error drops errno', ['C14'],
  [(FFI, '            ShmError::SyscallError(errno, _) => errno.0,', '            ShmError::SyscallError(_errno, _) => 0,')], {'C14': ['C14.M4']})
M('M14e', 'Rust client swaps two error kinds', ['C14'],
  [(CLIENT, 'ShmError::SegmentMalformed => ClockBoundErrorKind::SegmentMalformed,', 'ShmError::SegmentMalformed => ClockBoundErrorKind::SegmentNotInitialized,')],
  {'C14': ['C14.M4']})
M('M14f', 'new unwrap on the call path', ['C14'],
  [(SHM_LIB, '        let as_of = TimeSpec::from(self.as_of);', '        let as_of = TimeSpec::from(self.as_of);\n        assert!(self.bound_nsec >= 0);')],
  {'C14': ['C14.M3']})
M('M14g', 'age multiplied before conversion overflows i64', ['C14'],
  [(SHM_LIB, 'self.bound_nsec + (duration_sec * self.max_drift_ppb as f64) as i64',
    'self.bound_nsec + duration.num_nanoseconds() * (self.max_drift_ppb as i64) / 1_000_000_000')], {'C14': ['C14.M3']})
E('E14a', 'causality checks reordered (blur first)', ['C14', 'C05'],
  [(SHM_LIB, '''        let duration = if mono >= as_of {
            // Happy path, no causality doubt
            mono - as_of
        } else if mono > causality_blur {
            // Causality is "almost" broken. We are within a range that could be due to the clock
            // precision. Let's approximate this to equality between mono and as_of.
            TimeSpec::new(0, 0)
        } else {
            // Causality is breached.
            return Err(ShmError::CausalityBreach);
        };''', '''        let duration = if mono <= causality_blur {
            return Err(ShmError::CausalityBreach);
        } else if mono < as_of {
            TimeSpec::new(0, 0)
        } else {
            mono - as_of
        };''')])

# ---------------------------------------------------------------- C02 (relative to the repaired tree)
FENCE_W = '            atomic::fence(atomic::Ordering::Release);\n'
FENCE_R = '            atomic::fence(atomic::Ordering::Acquire);\n'
M('M02a', 'writer: release fence removed', ['C02', 'C01'], [(WRITER, FENCE_W, '')], {'C02': ['C02.S1'], 'C01': ['C01.I']})
M('M02b', 'reader: acquire fence removed', ['C02', 'C01'], [(READER, FENCE_R, '')], {'C02': ['C02.S2'], 'C01': ['C01.I']})
M('M02c', 'writer: final generation store Relaxed', ['C02'],
  [(WRITER, '''            generation.store(gen, atomic::Ordering::Release);
        }
    }''', '''            generation.store(gen, atomic::Ordering::Relaxed);
        }
    }''')], {'C02': ['C02.S1']})
M('M02d', 'reader: first generation load Relaxed', ['C02'],
  [(READER, 'let mut first_gen = generation.load(atomic::Ordering::Acquire);', 'let mut first_gen = generation.load(atomic::Ordering::Relaxed);')],
  {'C02': ['C02.S2']})
M('M02e', 'writer: record written before the odd store', ['C02', 'C11'],
  [(WRITER, '''            generation.store(gen, atomic::Ordering::Release);

            // A release store''', '''            self.ceb.write(*ceb);
            generation.store(gen, atomic::Ordering::Release);

            // A release store''')], {'C02': ['C02.S1'], 'C11': ['C11.P4']})
M('M02f', 'reader: accepts on inequality', ['C02'],
  [(READER, 'if first_gen == second_gen {', 'if first_gen != second_gen {')], {'C02': ['C02.S2']})
M('M02g', 'reader: accept returns a reference into shared memory', ['C02'],
  [(READER, '''                self.snapshot_ceb = snapshot;
                return Ok(&self.snapshot_ceb);''', '''                self.snapshot_ceb = snapshot;
                return Ok(unsafe { &*self.ceb_shm });''')], {'C02': ['C02.S3']})
M('M02h', 'writer: compiler_fence instead of fence', ['C02'],
  [(WRITER, FENCE_W, '            atomic::compiler_fence(atomic::Ordering::Release);\n')], {'C02': ['C02.S1']})
M('M02i', 'reader maps the segment writable', ['C02'],
  [(READER, '                libc::PROT_READ,', '                libc::PROT_READ | libc::PROT_WRITE,')], {'C02': ['C02.S4']})
M('M02j', 'reader: odd check dropped in the fast path', ['C02', 'C03'],
  [(READER, '''        if first_gen & 0x0001 == 1 {
            return Ok(&self.snapshot_ceb);
        }
''', '')], {'C02': ['C02.S2'], 'C03': ['C03.G1']})
M('M02k', 'a second writer of the record in ShmWriter::new', ['C02', 'C04'],
  [(WRITER, '''            version.store(1_u16, atomic::Ordering::Relaxed);
        }''', '''            version.store(1_u16, atomic::Ordering::Relaxed);
            writer.ceb.write(ClockErrorBound::default());
        }''')], {'C02': ['C02.S4'], 'C04': ['C04.T3']})
M('M02l', 'writer: field-by-field copy that leaves void_after and reserved1 out', ['C02'],
  [(WRITER, '            self.ceb.write(*ceb);\n', '''            let dst = self.ceb;
            std::ptr::addr_of_mut!((*dst).as_of).write(ceb.as_of);
            std::ptr::addr_of_mut!((*dst).bound_nsec).write(ceb.bound_nsec);
            std::ptr::addr_of_mut!((*dst).max_drift_ppb).write(ceb.max_drift_ppb);
            std::ptr::addr_of_mut!((*dst).clock_status).write(ceb.clock_status);
''')], {'C02': ['C02.S6']})
M('M02m', 'reader: field-by-field copy that leaves void_after out (keeps the default)', ['C02'],
  [(READER, '            let snapshot = unsafe { self.ceb_shm.read_volatile() };\n', '''            let src = self.ceb_shm;
            let snapshot = unsafe {
                ClockErrorBound {
                    as_of: ptr::addr_of!((*src).as_of).read_volatile(),
                    bound_nsec: ptr::addr_of!((*src).bound_nsec).read_volatile(),
                    max_drift_ppb: ptr::addr_of!((*src).max_drift_ppb).read_volatile(),
                    clock_status: ptr::addr_of!((*src).clock_status).read_volatile(),
                    ..ClockErrorBound::default()
                }
            };
''')], {'C02': []})
M('M02n', 'writer: record copied with a byte count that stops before clock_status', ['C02'],
  [(WRITER, '            self.ceb.write(*ceb);\n',
    '            std::ptr::copy_nonoverlapping((ceb as *const ClockErrorBound).cast::<u8>(), self.ceb.cast::<u8>(), 48);\n')],
  {'C02': ['C02.S6']})
E('E02a', 'SeqCst everywhere and an extra fence', ['C02', 'C11', 'C03', 'C18'],
  [(WRITER, FENCE_W, '            atomic::fence(atomic::Ordering::SeqCst);\n            atomic::fence(atomic::Ordering::Release);\n'),
   (READER, FENCE_R, '            atomic::fence(atomic::Ordering::SeqCst);\n')])
E('E02b', 'parity tests spelled with % 2 and | 1', ['C02', 'C11', 'C03', 'C04'],
  [(WRITER, 'let gen = if gen & 0x0001 == 0 {', 'let gen = if gen % 2 == 0 {'),
   (READER, 'if first_gen & 0x0001 == 1 {', 'if first_gen % 2 != 0 {')])

# ---------------------------------------------------------------- C03
M('M03a', 'cache served when generation <= cached generation', ['C03'],
  [(READER, 'if first_gen == self.snapshot_gen {', 'if first_gen <= self.snapshot_gen {')], {'C03': ['C03.G1']})
M('M03c', 'cached generation updated before the loop', ['C03'],
  [(READER, '        let mut retries = 1_000_000;', '        self.snapshot_gen = first_gen;\n        let mut retries = 1_000_000;')], {'C03': ['C03.G2']})
M('M03d', 'after the retry loop the cache is returned as Ok', ['C03', 'C18'],
  [(READER, '        // Attempts to read the snapshot have failed.\n        Err(ShmError::SegmentNotInitialized)', '        Ok(&self.snapshot_ceb)')],
  {'C03': ['C03.G3']})
M('M03e', 're-loaded generation adopted even if odd', ['C03'],
  [(READER, '''                if second_gen & 0x0001 == 0 {
                    first_gen = second_gen;
                }''', '''                first_gen = second_gen;''')], {'C03': ['C03.G4']})
E('E03a', 'early guards merged into one condition and reordered', ['C03', 'C02', 'C18'],
  [(READER, '''        if first_gen == 0 {
            return Ok(&self.snapshot_ceb);
        }
''', ''),
   (READER, 'if first_gen == self.snapshot_gen {', 'if first_gen == self.snapshot_gen || first_gen == 0 {')])

# ---------------------------------------------------------------- C04
M('M04a', 'new() wipes unconditionally', ['C04'],
  [(WRITER, '        if ShmWriter::is_usable_segment(path).is_err() {', '        let _ = ShmWriter::is_usable_segment(path);\n        {')], {'C04': ['C04.T1']})
M('M04b', 'write() always increments (odd start becomes even during the copy)', ['C04', 'C11'],
  [(WRITER, '''            let gen = if gen & 0x0001 == 0 {
                // This should be the most common case
                gen.wrapping_add(1)
            } else {
                gen
            };''', '''            let gen = gen.wrapping_add(1);''')], {'C11': ['C11.P1'], 'C04': ['C04.T4']})
M('M04c', 'new() also resets the generation', ['C04', 'C11'],
  [(WRITER, '''            version.store(1_u16, atomic::Ordering::Relaxed);
        }''', '''            version.store(1_u16, atomic::Ordering::Relaxed);
            (&*writer.generation).store(0_u16, atomic::Ordering::Relaxed);
        }''')], {'C04': ['C04.T3'], 'C11': ['C11.P5']})
M('M04d', 'mapping open creates/truncates the file', ['C04'],
  [(WRITER, '            nix::fcntl::OFlag::O_RDWR,', '            nix::fcntl::OFlag::O_RDWR | nix::fcntl::OFlag::O_CREAT | nix::fcntl::OFlag::O_TRUNC,')], {'C04': ['C04.T2']})
M('M04e', 'wipe leaves version 1', ['C04'],
  [(WRITER, '        file.write_u16::<NativeEndian>(0)?; // Version', '        file.write_u16::<NativeEndian>(1)?; // Version')], {'C04': ['C04.T6']})
M('M04f', 'probe inverted: wipes when usable', ['C04'],
  [(WRITER, 'if ShmWriter::is_usable_segment(path).is_err() {', 'if ShmWriter::is_usable_segment(path).is_ok() {')], {'C04': ['C04.T1']})

# ---------------------------------------------------------------- C07 (post-fix)
M('M07b', 'abs() dropped again', ['C07', 'C01'],
  [(D_SHMW, 'f64::from(tracking.current_correction).abs();', 'f64::from(tracking.current_correction);')], {'C07': ['C07.F2'], 'C01': ['C01.I']})
M('M07c', 'floor instead of ceil', ['C07'], [(D_SHMW, '* 1_000_000_000.0).ceil() as i64;', '* 1_000_000_000.0).floor() as i64;')], {'C07': ['C07.F3']})
M('M07d', 'root delay not halved', ['C07'], [(D_SHMW, '((root_delay / 2. + root_dispersion', '((root_delay + root_dispersion')], {'C07': ['C07.F1']})
M('M07e', 'max(0) instead of abs', ['C07'],
  [(D_SHMW, 'f64::from(tracking.current_correction).abs();', 'f64::from(tracking.current_correction).max(0.0);')], {'C07': ['C07.F1', 'C07.F2']})
M('M07f', 'dispersion dropped', ['C07'], [(D_SHMW, '((root_delay / 2. + root_dispersion + current_correction)', '((root_delay / 2. + current_correction)')], {'C07': ['C07.F1']})
M('M07g', 'scaled to microseconds', ['C07'], [(D_SHMW, '* 1_000_000_000.0).ceil()', '* 1_000_000.0).ceil()')], {'C07': ['C07.F1']})
M('M07h', 'PHC error bound subtracted', ['C07'], [(D_SHMW, '        bound_nsec += phc_error_bound;', '        bound_nsec -= phc_error_bound;')], {'C07': ['C07.F4']})
E('E07a', '0.5 * delay and reordered summands', ['C07', 'C10', 'C08'],
  [(D_SHMW, '((root_delay / 2. + root_dispersion + current_correction)', '((current_correction + 0.5 * root_delay + root_dispersion)')])

# ---------------------------------------------------------------- C08
M('M08a', 'as-of assigned on every report', ['C08'],
  [(D_SHMW, '''            self.bound_nsec = bound_nsec;
            self.as_of = as_of;
            self.has_measurement = true;
        }''', '''            self.bound_nsec = bound_nsec;
            self.has_measurement = true;
        }
        self.as_of = as_of;''')], {'C08': ['C08.A']})
M('M08b', 'guard != Unknown instead of == Synchronized', ['C08'],
  [(D_SHMW, 'if clock_status == ChronyClockStatus::Synchronized {', 'if clock_status != ChronyClockStatus::Unknown {')], {'C08': ['C08.A']})
M('M08c', 'void_after 10000 s', ['C08'], [(D_SHMW, 'tv_sec: self.as_of.tv_sec + 1000,', 'tv_sec: self.as_of.tv_sec + 10000,')], {'C08': ['C08.B']})
M('M08d', 'no publication for grace-period outages', ['C08'],
  [(D_SHMW, '''        self.shm_clock_state = self.shm_clock_state.apply_chrony(chrony_status);

        // Finally write the new CEB out to shared memory.
        self.write_clock_error_bound();''', '''        self.shm_clock_state = self.shm_clock_state.apply_chrony(chrony_status);

        // Finally write the new CEB out to shared memory.
        if !within_grace_period {
            self.write_clock_error_bound();
        }''')], {'C08': ['C08.G']})
M('M08e', 'PHC failure in grace dispatched as beyond grace', ['C08'],
  [(D_SHMW, '''            Ok(Message::PhcErrorBoundRetrievalFailedGracePeriod) => {
                updater.process_missing_clock_update(true)''', '''            Ok(Message::PhcErrorBoundRetrievalFailedGracePeriod) => {
                updater.process_missing_clock_update(false)''')], {'C08': ['C08.F']})
M('M08f', 'FSM: FreeRunning state ignores an Unknown input', ['C08'],
  [(D_FSM, '''impl FSMTransition for ShmClockState<FreeRunning> {
    /// Implement the transitions from the FreeRunning FSM state.
    fn transition(&self, chrony: ChronyClockStatus) -> Box<dyn FSMState> {
        match chrony {
            ChronyClockStatus::Unknown => bstate!(Unknown),''', '''impl FSMTransition for ShmClockState<FreeRunning> {
    /// Implement the transitions from the FreeRunning FSM state.
    fn transition(&self, chrony: ChronyClockStatus) -> Box<dyn FSMState> {
        match chrony {
            ChronyClockStatus::Unknown => bstate!(FreeRunning),''')], {'C08': ['C08.D']})
M('M08g', 'missing update within grace mapped to Unknown', ['C08'],
  [(D_SHMW, '''            true => ChronyClockStatus::FreeRunning,
            false => ChronyClockStatus::Unknown,''', '''            true => ChronyClockStatus::Unknown,
            false => ChronyClockStatus::FreeRunning,''')], {'C08': ['C08.F']})
M('M08h', 'drift overwritten by a handler', ['C08', 'C19'],
  [(D_SHMW, '            self.has_measurement = true;\n        }', '            self.has_measurement = true;\n            self.max_drift_ppb = 1000;\n        }')], {'C08': ['C08.C']})
E('E08a', 'match instead of if on the grace flag; log text changed', ['C08', 'C09', 'C13'],
  [(D_SHMW, '''        let chrony_status = match within_grace_period {
            true => ChronyClockStatus::FreeRunning,
            false => ChronyClockStatus::Unknown,
        };''', '''        let chrony_status = if within_grace_period {
            ChronyClockStatus::FreeRunning
        } else {
            ChronyClockStatus::Unknown
        };'''),
   (D_SHMW, 'debug!("Received missing clock update message");', 'debug!("missing clock update");')])

# ---------------------------------------------------------------- C09 (post-fix)
M('M09a', 'gate removed', ['C09', 'C01'],
  [(D_SHMW, '''        let clock_status = if self.has_measurement {
            self.shm_clock_state.value()
        } else {
            ClockStatus::Unknown
        };''', '''        let clock_status = self.shm_clock_state.value();''')], {'C09': ['C09.Q1'], 'C01': ['C01.I']})
M('M09b', 'gate opened by any report', ['C09'],
  [(D_SHMW, '''            self.as_of = as_of;
            self.has_measurement = true;
        }''', '''            self.as_of = as_of;
        }
        self.has_measurement = true;''')], {'C09': ['C09.Q1']})
M('M09c', 'gate starts open', ['C09'], [(D_SHMW, '            has_measurement: false,', '            has_measurement: true,')], {'C09': ['C09.Q1']})
M('M09d', 'poller starts inside the grace period', ['C09', 'C13'],
  [(D_POLL, '''            last_tracking_data: Instant::now()
                .checked_sub(CHRONY_RESTART_GRACE_PERIOD)
                .unwrap(),''', '''            last_tracking_data: Instant::now(),''')], {'C09': ['C09.Q2'], 'C13': ['C13.P1']})
E('E09a', 'gate expressed with an Option', ['C09', 'C08'],
  [(D_SHMW, '    has_measurement: bool,\n}', '    has_measurement: Option<()>,\n}'),
   (D_SHMW, '            has_measurement: false,', '            has_measurement: None,'),
   (D_SHMW, 'let clock_status = if self.has_measurement {', 'let clock_status = if self.has_measurement.is_some() {'),
   (D_SHMW, '            self.has_measurement = true;', '            self.has_measurement = Some(());')])

# ---------------------------------------------------------------- C10
M('M10a', 'leap 3 counted as synchronised', ['C10'], [(D_LIB, '            0..=2 => Self::Synchronized,', '            0..=3 => Self::Synchronized,')], {'C10': ['C10.L1', 'C10.L4']})
M('M10b', '8 -> 80 intervals', ['C10'], [(D_SHMW, '(polling_period * 8.0) as u64', '(polling_period * 80.0) as u64')], {'C10': ['C10.L2']})
M('M10c', 'future reference time -> FreeRunning', ['C10'],
  [(D_SHMW, 'return (bound_nsec, ChronyClockStatus::Unknown);', 'return (bound_nsec, ChronyClockStatus::FreeRunning);')], {'C10': ['C10.L3']})
M('M10d', 'staleness also degrades leap 3 to Unknown', ['C10'],
  [(D_SHMW, '        status => status,\n    };', '        ChronyClockStatus::FreeRunning if duration_since_update > empty_register_timeout => ChronyClockStatus::Unknown,\n        status => status,\n    };')],
  {'C10': ['C10.L4']})
M('M10e', 'stale compares the last offset age instead of the ref time', ['C10'],
  [(D_SHMW, 'let polling_period = f64::from(tracking.last_update_interval);', 'let polling_period = f64::from(tracking.rms_offset);')], {'C10': ['C10.L2']})

# ---------------------------------------------------------------- C11
M('M11a', 'wrap check removed', ['C11', 'C02'], [(WRITER, '            if gen == 0 {\n                gen = 2\n            }\n', '')], {'C11': ['C11.P2']})
M('M11b', 'wrap to 1', ['C11'], [(WRITER, '                gen = 2\n', '                gen = 1\n')], {'C11': ['C11.P2']})
M('M11c', 'completion adds 2', ['C11'], [(WRITER, 'let mut gen = gen.wrapping_add(1);', 'let mut gen = gen.wrapping_add(2);')], {'C11': ['C11.P2']})
M('M11d', 'wrap test off by one', ['C11'], [(WRITER, '            if gen == 0 {\n                gen = 2', '            if gen == 1 {\n                gen = 2')], {'C11': ['C11.P2']})

# ---------------------------------------------------------------- C13
M('M13b', 'grace period 50 s', ['C13'], [(D_POLL, 'const CHRONY_RESTART_GRACE_PERIOD: Duration = Duration::from_secs(5);', 'const CHRONY_RESTART_GRACE_PERIOD: Duration = Duration::from_secs(50);')], {'C13': ['C13.P2']})
M('M13c', 'instant refreshed on a non-tracking reply', ['C13'],
  [(D_POLL, '''                    error!(
                        "Reply from chronyd was invalid. Expected tracking data but got: {:?}",
                        reply
                    );
                    None''', '''                    self.last_tracking_data = Instant::now();
                    None''')], {'C13': ['C13.P3']})
M('M13d', 'PHC bound attached when ids differ', ['C13'],
  [(D_POLL, 'Some(phc_info) if phc_info.refid == tracking.ref_id => {', 'Some(phc_info) if phc_info.refid != tracking.ref_id => {')], {'C13': ['C13.P5']})
M('M13e', 'grace and non-grace swapped for a silent chronyd', ['C13'],
  [(D_POLL, '''                        if poller.is_within_grace_period() {
                            Message::ChronyNotRespondingGracePeriod
                        } else {
                            Message::ChronyNotResponding
                        }''', '''                        if poller.is_within_grace_period() {
                            Message::ChronyNotResponding
                        } else {
                            Message::ChronyNotRespondingGracePeriod
                        }''')], {'C13': ['C13.P4']})
M('M13f', 'PHC read failure still reports the tracking data', ['C13'],
  [(D_POLL, '''                                    if poller.is_within_grace_period() {
                                        Message::PhcErrorBoundRetrievalFailedGracePeriod
                                    } else {''', '''                                    if poller.is_within_grace_period() {
                                        Message::ClockErrorBoundData((tracking, 0, as_of))
                                    } else {''')], {'C13': ['C13.P4']})

# ---------------------------------------------------------------- C15
M('M15a', 'ThreadTerminate arm leaves without broadcast', ['C15'],
  [(D_TM, '''                error!("Received terminate message from {:?}", channel_id);
                broadcast_abort(dispatchbox.clone());
                break;''', '''                error!("Received terminate message from {:?}", channel_id);
                break;''')], {'C15': ['C15.N3']})
M('M15b', 'ThreadPanic arm continues', ['C15'],
  [(D_TM, '''                error!("Received panic message from {:?}", channel_id);
                broadcast_abort(dispatchbox.clone());
                break;''', '''                error!("Received panic message from {:?}", channel_id);
                broadcast_abort(dispatchbox.clone());
                continue;''')], {'C15': ['C15.N3']})
M('M15c', 'broadcast filter inverted', ['C15'], [(D_TM, '.filter(|chan| **chan != ChannelId::MainThread)', '.filter(|chan| **chan == ChannelId::MainThread)')], {'C15': ['C15.N4']})
M('M15d', 'Drop for Context reports only panics', ['C15'],
  [(D_TM, '''        match self.dbox.send(&ChannelId::MainThread, message) {''', '''        if !panicking() {
            return;
        }
        match self.dbox.send(&ChannelId::MainThread, message) {''')], {'C15': ['C15.N1']})
M('M15e', 'broadcast iterator not consumed', ['C15'],
  [(D_TM, '''    let _res: Vec<_> = dispatchbox
        .keys()
        .filter(|chan| **chan != ChannelId::MainThread)
        .map(|chan| dispatchbox.send(chan, Message::ThreadAbort))
        .collect();''', '''    let _res = dispatchbox
        .keys()
        .filter(|chan| **chan != ChannelId::MainThread)
        .map(|chan| dispatchbox.send(chan, Message::ThreadAbort));''')], {'C15': ['C15.N4']})
M('M15g', 'poll wait of one hour', ['C15'], [(D_POLL, 'let sleep = Duration::from_millis(1000);', 'let sleep = Duration::from_secs(3600);')], {'C15': ['C15.N6']})
M('M15h', 'writer loop ignores ThreadAbort', ['C15'],
  [(D_SHMW, '''                info!("Received message to stop shm writer thread");
                keep_running = false;''', '''                info!("Received message to stop shm writer thread");''')], {'C15': ['C15.N5']})
M('M15i', 'poller context leaked', ['C15'],
  [(D_POLL, '    run_clock_error_bound_poller(ctx, poller, phc_info, sleep);', '    run_clock_error_bound_poller(ctx, poller, phc_info, sleep);\n'),
   (D_POLL, '''            Err(e) => error!("Error reading from MPSC channel: {:?}", e),
        }
    }
}''', '''            Err(e) => error!("Error reading from MPSC channel: {:?}", e),
        }
    }
    std::mem::forget(ctx);
}''')], {'C15': ['C15.N2']})
M('M15j', 'mailboxes of the two workers swapped', ['C15', 'C01'],
  [(D_TM, '''    let mbox = match mailbox.get_mailbox(&ChannelId::ClockErrorBoundPoller) {
        Some(mbox) => mbox,''', '''    let mbox = match mailbox.get_mailbox(&ChannelId::ShmWriter) {
        Some(mbox) => mbox,'''),
   (D_TM, '''    let mbox = match mailbox.get_mailbox(&ChannelId::ShmWriter) {
        Some(mbox) => mbox,
        None => unimplemented!(
            "Implementation error: no MPSC channel found for {:?}",
            ChannelId::ShmWriter
        ),
    };
    let ctx = Context {
        mbox,
        dbox: dispatchbox.clone(),
        channel_id: ChannelId::ShmWriter,''', '''    let mbox = match mailbox.get_mailbox(&ChannelId::ClockErrorBoundPoller) {
        Some(mbox) => mbox,
        None => unimplemented!(
            "Implementation error: no MPSC channel found for {:?}",
            ChannelId::ShmWriter
        ),
    };
    let ctx = Context {
        mbox,
        dbox: dispatchbox.clone(),
        channel_id: ChannelId::ShmWriter,''')], {'C15': ['C15.N2']})
M('M15k', 'handles not joined', ['C15'],
  [(D_TM, '    for handle in thread_handlers {\n        let _ = handle.join();\n    }', '    drop(thread_handlers);')], {'C15': ['C15.N3']})

# ---------------------------------------------------------------- C16
M('M16b', 'reader: header+record size test removed', ['C16'],
  [(READER, '''        if mmap_guard.segsize < size_of::<ShmHeader>() + size_of::<ClockErrorBound>() {
            return Err(ShmError::SegmentMalformed);
        }
''', '')], {'C16': ['C16.V1', 'C16.V3']})
M('M16c', 'short read reported as malformed', ['C16'],
  [(HEADER, '''            ret if (ret as usize) < size_of::<ShmHeader>() => {
                return Err(ShmError::SegmentNotInitialized)''', '''            ret if (ret as usize) < size_of::<ShmHeader>() => {
                return Err(ShmError::SegmentMalformed)''')], {'C16': ['C16.V2']})
M('M16d', 'generation 0 accepted on open', ['C16'],
  [(HEADER, '''        if !self.is_initialized() {
            return Err(ShmError::SegmentNotInitialized);
        }
''', '')], {'C16': ['C16.V1']})
M('M16e', 'bad magic reported as malformed', ['C16'],
  [(HEADER, '''        if !self.matches_magic(&SHM_MAGIC) {
            return Err(ShmError::SegmentNotInitialized);''', '''        if !self.matches_magic(&SHM_MAGIC) {
            return Err(ShmError::SegmentMalformed);''')], {'C16': ['C16.V1']})
M('M16f', 'size test only covers the record', ['C16'],
  [(READER, 'if mmap_guard.segsize < size_of::<ShmHeader>() + size_of::<ClockErrorBound>() {', 'if mmap_guard.segsize < size_of::<ClockErrorBound>() {')], {'C16': ['C16.V1', 'C16.V3']})
M('M16h', 'only the first magic word is compared', ['C16'],
  [(HEADER, '        self.magic == *magic', '        self.magic[0] == magic[0]')], {'C16': ['C16.V1']})
M('M16g', 'wipe declares a size smaller than what new() maps', ['C16'],
  [(WRITER, '        file.write_u32::<NativeEndian>(size)?; // Segsize', '        file.write_u32::<NativeEndian>(size - 8)?; // Segsize')], {'C16': ['C16.V4']})

# ---------------------------------------------------------------- C17
M('M17a', 'two record fields swapped', ['C17'],
  [(SHM_LIB, '''    bound_nsec: i64,

    /// Maximum drift rate''', '''    reserved1: u32,

    /// Maximum drift rate'''),
   (SHM_LIB, '''    /// Place-holder that is reserved for future use.
    reserved1: u32,

    /// The synchronization daemon status''', '''    /// Place-holder that is reserved for future use.
    bound_nsec: i64,

    /// The synchronization daemon status''')], {'C17': ['C17.Y1']})
M('M17b', 'FFI status enum reordered (mapping by name kept)', ['C17', 'C06'],
  [(FFI, '''    CLOCKBOUND_STA_UNKNOWN,
    CLOCKBOUND_STA_SYNCHRONIZED,
    CLOCKBOUND_STA_FREE_RUNNING,
}''', '''    CLOCKBOUND_STA_UNKNOWN,
    CLOCKBOUND_STA_FREE_RUNNING,
    CLOCKBOUND_STA_SYNCHRONIZED,
}''')], {'C17': ['C17.Y3'], 'C06': ['C06.D4']})
M('M17c', 'FFI errno widened to i64', ['C17'],
  [(FFI, '    pub errno: i32,', '    pub errno: i64,'), (FFI, '            ShmError::SyscallError(errno, _) => errno.0,', '            ShmError::SyscallError(errno, _) => errno.0 as i64,')],
  {'C17': ['C17.Y3']})
M('M17o', 'C open reports every failure as an empty error record', ['C17'],
  [(FFI, '                err.write(e.into())', '                let _ = e;\n                err.write(Default::default())')], {'C17': ['C17.Y9']})
M('M17p', 'C close forgets the context instead of freeing it', ['C17'],
  [(FFI, '    std::mem::drop(Box::from_raw(ctx));', '    std::mem::forget(Box::from_raw(ctx));')], {'C17': ['C17.Y9']})
M('M17q', 'Rust client opens the default path whatever path it was given', ['C17'],
  [(CLIENT, '        let shm_path = CString::new(shm_path).expect("CString::new failed");',
    '        let _ = shm_path;\n        let shm_path = CString::new(CLOCKBOUND_SHM_DEFAULT_PATH).expect("CString::new failed");')], {'C17': ['C17.Y9']})
M('M17d', 'record loses repr(C)', ['C17'],
  [(SHM_LIB, '#[repr(C)]\n#[derive(Debug, Copy, Clone, PartialEq)]\npub struct ClockErrorBound {', '#[derive(Debug, Copy, Clone, PartialEq)]\npub struct ClockErrorBound {')], {'C17': ['C17.Y1']})
M('M17e', 'daemon writes to a different default path', ['C17', 'C01'],
  [(D_SHMW, 'const CLOCKBOUND_SHM_DEFAULT_PATH: &str = "/var/run/clockbound/shm";', 'const CLOCKBOUND_SHM_DEFAULT_PATH: &str = "/var/run/clockbound/shm0";')], {'C17': ['C17.Y8'], 'C01': ['C01.W4']})
M('M17f', 'status discriminants renumbered', ['C17'],
  [(SHM_LIB, '    Synchronized = 1,', '    Synchronized = 2,'), (SHM_LIB, '    FreeRunning = 2,', '    FreeRunning = 1,')], {'C17': ['C17.Y2']})
M('M17g', 'clockbound_close takes the context by value pointer to pointer', ['C17'],
  [(FFI, 'pub unsafe extern "C" fn clockbound_close(ctx: *mut clockbound_ctx) -> *const clockbound_err {\n    std::mem::drop(Box::from_raw(ctx));',
    'pub unsafe extern "C" fn clockbound_close(ctx: *mut *mut clockbound_ctx) -> *const clockbound_err {\n    std::mem::drop(Box::from_raw(*ctx));')], {'C17': ['C17.Y4']})

# ---------------------------------------------------------------- C18
M('M18a', 'retry counter never decremented', ['C18'], [(READER, '            retries -= 1;\n', '')], {'C18': ['C18.B1']})
M('M18b', 'uncapped retry loop', ['C18'],
  [(READER, '        while retries > 0 {', '        loop {'), (READER, '            retries -= 1;\n', '            retries -= 0;\n')], {'C18': ['C18.B1']})
M('M18c', 'decrement only when the generation was odd', ['C18'],
  [(READER, '''                if second_gen & 0x0001 == 0 {
                    first_gen = second_gen;
                }
            }
            retries -= 1;''', '''                if second_gen & 0x0001 == 0 {
                    first_gen = second_gen;
                } else {
                    retries -= 1;
                }
            }''')], {'C18': ['C18.B1']})
M('M18f', 'unsigned budget, an in-flight observation charged twice: 1 - 2 wraps, the loop never ends in release', ['C18'],
  [(READER, '        let mut retries = 1_000_000;', '        let mut retries: u32 = 1_000_000;'),
   (READER, '''                if second_gen & 0x0001 == 0 {
                    first_gen = second_gen;
                }''', '''                if second_gen & 0x0001 == 0 {
                    first_gen = second_gen;
                } else {
                    retries -= 1;
                }''')], {'C18': ['C18.B1']})
M('M18d', 'reader sleeps between retries', ['C18'],
  [(READER, '            retries -= 1;\n', '            retries -= 1;\n            std::thread::sleep(std::time::Duration::from_millis(1));\n')], {'C18': ['C18.B3']})
M('M18e', 'odd generation waits for the writer', ['C18', 'C03'],
  [(READER, '''        if first_gen & 0x0001 == 1 {
            return Ok(&self.snapshot_ceb);
        }''', '''        while first_gen & 0x0001 == 1 {
            first_gen = generation.load(atomic::Ordering::Acquire);
        }''')], {'C18': ['C18.B1', 'C18.B2']})

# ---------------------------------------------------------------- C19 (post-fix)
CHK = '''        Some(rate) => rate.checked_mul(1000).ok_or_else(|| {
            format!(
                "The max drift rate of {} ppm is too large to be expressed in ppb",
                rate
            )
        })?,'''
M('M19a', 'plain multiply again', ['C19'], [(D_MAIN, CHK, '        Some(rate) => rate * 1000,')], {'C19': ['C19.R1']})
M('M19b', 'saturating multiply', ['C19'], [(D_MAIN, CHK, '        Some(rate) => rate.saturating_mul(1000),')], {'C19': ['C19.R3']})
M('M19c', 'wrapping multiply', ['C19'], [(D_MAIN, CHK, '        Some(rate) => rate.wrapping_mul(1000),')], {'C19': ['C19.R3']})
M('M19d', 'default 1 ppb instead of 1000', ['C19'], [(D_MAIN, 'pub const DEFAULT_MAX_DRIFT_RATE_PPB: u32 = 1000;', 'pub const DEFAULT_MAX_DRIFT_RATE_PPB: u32 = 1;')], {'C19': ['C19.R2']})
M('M19e', 'scale 100', ['C19'], [(D_MAIN, 'rate.checked_mul(1000)', 'rate.checked_mul(100)')], {'C19': ['C19.R2']})
M('M19f', 'unrepresentable rate falls back to the default', ['C19'], [(D_MAIN, CHK, '        Some(rate) => rate.checked_mul(1000).unwrap_or(DEFAULT_MAX_DRIFT_RATE_PPB),')], {'C19': ['C19.R1', 'C19.R3']})
M('M19g', 'writer thread given the default instead of the configured rate', ['C19', 'C01'],
  [(D_TM, 'thread_handlers.push(spawn(move || shm_writer::run(ctx, max_drift_ppb)));', 'let _ = max_drift_ppb;\n    thread_handlers.push(spawn(move || shm_writer::run(ctx, 1000)));')], {'C19': ['C19.R4']})
E('E19a', 'guarded plain multiply', ['C19'],
  [(D_MAIN, CHK, '''        Some(rate) => {
            if rate > u32::MAX / 1000 {
                return Err(format!("The max drift rate of {} ppm is too large", rate));
            }
            rate * 1000
        }''')])

# ---------------------------------------------------------------- C01 wiring
M('M01b', 'poller stamps as-of with CLOCK_REALTIME', ['C01', 'C12'],
  [(D_POLL, 'match clock_gettime_safe(CLOCK_MONOTONIC) {', 'match clock_gettime_safe(clock_bound_shm::common::CLOCK_REALTIME) {')], {'C01': ['C01.W2']})
M('M01c', 'client measures age with CLOCK_MONOTONIC_RAW', ['C01'],
  [(SHM_LIB, 'let mono = clock_gettime_safe(CLOCK_MONOTONIC)?;', 'let mono = clock_gettime_safe(libc::CLOCK_MONOTONIC_RAW)?;')], {'C01': ['C01.W2']})
M('M01d', 'FFI evaluates now() on a stale default record', ['C01'],
  [(FFI, '    let (earliest, latest, clock_status) = match ceb_snap.now() {', '    let _ = ceb_snap;\n    let (earliest, latest, clock_status) = match ClockErrorBound::default().now() {')], {'C01': ['C01.W3']})
M('M01e', 'poller sends its outcomes to the main thread', ['C01'],
  [(D_POLL, 'match ctx.dbox.send(&ChannelId::ShmWriter, message) {', 'match ctx.dbox.send(&ChannelId::MainThread, message) {')], {'C01': ['C01.W1']})
M('M01f', 'writer maps the record 8 bytes further', ['C01'],
  [(WRITER, 'let ceb: *mut ClockErrorBound = addr.add(size_of::<ShmHeader>()).cast();', 'let ceb: *mut ClockErrorBound = addr.add(size_of::<ShmHeader>() + 8).cast();')], {'C01': ['C01.W5']})

# ---------------------------------------------------------------- seeded by independent sub-agents (see /verif/seeded/<label>/meta.json)
import json as _json, os as _os
_SEED = _os.path.join(_os.path.dirname(_os.path.dirname(_os.path.abspath(__file__))), 'seeded')
if _os.path.isdir(_SEED):
    for _lab in sorted(_os.listdir(_SEED)):
        _m = _os.path.join(_SEED, _lab, 'meta.json')
        if not _os.path.exists(_m):
            continue
        _d = _json.load(open(_m))
        _pid = _d['property']
        ENTRIES['S-' + _lab] = {'kind': 'mutant', 'what': 'seeded: ' + (_d.get('summary') or '')[:110], 'checks': [_pid],
                                'patch': 'seeded/%s/patch.diff' % _lab, 'edits': [], 'expect': {_pid: []}}

# ---------------------------------------------------------------- behaviour-preserving refactorings written by independent sub-agents
_EQ = _os.path.join(_os.path.dirname(_os.path.abspath(__file__)), 'equiv')
_ALL = ['C%02d' % _i for _i in range(1, 20)]
if _os.path.isdir(_EQ):
    for _f in sorted(_os.listdir(_EQ)):
        if _f.endswith('.diff'):
            ENTRIES['Q-' + _f[:-5]] = {'kind': 'equivalent', 'what': 'agent refactoring ' + _f, 'checks': _ALL,
                                       'patch': 'selftest/equiv/' + _f, 'edits': []}

M('M05j', 'half-width can go negative: growth subtracted from the realtime side only', ['C05'],
  [(SHM_LIB, 'self.bound_nsec + (duration_sec * self.max_drift_ppb as f64) as i64,', 'self.bound_nsec + (duration_sec * self.max_drift_ppb as f64) as i64 - 1_000_000,')], {'C05': ['C05.E3', 'C05.E7']})


# ---------------------------------------------------------------- mutants of the enum-encoded state machine (refactoring big1-2 applied first)
_FSM = 'clock-bound-d/src/shm_writer/clock_state_fsm.rs'
_UPD = 'clock-bound-d/src/shm_writer.rs'


def _E(eid, what, checks, post, expect):
    ENTRIES[eid] = {'kind': 'mutant', 'what': 'enum FSM: ' + what, 'checks': checks, 'patch': 'selftest/equiv/big1-2.diff', 'edits': [],
                    'post_edits': post, 'expect': expect}


_E('ME1', 'Synchronized + Unknown stays Synchronized', ['C08'],
   [(_FSM, '(ShmClockState::Synchronized, ChronyClockStatus::Unknown) => ShmClockState::Unknown,', '(ShmClockState::Synchronized, ChronyClockStatus::Unknown) => ShmClockState::Synchronized,')], {'C08': ['C08.D']})
_E('ME2', 'value() of FreeRunning reports Synchronized', ['C08'],
   [(_FSM, 'ShmClockState::FreeRunning => ClockStatus::FreeRunning,', 'ShmClockState::FreeRunning => ClockStatus::Synchronized,')], {'C08': ['C08.D']})
_E('ME3', 'first-measurement gate removed', ['C09'],
   [(_UPD, 'let clock_status = if self.has_measurement {', 'let clock_status = if true {')], {'C09': ['C09.Q1']})
_E('ME4', 'initial state Synchronized', ['C08'],
   [(_FSM, '    #[default]\n    Unknown,', '    Unknown,'), (_FSM, '    Synchronized,\n', '    #[default]\n    Synchronized,\n')], {'C08': ['C08.D']})
_E('ME5', 'outage step computed but not stored', ['C08'],
   [(_UPD, 'self.shm_clock_state = self.shm_clock_state.apply_chrony(chrony_status);', 'let _ = self.shm_clock_state.apply_chrony(chrony_status);')], {'C08': ['C08.H']})
