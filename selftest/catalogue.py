"""Self-test catalogue: mutants (must be caught by the named rule) and behaviour-preserving
variants (every named check must stay silent).  Edits are (file, old, new) with the first
occurrence replaced; an entry whose edit no longer applies is skipped and counted."""

SHM_LIB = 'clock-bound-shm/src/lib.rs'
READER = 'clock-bound-shm/src/reader.rs'
WRITER = 'clock-bound-shm/src/writer.rs'
HEADER = 'clock-bound-shm/src/shm_header.rs'
D_SHMW = 'clock-bound-d/src/shm_writer.rs'
D_POLL = 'clock-bound-d/src/chrony_poller.rs'
D_LIB = 'clock-bound-d/src/lib.rs'
D_MAIN = 'clock-bound-d/src/main.rs'
D_TM = 'clock-bound-d/src/thread_manager.rs'
D_FSM = 'clock-bound-d/src/shm_writer/clock_state_fsm.rs'
FFI = 'clock-bound-ffi/src/lib.rs'
CLIENT = 'clock-bound-client/src/lib.rs'

ENTRIES = {}


def M(eid, what, checks, edits, expect=None):
    ENTRIES[eid] = {'kind': 'mutant', 'what': what, 'checks': checks, 'edits': edits, 'expect': expect or {}}


def E(eid, what, checks, edits):
    ENTRIES[eid] = {'kind': 'equivalent', 'what': what, 'checks': checks, 'edits': edits}


# ---------------------------------------------------------------- C06
M('M06a', 'stored FreeRunning within grace reported as Synchronized', ['C06'],
  [(SHM_LIB, '                    self.clock_status\n                } else if mono < void_after',
    '                    ClockStatus::Synchronized\n                } else if mono < void_after')],
  {'C06': ['C06.D1']})
M('M06b', 'stored Unknown takes the decay path', ['C06'],
  [(SHM_LIB, 'ClockStatus::Unknown => self.clock_status,', 'ClockStatus::Unknown => ClockStatus::FreeRunning,')],
  {'C06': ['C06.D1']})
M('M06c', 'grace 5 s -> 7 s', ['C06'],
  [(SHM_LIB, 'TimeSpec = TimeSpec::new(5, 0)', 'TimeSpec = TimeSpec::new(7, 0)')], {'C06': ['C06.D1']})
M('M06d', 'void_after compared with the realtime reading', ['C06'],
  [(SHM_LIB, '} else if mono < void_after {', '} else if real < void_after {')], {'C06': ['C06.D1']})
M('M06e', 'expired record stays FreeRunning', ['C06'],
  [(SHM_LIB, '                    // If beyond void_after, no guarantee is provided anymore.\n                    ClockStatus::Unknown',
    '                    ClockStatus::FreeRunning')], {'C06': ['C06.D1']})
E('E06a', '<= for < at the grace threshold, reassociated comparison', ['C06'],
  [(SHM_LIB, 'if mono < as_of + CLOCKBOUND_RESTART_GRACE_PERIOD {', 'if mono - as_of <= CLOCKBOUND_RESTART_GRACE_PERIOD {')])
E('E06b', 'void_after test spelled the other way round', ['C06'],
  [(SHM_LIB, '} else if mono < void_after {', '} else if void_after > mono {')])

# ---------------------------------------------------------------- C12
M('M12a', 'poller: monotonic clock read after the chrony query', ['C12'],
  [(D_POLL, '''        match clock_gettime_safe(CLOCK_MONOTONIC) {
            Ok(as_of) => {
                // If polling is successful, pass the tracking data and monotonic timestamp to the
                // shm writer. Otherwise signal chrony is not responding.
                let message = match poller.get_tracking() {''',
    '''        let tracking_reply = poller.get_tracking();
        match clock_gettime_safe(CLOCK_MONOTONIC) {
            Ok(as_of) => {
                let message = match tracking_reply {''')], {'C12': ['C12.O1']})
M('M12b', 'client: monotonic read before realtime read', ['C12'],
  [(SHM_LIB, '''        let real = clock_gettime_safe(CLOCK_REALTIME)?;
        let mono = clock_gettime_safe(CLOCK_MONOTONIC)?;''',
    '''        let mono = clock_gettime_safe(CLOCK_MONOTONIC)?;
        let real = clock_gettime_safe(CLOCK_REALTIME)?;''')], {'C12': ['C12.O2']})
M('M12c', 'poller: clock read hoisted out of the loop', ['C12'],
  [(D_POLL, '''    let mut keep_running = true;

    // Keep on running forever until we receive the instruction to stop.
    while keep_running {
        // First,''', '''    let mut keep_running = true;
    let first_read = clock_gettime_safe(CLOCK_MONOTONIC);

    // Keep on running forever until we receive the instruction to stop.
    while keep_running {
        // First,'''),
   (D_POLL, '        match clock_gettime_safe(CLOCK_MONOTONIC) {\n            Ok(as_of) => {', '        match first_read {\n            Ok(as_of) => {')],
  {'C12': ['C12.O1']})
M('M12d', 'poller: as-of re-read after the query', ['C12'],
  [(D_POLL, 'Message::ClockErrorBoundData((tracking, 0, as_of))',
    'Message::ClockErrorBoundData((tracking, 0, clock_gettime_safe(CLOCK_MONOTONIC).unwrap_or(as_of)))')],
  {'C12': ['C12.O3']})
E('E12a', 'poller: extra debug line and renamed local', ['C12'],
  [(D_POLL, '            Ok(as_of) => {\n                // If polling', '            Ok(as_of) => {\n                debug!("polling chronyd");\n                // If polling')])

# ---------------------------------------------------------------- C05
M('M05a', 'half-width subtracts the drift term', ['C05'],
  [(SHM_LIB, 'self.bound_nsec + (duration_sec * self.max_drift_ppb as f64) as i64',
    'self.bound_nsec - (duration_sec * self.max_drift_ppb as f64) as i64')], {'C05': ['C05.E3']})
M('M05b', 'age taken as whole seconds only', ['C05'],
  [(SHM_LIB, 'let duration_sec = duration.num_nanoseconds() as f64 / 1_000_000_000_f64;',
    'let duration_sec = duration.num_seconds() as f64;')], {'C05': ['C05.E3']})
M('M05c', 'drift scaled by 1e6 instead of 1e9', ['C05'],
  [(SHM_LIB, '/ 1_000_000_000_f64;', '/ 1_000_000_f64;')], {'C05': ['C05.E4']})
M('M05d', 'narrowing conversion as i32 as i64', ['C05'],
  [(SHM_LIB, '(duration_sec * self.max_drift_ppb as f64) as i64', '(duration_sec * self.max_drift_ppb as f64) as i32 as i64')],
  {'C05': ['C05.E5']})
M('M05e', 'age measured against the realtime clock', ['C05'],
  [(SHM_LIB, '            // Happy path, no causality doubt\n            mono - as_of', '            real - as_of')],
  {'C05': ['C05.E2']})
M('M05f', 'FFI swaps earliest and latest', ['C05'],
  [(FFI, '        earliest,\n        latest,\n        clock_status: clock_status.into(),',
    '        earliest: latest,\n        latest: earliest,\n        clock_status: clock_status.into(),')], {'C05': ['C05.E6']})
M('M05g', 'Rust client duplicates earliest', ['C05'],
  [(CLIENT, 'latest: TimeSpec::from(latest),', 'latest: TimeSpec::from(earliest),')], {'C05': ['C05.E6']})
M('M05h', 'drift term dropped', ['C05'],
  [(SHM_LIB, 'self.bound_nsec + (duration_sec * self.max_drift_ppb as f64) as i64,', 'self.bound_nsec,')], {'C05': ['C05.E2']})
M('M05i', 'latest uses a different half-width', ['C05'],
  [(SHM_LIB, 'let latest = real + updated_bound;', 'let latest = real + TimeSpec::nanoseconds(self.bound_nsec);')], {'C05': ['C05.E1']})
E('E05a', 'reordered operands and mul_add spelling', ['C05', 'C14', 'C06'],
  [(SHM_LIB, 'self.bound_nsec + (duration_sec * self.max_drift_ppb as f64) as i64',
    '(self.max_drift_ppb as f64 * duration_sec) as i64 + self.bound_nsec')])
E('E05b', 'helper extracted for the drift growth', ['C05', 'C14', 'C06', 'C12'],
  [(SHM_LIB, '''        let duration_sec = duration.num_nanoseconds() as f64 / 1_000_000_000_f64;
        let updated_bound = TimeSpec::nanoseconds(
            self.bound_nsec + (duration_sec * self.max_drift_ppb as f64) as i64,
        );''', '''        let updated_bound = TimeSpec::nanoseconds(self.bound_nsec + self.growth(duration));'''),
   (SHM_LIB, '''impl ClockErrorBound {
    /// Create a new ClockErrorBound struct.''', '''impl ClockErrorBound {
    fn growth(&self, elapsed: TimeSpec) -> i64 {
        let elapsed_sec = elapsed.num_nanoseconds() as f64 / 1_000_000_000_f64;
        (elapsed_sec * self.max_drift_ppb as f64) as i64
    }

    /// Create a new ClockErrorBound struct.''')])

# ---------------------------------------------------------------- C14
M('M14a', 'malformed threshold 1e9 -> 2e9', ['C14'],
  [(SHM_LIB, 'if self.max_drift_ppb >= 1_000_000_000 {', 'if self.max_drift_ppb >= 2_000_000_000 {')], {'C14': ['C14.M1']})
M('M14a2', 'malformed threshold strict >', ['C14'],
  [(SHM_LIB, 'if self.max_drift_ppb >= 1_000_000_000 {', 'if self.max_drift_ppb > 1_000_000_000 {')], {'C14': ['C14.M1']})
M('M14b', 'blur window turned into CausalityBreach', ['C14'],
  [(SHM_LIB, '''        } else if mono > causality_blur {
            // Causality is "almost" broken. We are within a range that could be due to the clock
            // precision. Let's approximate this to equality between mono and as_of.
            TimeSpec::new(0, 0)
        } else {''', '''        } else {''')], {'C14': ['C14.M2']})
M('M14c', 'causality breach turned into zero duration', ['C14'],
  [(SHM_LIB, '            // Causality is breached.\n            return Err(ShmError::CausalityBreach);', '            TimeSpec::new(0, 0)')],
  {'C14': ['C14.M2']})
M('M14d', 'FFI error drops errno', ['C14'],
  [(FFI, '            ShmError::SyscallError(errno, _) => errno.0,', '            ShmError::SyscallError(_errno, _) => 0,')], {'C14': ['C14.M4']})
M('M14e', 'Rust client swaps two error kinds', ['C14'],
  [(CLIENT, 'ShmError::SegmentMalformed => ClockBoundErrorKind::SegmentMalformed,', 'ShmError::SegmentMalformed => ClockBoundErrorKind::SegmentNotInitialized,')],
  {'C14': ['C14.M4']})
M('M14f', 'new unwrap on the call path', ['C14'],
  [(SHM_LIB, '        let as_of = TimeSpec::from(self.as_of);', '        let as_of = TimeSpec::from(self.as_of);\n        assert!(self.bound_nsec >= 0);')],
  {'C14': ['C14.M3']})
M('M14g', 'age multiplied before conversion overflows i64', ['C14'],
  [(SHM_LIB, 'self.bound_nsec + (duration_sec * self.max_drift_ppb as f64) as i64',
    'self.bound_nsec + duration.num_nanoseconds() * (self.max_drift_ppb as i64) / 1_000_000_000')], {'C14': ['C14.M3']})
E('E14a', 'causality checks reordered (blur first)', ['C14', 'C05'],
  [(SHM_LIB, '''        let duration = if mono >= as_of {
            // Happy path, no causality doubt
            mono - as_of
        } else if mono > causality_blur {
            // Causality is "almost" broken. We are within a range that could be due to the clock
            // precision. Let's approximate this to equality between mono and as_of.
            TimeSpec::new(0, 0)
        } else {
            // Causality is breached.
            return Err(ShmError::CausalityBreach);
        };''', '''        let duration = if mono <= causality_blur {
            return Err(ShmError::CausalityBreach);
        } else if mono < as_of {
            TimeSpec::new(0, 0)
        } else {
            mono - as_of
        };''')])
