#!/usr/bin/env python3
"""cbv: static verification of aws/clock-bound properties C01..C19 (see DESIGN.md).

  ./cbv.py setup                         build the MIR driver (offline)
  ./cbv.py check <id> [--tier quick|thorough]
  ./cbv.py all [--tier ...]              run every claimed check
  ./cbv.py explain <replay.json>         render a replay file and re-run its rule
  ./cbv.py dump <substring> [--release]  print the MIR of matching functions (debug aid)
"""
import importlib
import json
import os
import sys
import traceback

sys.path.insert(0, os.path.dirname(os.path.abspath(__file__)))
from cbv import core, mir  # noqa: E402


def run_check(pid, tier):
    try:
        mod = importlib.import_module('cbv.rules.%s' % pid)
    except ImportError as e:
        print('ERROR: no rule module for %s: %s' % (pid, e))
        return 2
    ctx = core.Ctx(tier)
    chk = core.Check(pid, mod.LEVEL, tier)
    try:
        mod.run(ctx, chk)
        if tier == 'thorough':
            # second configuration: the other cargo profile (release MIR has no overflow / pointer
            # checks and different tracing levels; C19 is release-first, so its second run is dev)
            other = 'dev' if getattr(mod, 'PRIMARY_PROFILE', 'dev') == 'release' else 'release'
            ctx2 = core.Ctx(tier, profile=other)
            ctx2.force_profile = other
            chk.suffix = '@' + other
            mod.run(ctx2, chk)
            chk.suffix = ''
            ctx.configs += ctx2.configs
        return chk.finish(ctx)
    except core.InfraError as e:
        print('ERROR: infrastructure failure, no verdict: %s' % e)
        return 2
    except Exception:
        print('ERROR: checker crashed, no verdict')
        traceback.print_exc()
        return 2


def main(argv):
    if len(argv) < 2:
        print(__doc__)
        return 2
    cmd = argv[1]
    tier = os.environ.get('VERIF_TIER', 'quick')
    if '--tier' in argv:
        tier = argv[argv.index('--tier') + 1]
    if cmd == 'setup':
        try:
            core.ensure_driver()
        except core.InfraError as e:
            print('ERROR: %s' % e)
            return 2
        print('driver ready: %s' % core.DRIVER)
        return 0
    if cmd == 'check':
        return run_check(argv[2], tier)
    if cmd == 'all':
        man = json.load(open(os.path.join(core.VERIF, 'MANIFEST.json')))
        rc = 0
        for c in man['checks']:
            r = run_check(c['property_id'], tier)
            rc = max(rc, r)
        return rc
    if cmd == 'explain':
        d = json.load(open(argv[2]))
        print(json.dumps(d, indent=1))
        print('--- re-running %s on the current tree ---' % d['property'])
        return run_check(d['property'], d.get('tier', 'quick'))
    if cmd == 'dump':
        prof = 'release' if '--release' in argv else 'dev'
        fb = mir.Facts(core.extract(prof))
        for b in fb.bodies():
            if argv[2] in b.path:
                print(mir.fmt_body(b))
                print()
        return 0
    print(__doc__)
    return 2


if __name__ == '__main__':
    sys.exit(main(sys.argv))
