"""Fact base: loads the JSON dumped by cbv-mirdump, CFG utilities, pretty printing.

Everything here works on the *resolved* MIR (callees are Instance-resolved by rustc,
constants are evaluated by rustc); nothing from /repo is executed.
"""
import glob
import json
import os


_NORM_RE = None
_NORM_SEGS = [
    ('std::ops::arith::', 'std::ops::'), ('std::ops::try_trait::', 'std::ops::'), ('std::ops::deref::', 'std::ops::'),
    ('std::ops::function::', 'std::ops::'), ('std::ops::drop::', 'std::ops::'), ('std::ops::control_flow::', 'std::ops::'),
    ('std::ops::bit::', 'std::ops::'), ('std::iter::traits::iterator::', 'std::iter::'),
    ('std::iter::traits::collect::', 'std::iter::'), ('libc::unix::timespec', 'libc::timespec'),
    ('std::sync::mpmc::', 'std::sync::mpsc::'), ('std::thread::functions::', 'std::thread::'),
    ('std::thread::join_handle::', 'std::thread::'), ('std::ops::index::', 'std::ops::'),
]


def norm(text):
    """canonical spelling of definition paths: the std facade (core/alloc -> std), private
    std module segments and libc re-exports, so that summaries and cross-crate lookups use
    one name per item"""
    import re
    global _NORM_RE
    if _NORM_RE is None:
        _NORM_RE = re.compile(r'\b(core|alloc)::')
    text = _NORM_RE.sub('std::', text)
    for a, b in _NORM_SEGS:
        text = text.replace(a, b)
    return text


class Crate:
    def __init__(self, doc, path):
        self.doc = doc
        self.file = path
        self.name = doc['crate']
        self.crate_types = doc['crate_types']
        self.types = doc['types']
        self.adts = doc['adts']
        self.consts = doc['consts']
        self.impls = doc['impls']
        self.overflow_checks = doc['overflow_checks']
        self.bodies = [Body(self, b) for b in doc['bodies']]

    @property
    def kind(self):
        if 'Executable' in self.crate_types:
            return 'bin'
        return 'lib'

    def ty(self, ix):
        return self.types[ix]

    def tystr(self, ix):
        return self.types[ix]['s']


class Body:
    def __init__(self, crate, d):
        self.crate = crate
        self.d = d
        self.path = d['path']
        self.name = d.get('name', '')
        self.defkind = d['defkind']
        self.impl_self = d.get('impl_self')
        self.impl_trait = d.get('impl_trait')
        self.blocks = d['blocks']
        self.locals = d['locals']
        self.argc = d['argc']
        self.generics = d.get('generics') or []
        self.span = d['span']
        self._succ = None
        self._pred = None
        self._dom = None
        self._pdom = None
        self.debug_names = {}
        for dv in d.get('debug', []):
            p = dv['p']
            if not p['proj']:
                self.debug_names.setdefault(p['l'], dv['name'])

    def __repr__(self):
        return '<Body %s>' % self.path

    @property
    def provided_of(self):
        """path of the trait when this body is a *provided* method (a default body written in the trait), else None"""
        if self.defkind == 'AssocFn' and not self.impl_self and not self.impl_trait and '::' in self.path and not self.path.startswith('<'):
            return self.path.rsplit('::', 1)[0]
        return None

    @property
    def file(self):
        return self.span['file']

    def ty(self, ix):
        return self.crate.types[ix]

    def tystr(self, ix):
        return self.crate.types[ix]['s']

    def local_ty(self, l):
        return self.crate.types[self.locals[l]['ty']]

    # ------------------------------------------------------------ CFG
    def term(self, bb):
        return self.blocks[bb]['term']

    def succ_edges(self, bb, unwind=False):
        """list of (label, target) for the terminator of bb"""
        t = self.blocks[bb]['term']
        k = t['k']
        out = []
        if k == 'goto':
            out.append(('goto', t['target']))
        elif k == 'switch':
            for v, b in t['targets']:
                out.append((v, b))
            out.append(('otherwise', t['otherwise']))
        elif k in ('drop', 'assert'):
            out.append(('next', t['target']))
            if unwind and t.get('unwind') is not None:
                out.append(('unwind', t['unwind']))
        elif k == 'call':
            if t['target'] is not None:
                out.append(('next', t['target']))
            if unwind and t.get('unwind') is not None:
                out.append(('unwind', t['unwind']))
        return out

    def succs(self, bb, unwind=False):
        return [b for _, b in self.succ_edges(bb, unwind)]

    def preds(self):
        if self._pred is None:
            p = {i: [] for i in range(len(self.blocks))}
            for i in range(len(self.blocks)):
                for s in self.succs(i):
                    p[s].append(i)
            self._pred = p
        return self._pred

    def reachable(self, start=0, avoid=(), unwind=False, skip_edges=()):
        avoid = set(avoid)
        seen = set()
        st = [start]
        while st:
            b = st.pop()
            if b in seen or b in avoid:
                continue
            seen.add(b)
            st.extend(x for x in self.succs(b, unwind) if (b, x) not in skip_edges)
        return seen

    def flag_false_edges(self, cleared_in):
        """edges `switch flag -> 0: bb` of drop flags (bool locals set to true once and to false only in the blocks
        `cleared_in`): on a path that avoids those blocks the flag is still true, so these edges are not taken"""
        sets = {}
        for i, blk in enumerate(self.blocks):
            for st_ in blk['stmts']:
                if st_['k'] == 'assign' and not st_['p']['proj'] and st_['r'].get('k') == 'use':
                    o = st_['r'].get('op') or st_['r'].get('x') or {}
                    if o.get('k') == 'const' and self.tystr(o.get('ty')) == 'bool' and ('int' in o or 'bits' in o):
                        sets.setdefault(st_['p']['l'], []).append((i, int(o.get('int', o.get('bits')))))
                    else:
                        sets.setdefault(st_['p']['l'], []).append((i, None))
        for fl_, ass_ in list(sets.items()):
            last = {}
            for bi, v in ass_:
                last[bi] = v            # the value the flag has when the block is left
            sets[fl_] = list(last.items())
        out = set()
        for i, blk in enumerate(self.blocks):
            t = blk['term']
            if t['k'] != 'switch' or t['discr'].get('k') not in ('copy', 'move') or t['discr']['p']['proj']:
                continue
            fl = t['discr']['p']['l']
            ass = sets.get(fl)
            if not ass or any(v is None for _, v in ass) or not any(v == 1 for _, v in ass):
                continue
            if all(v == 1 or bi in cleared_in for bi, v in ass):
                for val, tgt in t['targets']:
                    if val == 0:
                        out.add((i, tgt))
        return out

    def return_blocks(self):
        return [i for i, b in enumerate(self.blocks) if b['term']['k'] == 'return']

    def dominators(self):
        """dom[b] = set of blocks dominating b (normal edges only), for reachable blocks"""
        if self._dom is not None:
            return self._dom
        reach = self.reachable(0)
        order = sorted(reach)
        dom = {b: set(order) for b in order}
        dom[0] = {0}
        preds = self.preds()
        changed = True
        while changed:
            changed = False
            for b in order:
                if b == 0:
                    continue
                ps = [p for p in preds[b] if p in reach]
                if not ps:
                    continue
                new = set.intersection(*[dom[p] for p in ps]) | {b}
                if new != dom[b]:
                    dom[b] = new
                    changed = True
        self._dom = dom
        return dom

    def dominates(self, a, b):
        d = self.dominators()
        return b in d and a in d[b]

    def postdominators(self):
        """pdom[b] = set of blocks post-dominating b w.r.t. a virtual exit joined by every
        return block and every diverging block (panic call, unreachable, resume)"""
        if self._pdom is not None:
            return self._pdom
        reach = self.reachable(0)
        exits = [b for b in reach if not self.succs(b)]
        order = sorted(reach)
        pdom = {b: set(order) for b in order}
        for e in exits:
            pdom[e] = {e}
        changed = True
        while changed:
            changed = False
            for b in order:
                if b in exits:
                    continue
                ss = [s for s in self.succs(b) if s in reach]
                if not ss:
                    continue
                new = set.intersection(*[pdom[s] for s in ss]) | {b}
                if new != pdom[b]:
                    pdom[b] = new
                    changed = True
        self._pdom = pdom
        return pdom

    def ipdom(self, b):
        """immediate post-dominator of b (closest strict post-dominator), or None"""
        pd = self.postdominators()
        if b not in pd:
            return None
        cands = pd[b] - {b}
        for c in cands:
            # c is immediate if every other candidate post-dominates c
            if all((o == c) or (o in pd[c]) for o in cands):
                return c
        return None

    def back_edges(self):
        dom = self.dominators()
        out = []
        for b in dom:
            for s in self.succs(b):
                if s in dom[b]:
                    out.append((b, s))
        return out

    def loop_of(self, head):
        """union of the natural loops with this header, or None when `head` is not a loop header"""
        c = self.__dict__.setdefault('_loop_of', {})
        if head not in c:
            loops = [self.natural_loop(t, h) for t, h in self.back_edges() if h == head]
            c[head] = set().union(*loops) if loops else None
        return c[head]

    def loop_modified_locals(self, head):
        """locals a loop can change between two visits of its header: assigned (directly or through a projection) or used
        as a call destination inside the loop, or mutably borrowed / raw-borrowed anywhere in the function (the borrow may
        be used inside the loop)"""
        c = self.__dict__.setdefault('_loop_mod', {})
        if head in c:
            return c[head]
        loop = self.loop_of(head) or set()
        out = set()
        for i, b in enumerate(self.blocks):
            for s in b['stmts']:
                if s['k'] != 'assign':
                    continue
                r = s['r']
                if r.get('k') in ('ref', 'rawptr') and str(r.get('mut')).lower() not in ('false', 'not', 'const') and not \
                        any(e['k'] == 'deref' for e in r['p']['proj']):
                    out.add(r['p']['l'])
                if i in loop and not any(e['k'] == 'deref' for e in s['p']['proj']):
                    out.add(s['p']['l'])
            t = b['term']
            if i in loop and t['k'] == 'call' and not any(e['k'] == 'deref' for e in t['dest']['proj']):
                out.add(t['dest']['l'])
        c[head] = out
        return out

    def natural_loop(self, tail, head):
        preds = self.preds()
        loop = {head}
        st = [tail]
        while st:
            b = st.pop()
            if b in loop:
                continue
            loop.add(b)
            st.extend(preds[b])
        return loop

    def must_pass_through(self, a, b_set, sites):
        """True iff every path from block a to any block in b_set passes through a block
        in sites (sites and a, b are block ids; a in sites counts)."""
        if a in sites:
            return True
        r = self.reachable(a, avoid=sites)
        return not (r & set(b_set))

    # ------------------------------------------------------------ call sites
    def calls(self):
        """yield (bb, term, callee_info) for every Call terminator with a FnDef callee"""
        for i, b in enumerate(self.blocks):
            t = b['term']
            if t['k'] == 'call':
                f = t['func']
                yield i, t, f.get('fn')

    def closures_built(self):
        """def paths of the closures this body constructs (`|| ..` expressions written in it)"""
        out = []
        for b in self.blocks:
            for s_ in b['stmts']:
                r = s_.get('r') if isinstance(s_, dict) and s_.get('k') == 'assign' else None
                if isinstance(r, dict) and r.get('k') == 'agg' and r.get('ak') == 'closure' and r.get('def') not in out:
                    out.append(r['def'])
        return out

    def where(self, bb, stmt=None):
        b = self.blocks[bb]
        sp = b['tspan'] if stmt is None else b['stmts'][stmt].get('span', b['tspan'])
        return '%s:%d' % (relpath(sp['file']), sp['line'])


def relpath(p):
    for pre in ('/repo/',):
        if p.startswith(pre):
            return p[len(pre):]
    return p


def callee_name(fn):
    """canonical name of a callee: resolved path when rustc could resolve it"""
    if fn is None:
        return None
    r = fn.get('resolved')
    if r:
        return r['path']
    return fn['path']


def callee_paths(fn):
    """(declared path, resolved path or None)"""
    if fn is None:
        return (None, None)
    r = fn.get('resolved')
    return (fn['path'], r['path'] if r else None)


def is_from_macro(span, crates=None, names=None):
    exp = span.get('exp')
    if not exp:
        return False
    for e in exp:
        if crates is not None and e['crate'] in crates:
            return True
        if names is not None and e['name'] in names:
            return True
    return crates is None and names is None


ASSERT_MACROS = ('assert', 'debug_assert', 'assert_eq', 'debug_assert_eq', 'assert_ne', 'debug_assert_ne',
                 '$crate::assert', '$crate::assert_eq', '$crate::assert_ne')
PANIC_FAMILY = ('std::panicking::panic', 'std::panicking::panic_fmt', 'std::panicking::assert_failed',
                'std::panicking::panic_display', 'std::panicking::panic_str', 'std::panicking::panic_explicit',
                'std::rt::panic_fmt', 'std::rt::begin_panic', 'std::panicking::begin_panic', 'std::panicking::assert_failed_inner',
                'std::panicking::panic_nounwind')


def is_assert_failure(body, bb, depth=0):
    """does control reaching block bb fail an `assert!`-family check: the block (or the straight-line blocks it falls
    into) calls a panic function from inside the expansion of an assertion macro"""
    key = ('_af', bb)
    cache = body.__dict__.setdefault('_af_cache', {})
    if key in cache:
        return cache[key]
    cache[key] = False
    res = False
    blk = body.blocks[bb]
    t = blk['term']
    if t['k'] == 'call':
        fn = t['func'].get('fn') if isinstance(t.get('func'), dict) else None
        nm = callee_name(fn) if fn else ''
        if nm in PANIC_FAMILY and is_from_macro(blk['tspan'], names=ASSERT_MACROS):
            res = True
        elif fn and t.get('target') is not None and depth < 6 and is_from_macro(blk['tspan'], names=ASSERT_MACROS):
            # formatting the message first (`assert!(c, "..{}", x)`): fmt::Arguments::new.. then panic_fmt
            res = is_assert_failure(body, t['target'], depth + 1)
    elif t['k'] == 'goto' and depth < 6:
        res = is_assert_failure(body, t['target'], depth + 1)
    cache[key] = res
    return res


def in_tracing(span):
    return is_from_macro(span, crates=('tracing', 'tracing_core', 'log'))


# ---------------------------------------------------------------- pretty printing

def fmt_place(body, p):
    s = '_%d' % p['l']
    nm = body.debug_names.get(p['l'])
    if nm:
        s += '{%s}' % nm
    for e in p['proj']:
        k = e['k']
        if k == 'deref':
            s = '(*%s)' % s
        elif k == 'field':
            s += '.%s' % (e.get('name') or e['i'])
        elif k == 'downcast':
            s = '(%s as %s)' % (s, e['name'])
        elif k == 'index':
            s += '[_%d]' % e['local']
        else:
            s += '.?%s' % k
    return s


def fmt_op(body, o):
    k = o['k']
    if k in ('copy', 'move'):
        return ('move ' if k == 'move' else '') + fmt_place(body, o['p'])
    if k == 'const':
        if 'fn' in o:
            return 'fn:' + callee_name(o['fn'])
        if 'int' in o:
            return 'const %s_%s' % (o['int'], body.tystr(o['ty']))
        if 'float' in o:
            return 'const %s_%s' % (o['float'], body.tystr(o['ty']))
        if 'bits' in o:
            return 'const %s_%s' % (o['bits'], body.tystr(o['ty']))
        if 'str' in o:
            return 'const %r' % o['str']
        if 'bytes' in o:
            return 'const bytes:%s:%s' % (o['bytes'], body.tystr(o['ty']))
        return 'const ?%s' % body.tystr(o['ty'])
    return '?' + k


def fmt_rvalue(body, r):
    k = r['k']
    if k == 'use':
        return fmt_op(body, r['op'])
    if k == 'bin':
        return '%s(%s, %s)' % (r['op'], fmt_op(body, r['l']), fmt_op(body, r['r']))
    if k == 'un':
        return '%s(%s)' % (r['op'], fmt_op(body, r['x']))
    if k == 'cast':
        return '%s as %s [%s]' % (fmt_op(body, r['x']), body.tystr(r['ty']), r['ck'])
    if k == 'ref':
        return '&%s%s' % ('mut ' if r['mut'] else '', fmt_place(body, r['p']))
    if k == 'rawptr':
        return '&raw %s %s' % (r['mut'], fmt_place(body, r['p']))
    if k == 'discr':
        return 'discriminant(%s)' % fmt_place(body, r['p'])
    if k == 'agg':
        ops = ', '.join(fmt_op(body, o) for o in r['ops'])
        if r['ak'] == 'adt':
            return '%s::%s{%s}' % (r['adt'], r['vname'], ops)
        return '%s(%s)' % (r['ak'], ops)
    return '?%s %s' % (k, r.get('dbg', ''))


def fmt_body(body):
    out = ['fn %s  [%s:%d]' % (body.path, relpath(body.span['file']), body.span['line'])]
    for i, l in enumerate(body.locals):
        nm = body.debug_names.get(i, '')
        out.append('  let _%d%s: %s' % (i, ('{%s}' % nm) if nm else '', body.tystr(l['ty'])))
    for i, b in enumerate(body.blocks):
        out.append(' bb%d%s:' % (i, ' (cleanup)' if b['cleanup'] else ''))
        for s in b['stmts']:
            if s['k'] == 'assign':
                exp = ''
                if s['span'].get('exp'):
                    exp = '   // exp:' + ','.join(e['name'] for e in s['span']['exp'])
                out.append('    %s = %s   @%d%s' % (fmt_place(body, s['p']),
                                                    fmt_rvalue(body, s['r']), s['span']['line'], exp))
            elif s['k'] == 'setdiscr':
                out.append('    discr(%s) = %d' % (fmt_place(body, s['p']), s['v']))
            elif s['k'] == 'intrinsic':
                out.append('    intrinsic %s' % s['dbg'])
        t = b['term']
        k = t['k']
        sp = b['tspan']
        exp = ''
        if sp.get('exp'):
            exp = '   // exp:' + ','.join(e['name'] for e in sp['exp'])
        if k == 'call':
            args = ', '.join(fmt_op(body, a) for a in t['args'])
            out.append('    %s = call %s(%s) -> bb%s unwind %s  @%d%s' % (
                fmt_place(body, t['dest']), fmt_op(body, t['func']), args, t['target'],
                t.get('unwind'), sp['line'], exp))
        elif k == 'switch':
            out.append('    switch %s -> %s otherwise bb%d  @%d%s' % (
                fmt_op(body, t['discr']), ', '.join('%s:bb%d' % (v, b2) for v, b2 in t['targets']),
                t['otherwise'], sp['line'], exp))
        elif k == 'assert':
            out.append('    assert(%s == %s, %s) -> bb%d  @%d' % (
                fmt_op(body, t['cond']), t['expected'], t['msg'], t['target'], sp['line']))
        elif k == 'drop':
            out.append('    drop(%s) -> bb%d' % (fmt_place(body, t['p']), t['target']))
        elif k == 'goto':
            out.append('    goto bb%d' % t['target'])
        else:
            out.append('    %s' % k)
    return '\n'.join(out)


# ---------------------------------------------------------------- fact base

class Facts:
    def __init__(self, directory):
        self.dir = directory
        self.crates = []
        for f in sorted(glob.glob(os.path.join(directory, '*.json'))):
            if os.path.basename(f).startswith('_'):
                continue
            with open(f) as fh:
                self.crates.append(Crate(json.loads(norm(fh.read())), f))
        self.by_path = {}
        for c in self.crates:
            for b in c.bodies:
                self.by_path.setdefault(b.path, b)

    def crate(self, name, kind=None):
        for c in self.crates:
            if c.name == name and (kind is None or c.kind == kind):
                return c
        return None

    def bodies(self, crate=None):
        for c in self.crates:
            if crate is None or c.name == crate:
                yield from c.bodies

    def body(self, path):
        return self.by_path.get(path)

    def find(self, crate=None, name=None, impl_self=None, impl_trait=None, kind=None):
        out = []
        for c in self.crates:
            if crate is not None and c.name != crate:
                continue
            if kind is not None and c.kind != kind:
                continue
            for b in c.bodies:
                if name is not None and b.name != name:
                    continue
                if impl_self is not None and (b.impl_self or '').split('::')[-1].split('<')[0] != impl_self:
                    continue
                if impl_trait is not None and (b.impl_trait or '').split('::')[-1] != impl_trait:
                    continue
                out.append(b)
        return out

    def const(self, path_suffix):
        for c in self.crates:
            for k in c.consts:
                if k['path'].endswith(path_suffix):
                    return k
        return None


if __name__ == '__main__':
    import sys
    fb = Facts(sys.argv[1])
    for pat in sys.argv[2:]:
        for b in fb.bodies():
            if pat in b.path:
                print(fmt_body(b))
                print()
