"""Semantics of the external (non-workspace) functions the rules look through.

Each summary maps argument values to a result value without logging an effect (pure) or
returns None to fall back to the opaque treatment (uninterpreted call + effect entry).
The table is keyed by the callee path as rustc resolves it.  It is pinned to the crate
versions in /repo/Cargo.lock (checked by cbv.facts.check_lock); if one of those changes
the checks relying on the summary fail closed.
"""
from .psi import C, T, is_int_const, walk

TIMESPEC = 'nix::sys::time::TimeSpec'
LIBC_TIMESPEC = 'libc::timespec'

PINNED = {  # crate -> versions the summaries were written against (None: any 0.x/1.x patch level of that line)
    'nix': ('0.26.4', '0.27.1'),
    'libc': ('0.2.',),
    'chrony-candm': ('0.1.1',),
    'errno': ('0.3.0', '0.3.'),
    'byteorder': ('1.',),
}


def payload(v, variant):
    """same shape a `match` on the variant produces: field 0 of the downcast"""
    return T('field', T('as', v, variant), '0')


def deref(eng, st, v):
    if v[0] == 'ref':
        return eng.load(st, v[1])
    return T('deref', v)


def cmp_op(op):
    def f(eng, st, fr, args, fn, site):
        a = deref(eng, st, args[0])
        b = deref(eng, st, args[1])
        # a private newtype around one value (`Generation(u16)`) compares like the value it wraps
        while a[0] == 'agg' and b[0] == 'agg' and a[1] == b[1] and a[2] == b[2] and a[2] is not None and len(a[3]) == 1 and len(b[3]) == 1 \
                and a[1].startswith(('clock_bound', 'clockbound')):
            a, b = a[3][0], b[3][0]
        if is_int_const(a) and is_int_const(b):
            x, y = a[1], b[1]
            r = {'lt': x < y, 'le': x <= y, 'gt': x > y, 'ge': x >= y, 'eq': x == y, 'ne': x != y}[op]
            return C(int(r), 'bool')
        if a == b and a[0] in ('t', 'sym') and not any(x_[0] == 'c' and isinstance(x_[1], tuple) and x_[1][0] == 'f' for x_ in walk(a)):
            return C(int(op in ('eq', 'le', 'ge')), 'bool')      # one and the same (non-float) value compared with itself
        if op in ('eq', 'ne'):
            # (in)equality against a field-less enum variant is a test of the discriminant
            for x, y in ((a, b), (b, a)):
                if x[0] == 'agg' and x[2] is not None and not x[3] and not x[1].startswith(('std::result', 'std::option')):
                    dx = eng.discr_of(fr.body.crate, x)
                    dy = eng.discr_of(fr.body.crate, y) if y[0] == 'agg' else T('discr', y)
                    if is_int_const(dx) and is_int_const(dy):
                        return C(int((dx[1] == dy[1]) == (op == 'eq')), 'bool')
                    if is_int_const(dx):
                        return T('Eq' if op == 'eq' else 'Ne', dy, dx)
        return T(op, a, b)
    return f


def enum_eq(eng, st, fr, args, fn, site):
    """PartialEq::eq where one side is a field-less enum variant: discriminant test; otherwise not summarised
    (a workspace `derive(PartialEq)` body is inlined instead)"""
    r = cmp_op('eq')(eng, st, fr, args, fn, site)
    if r[0] == 'c' or (r[0] == 't' and r[1] in ('Eq', 'Ne')):
        return r
    if r[0] == 't' and r[1] == 'eq' and not (r[2][0][0] == 'agg' or r[2][1][0] == 'agg'):
        a0, b0 = deref(eng, st, args[0]), deref(eng, st, args[1])
        if a0[0] == 'agg' and b0[0] == 'agg' and a0 != r[2][0]:
            return r            # newtypes unwrapped down to plain values
    return None


def bin_val(op):
    def f(eng, st, fr, args, fn, site):
        return T(op, args[0], args[1])
    return f


def un_val(op):
    def f(eng, st, fr, args, fn, site):
        return T(op, args[0])
    return f


def un_ref(op):
    def f(eng, st, fr, args, fn, site):
        return T(op, deref(eng, st, args[0]))
    return f


def identity(eng, st, fr, args, fn, site):
    return args[0]


def ts_new(eng, st, fr, args, fn, site):
    a, b = args[0], args[1]
    # TimeSpec::new(x.tv_sec, x.tv_nsec) re-assembles the timespec x
    if a[0] == 't' and a[1] == 'field' and b[0] == 't' and b[1] == 'field' and a[2][0] == b[2][0] and \
            str(a[2][1]) == 'tv_sec' and str(b[2][1]) == 'tv_nsec':
        return ('agg', TIMESPEC, 'TimeSpec', (a[2][0],))
    return ('agg', TIMESPEC, 'TimeSpec', (('agg', LIBC_TIMESPEC, 'timespec', (a, b)),))


def ts_from(eng, st, fr, args, fn, site):
    return ('agg', TIMESPEC, 'TimeSpec', (args[0],))


def ts_as_ref(eng, st, fr, args, fn, site):
    r = args[0]
    if r[0] == 'ref':
        base, proj = r[1]
        return ('ref', (base, proj + (('f', 0, '0'),)))
    return T('as_ref', r)


def wrapping(op):
    def f(eng, st, fr, args, fn, site):
        a, b = args[0], args[1]
        if is_int_const(a) and is_int_const(b):
            n = {'wadd': a[1] + b[1], 'wsub': a[1] - b[1], 'wmul': a[1] * b[1]}[op]
            return C(eng.wrap(n, a[2]), a[2])
        return T(op, a, b)
    return f


def checked(op):
    def f(eng, st, fr, args, fn, site):
        return T(op, args[0], args[1])
    return f


def checked_add_exact(ty):
    """checked_add with its meaning spelled out: Some(a + b) when the sum fits the type, None otherwise"""
    lo, hi = INT_RANGE_EARLY[ty]

    def f(eng, st, fr, args, fn, site):
        a, b = args[0], args[1]
        if is_int_const(a) and is_int_const(b):
            n = a[1] + b[1]
            return ('agg', 'std::option::Option', 'Some', (C(n, ty),)) if lo <= n <= hi else ('agg', 'std::option::Option', 'None', ())
        s_ = T('Add', a, b)
        over = T('Gt', s_, C(hi, ty))
        return [(('agg', 'std::option::Option', 'Some', (s_,)), [(over, '==', 0)]),
                (('agg', 'std::option::Option', 'None', ()), [(over, '==', 1)])]
    return f


def checked_sub_exact(ty):
    """checked_sub of an unsigned type: Some(a - b) exactly when a >= b"""
    def f(eng, st, fr, args, fn, site):
        a, b = args[0], args[1]
        if is_int_const(a) and is_int_const(b):
            n = a[1] - b[1]
            return ('agg', 'std::option::Option', 'Some', (C(n, ty),)) if n >= 0 else ('agg', 'std::option::Option', 'None', ())
        under = T('Lt', a, b)
        return [(('agg', 'std::option::Option', 'Some', (T('Sub', a, b),)), [(under, '==', 0)]),
                (('agg', 'std::option::Option', 'None', ()), [(under, '==', 1)])]
    return f


def wrapping_neg(ty):
    lo, hi = INT_RANGE_EARLY[ty]

    def f(eng, st, fr, args, fn, site):
        a = args[0]
        if is_int_const(a):
            return C((-a[1]) % (hi + 1), ty)
        return T('wsub', C(0, ty), a)
    return f


def trailing_zeros(ty):
    bits = {'u8': 8, 'u16': 16, 'u32': 32, 'u64': 64, 'usize': 64}[ty]

    def f(eng, st, fr, args, fn, site):
        a = args[0]
        if is_int_const(a):
            n = a[1]
            return C(bits if n == 0 else (n & -n).bit_length() - 1, 'u32')
        return T('tz', a, C(bits, 'u32'))
    return f


def f64_from_bits(eng, st, fr, args, fn, site):
    """f64::from_bits(x.to_bits() & 0x7fff_ffff_ffff_ffff) clears the sign bit: |x|"""
    a = args[0]
    if a[0] == 't' and a[1] == 'BitAnd':
        for x, m in (a[2], a[2][::-1]):
            if is_int_const(m) and m[1] == 0x7fffffffffffffff and x[0] == 't' and x[1] == 'f64_to_bits':
                return T('abs', x[2][0])
    if a[0] == 't' and a[1] == 'f64_to_bits':
        return a[2][0]
    return T('f64_from_bits', a)


def tuple_cmp(eng, st, fr, args, fn, site):
    """lexicographic `(a0, a1).cmp(&(b0, b1))`; on the (seconds, nanoseconds) of two timestamps this is the order of the
    timestamps themselves (nix orders TimeSpec by tv_sec, then tv_nsec)"""
    a, b = deref(eng, st, args[0]), deref(eng, st, args[1])

    def ts_of(t):
        if t[0] == 'agg' and t[1] == 'tuple' and len(t[3]) == 2:
            s_, n_ = t[3]
            if s_[0] == 't' and n_[0] == 't' and s_[1] == 'ts_tv_sec' and n_[1] == 'ts_tv_nsec' and s_[2][0] == n_[2][0]:
                return s_[2][0]
        return None
    x, y = ts_of(a), ts_of(b)
    if x is not None and y is not None:
        return T('ts_cmp', x, y)
    return T('tuple_cmp', a, b)


def dur_checked_sub(eng, st, fr, args, fn, site):
    """Duration::checked_sub(a, b): Some(a - b) exactly when a >= b"""
    a, b = args[0], args[1]
    under = T('lt', a, b)
    return [(('agg', 'std::option::Option', 'Some', (T('ts_sub', a, b),)), [(under, '==', 0)]),
            (('agg', 'std::option::Option', 'None', ()), [(under, '==', 1)])]


def dur_is_zero(eng, st, fr, args, fn, site):
    """Duration::is_zero(&d): durations are never negative, so this is d <= 0"""
    return T('le', deref(eng, st, args[0]), C(0, 'i64'))


def _never_nan(x):
    """a float that cannot be NaN: an integer converted to float, or such a value multiplied / divided by a finite non-zero
    constant (integers convert to finite floats; finite * c and finite / c, c != 0 finite, are finite or +-inf)"""
    if x[0] == 't' and x[1] == 'cast' and len(x[2]) >= 2 and x[2][1] == 'IntToFloat':
        return True
    if x[0] == 'c':
        v = x[1]
        if isinstance(v, tuple) and v and v[0] == 'f':
            try:
                v = float(v[1])
            except ValueError:
                return False
        return isinstance(v, (int, float)) and v == v and v not in (float('inf'), float('-inf'))
    if x[0] == 't' and x[1] == 'conv' and x[2] and x[2][0][0] in ('t', 'sym'):
        return _never_nan(x[2][0])
    if x[0] == 't' and x[1] in ('Div', 'Mul') and len(x[2]) == 2:
        a, b = x[2]
        cb = b[1] if b[0] == 'c' and isinstance(b[1], (int, float)) else None
        if b[0] == 'c' and isinstance(b[1], tuple) and b[1][0] == 'f':
            try:
                cb = float(b[1][1])
            except ValueError:
                cb = None
        if cb is not None and cb == cb and cb not in (0, float('inf'), float('-inf')):
            return _never_nan(a)
    return False


def f64_is_nan(eng, st, fr, args, fn, site):
    x = args[0]
    if _never_nan(x):
        return C(0, 'bool')
    return T('is_nan', x)


def opt_copied(eng, st, fr, args, fn, site):
    """Option<&T>::copied / cloned (for Copy payloads): Some(&x) -> Some(x)"""
    o = args[0]
    if o[0] == 'agg' and o[2] == 'None':
        return ('agg', OPT, 'None', ())
    if o[0] == 'agg' and o[2] == 'Some' and o[3] and o[3][0][0] == 'ref':
        return ('agg', OPT, 'Some', (eng.load(st, o[3][0][1]),))
    return None


def nonzero_new(eng, st, fr, args, fn, site):
    """NonZero::<T>::new(x): Some(x) unless x == 0 (the wrapper is transparent: NonZero::get is the identity)"""
    x = args[0]
    if is_int_const(x):
        return ('agg', 'std::option::Option', 'Some', (x,)) if x[1] != 0 else ('agg', 'std::option::Option', 'None', ())
    z = T('Eq', x, C(0, 'u16'))
    return [(('agg', 'std::option::Option', 'Some', (x,)), [(z, '==', 0)]),
            (('agg', 'std::option::Option', 'None', ()), [(z, '==', 1)])]


INT_RANGE_EARLY = {'u8': (0, 2**8 - 1), 'u16': (0, 2**16 - 1), 'u32': (0, 2**32 - 1), 'u64': (0, 2**64 - 1), 'usize': (0, 2**64 - 1)}


def _size_of_type_string(eng, s):
    for c in eng.facts.crates:
        a = c.adts.get(s)
        if a and 'size' in a:
            return int(a['size'])
    prim = {'u8': 1, 'i8': 1, 'bool': 1, 'u16': 2, 'i16': 2, 'u32': 4, 'i32': 4, 'f32': 4, 'u64': 8, 'i64': 8, 'f64': 8, 'usize': 8, 'isize': 8,
            'u128': 16, 'i128': 16}
    return prim.get(s)


def size_of(eng, st, fr, args, fn, site):
    crate = fr.body.crate
    targs = (fn or {}).get('targs') or []
    if targs:
        t = crate.types[targs[0]]
        if t.get('k') == 'param':
            # size_of::<T>() inside a generic function inlined with T known
            n = _size_of_type_string(eng, fr.concrete(targs[0]))
            return C(n, 'usize') if n is not None else None
        adt = crate.adts.get(t['s'])
        if adt and 'size' in adt:
            return C(adt['size'], 'usize')
        if t.get('k') in ('int', 'uint'):
            return C(t['bits'] // 8, 'usize')
    return None


def box_new(eng, st, fr, args, fn, site):
    h = ('H', st.next_heap)
    st.next_heap += 1
    st.store[(h, ())] = args[0]
    return ('ref', (h, ()))


def try_branch(eng, st, fr, args, fn, site):
    v = args[0]
    CF = 'std::ops::ControlFlow'
    if v[0] == 'agg' and v[2] in ('Ok', 'Some'):
        return ('agg', CF, 'Continue', (v[3][0],))
    if v[0] == 'agg' and v[2] == 'Err':
        return ('agg', CF, 'Break', (('agg', 'std::result::Result', 'Err', (v[3][0],)),))
    if v[0] == 'agg' and v[2] == 'None':
        return ('agg', CF, 'Break', (('agg', 'std::option::Option', 'None', ()),))
    d = T('discr', v)
    # which family? decide by the declared self type of the call
    targs = (fn or {}).get('targs') or []
    tys = fr.body.crate.types[targs[0]]['s'] if targs else ''
    if tys.startswith('std::option::Option') or tys.startswith('std::option::Option'):
        return [(('agg', CF, 'Continue', (payload(v, 'Some'),)), [(d, '==', 1)]),
                (('agg', CF, 'Break', (('agg', 'std::option::Option', 'None', ()),)), [(d, '==', 0)])]
    return [(('agg', CF, 'Continue', (payload(v, 'Ok'),)), [(d, '==', 0)]),
            (('agg', CF, 'Break', (('agg', 'std::result::Result', 'Err', (payload(v, 'Err'),)),)),
             [(d, '==', 1)])]


def from_residual(eng, st, fr, args, fn, site):
    v = args[0]
    if v[0] == 'agg' and v[2] == 'Err':
        # `?` converts the error with From: identity when source and target types coincide,
        # a workspace From impl when there is one, an opaque conversion otherwise
        targs = ((fn or {}).get('resolved') or {}).get('targs') or []
        if len(targs) >= 3:
            crate = fr.body.crate
            e_ty, f_ty = targs[-2], targs[-1]      # impl<T, E, F: From<E>> FromResidual<Result<Infallible, E>> for Result<T, F>
            if crate.types[f_ty]['s'] == crate.types[e_ty]['s']:
                return ('agg', 'std::result::Result', 'Err', (v[3][0],))
            tb = eng.find_from_impl(crate, e_ty, f_ty)
            if tb is not None:
                from .psi import FnInfo
                alts = eng.apply_fn(st, fr, ('fn', FnInfo({'path': tb.path, 'resolved': {'path': tb.path}})), [v[3][0]])
                if alts:
                    return [(('agg', 'std::result::Result', 'Err', (a_[0],)), a_[1], a_[2], a_[3] if len(a_) > 3 else None) for a_ in alts]
        return ('agg', 'std::result::Result', 'Err', (T('conv', v[3][0]),))
    if v[0] == 'agg' and v[2] == 'None':
        return ('agg', 'std::option::Option', 'None', ())
    return None


INT_RANGE = {'u8': (0, 2**8 - 1), 'u16': (0, 2**16 - 1), 'u32': (0, 2**32 - 1), 'u64': (0, 2**64 - 1), 'usize': (0, 2**64 - 1),
             'u128': (0, 2**128 - 1), 'i8': (-2**7, 2**7 - 1), 'i16': (-2**15, 2**15 - 1), 'i32': (-2**31, 2**31 - 1),
             'i64': (-2**63, 2**63 - 1), 'isize': (-2**63, 2**63 - 1), 'i128': (-2**127, 2**127 - 1)}


def int_try_from(src, dst):
    """<dst as TryFrom<src>>::try_from(x): Ok(x) when x fits, Err otherwise, as alternatives over comparison atoms"""
    (slo, shi), (dlo, dhi) = INT_RANGE[src], INT_RANGE[dst]

    def f(eng, st, fr, args, fn, site):
        x = args[0]
        ok = ('agg', RES, 'Ok', (x if not is_int_const(x) else C(x[1], dst),))
        err = ('agg', RES, 'Err', (('sym', 'TryFromIntError'),))
        if is_int_const(x):
            return ok if dlo <= x[1] <= dhi else err
        out = []
        conds_ok = []
        if slo < dlo:
            out.append((err, [(T('Lt', x, C(dlo, src)), '==', 1)]))
            conds_ok.append((T('Lt', x, C(dlo, src)), '==', 0))
        if shi > dhi:
            out.append((err, conds_ok + [(T('Gt', x, C(dhi, src)), '==', 1)]))
            conds_ok.append((T('Gt', x, C(dhi, src)), '==', 0))
        out.append((ok, conds_ok))
        return out if len(out) > 1 else ok
    return f


def conv(eng, st, fr, args, fn, site):
    return T('conv', args[0])


def into_inner(eng, st, fr, args, fn, site):
    return T('into_inner', args[0])


def discr_test(variant_index):
    """Option::is_some / is_none, Result::is_ok / is_err as a test of the discriminant"""
    def f(eng, st, fr, args, fn, site):
        v = deref(eng, st, args[0])
        d = eng.discr_of(fr.body.crate, v)
        if is_int_const(d):
            return C(int(d[1] == variant_index), 'bool')
        return T('Eq', d, C(variant_index, 'isize'))
    return f


RES = 'std::result::Result'
OPT = 'std::option::Option'


def _variants(v, family):
    """[(variant, payload or None, conds)] for a Result/Option value"""
    a, b = ('Ok', 'Err') if family == RES else ('Some', 'None')
    if v[0] == 'agg' and v[2] in (a, b):
        return [(v[2], v[3][0] if v[3] else None, [])]
    d = T('discr', v)
    ia, ib = (0, 1) if family == RES else (1, 0)
    return [(a, payload(v, a), [(d, '==', ia)]), (b, payload(v, b) if family == RES else None, [(d, '==', ib)])]


def hof(family, on, rebuild, structural=False):
    """higher-order helper: apply the callback to the payload of variant `on`, pass the other through.
    rebuild(variant, new_payload) -> value"""
    def f(eng, st, fr, args, fn, site):
        out = []
        for var, pay, conds in _variants(args[0], family):
            if var == on:
                alts = eng.apply_fn(st, fr, args[1], [pay] if pay is not None else [])
                if alts is None:
                    if not structural:
                        return None
                    # the callback is not available (std::mem::drop, an external fn): its result is opaque, but which
                    # variant comes out is still determined by the input
                    alts = [(T('applied', args[1] if args[1][0] != 'fn' else ('sym', 'fn:' + str(args[1][1].get('path'))), pay), [], None, None)]
                for a_ in alts:
                    v, c2, eff, sto = a_[0], a_[1], a_[2], (a_[3] if len(a_) > 3 else None)
                    out.append((rebuild(var, v), conds + c2, eff, sto))
            else:
                out.append((rebuild(var, None, keep=pay), conds, None, None))
        if len(out) == 1 and not out[0][1] and (out[0][2] is None or len(out[0][2]) == len(st.effects)) and (len(out[0]) < 4 or out[0][3] is None):
            return out[0][0]
        return out
    return f


def _rb_and_then_res(var, v, keep=None):
    return v if var == 'Ok' and keep is None and v is not None else ('agg', RES, 'Err', (keep,))


def _rb_and_then_opt(var, v, keep=None):
    return v if var == 'Some' and keep is None and v is not None else ('agg', OPT, 'None', ())


def _rb_or_else_res(var, v, keep=None):
    return v if var == 'Err' and keep is None and v is not None else ('agg', RES, 'Ok', (keep,))


def _rb_unwrap_or_else(on):
    def rb(var, v, keep=None):
        return v if var == on and keep is None and v is not None else keep
    return rb


def map_or_else(family, with_default_fn=True):
    """Option/Result::map_or_else(default_fn, f) and map_or(default, f): both arms produce a plain value"""
    def f(eng, st, fr, args, fn, site):
        a = 'Ok' if family == RES else 'Some'
        out = []
        for var, pay, conds in _variants(args[0], family):
            if var == a:
                alts = eng.apply_fn(st, fr, args[2], [pay])
            elif with_default_fn:
                alts = eng.apply_fn(st, fr, args[1], [pay] if family == RES else [])
            else:
                alts = [(args[1], [], None)]
            if alts is None:
                return None
            for a_ in alts:
                out.append((a_[0], conds + a_[1], a_[2], a_[3] if len(a_) > 3 else None))
        return out
    return f


def opt_zip(eng, st, fr, args, fn, site):
    out = []
    for va, pa, ca in _variants(args[0], OPT):
        for vb, pb, cb in _variants(args[1], OPT):
            if va == 'Some' and vb == 'Some':
                out.append((('agg', OPT, 'Some', (('agg', 'tuple', None, (pa, pb)),)), ca + cb))
            else:
                out.append((('agg', OPT, 'None', ()), ca + cb))
    return out if len(out) > 1 else out[0][0]


def opt_transpose(eng, st, fr, args, fn, site):
    """Option<Result<T, E>>::transpose -> Result<Option<T>, E>"""
    out = []
    for vo, po, co in _variants(args[0], OPT):
        if vo == 'None':
            out.append((('agg', RES, 'Ok', (('agg', OPT, 'None', ()),)), co))
        else:
            for vr, pr, cr in _variants(po, RES):
                if vr == 'Ok':
                    out.append((('agg', RES, 'Ok', (('agg', OPT, 'Some', (pr,)),)), co + cr))
                else:
                    out.append((('agg', RES, 'Err', (pr,)), co + cr))
    return out if len(out) > 1 else out[0][0]


def opt_filter(eng, st, fr, args, fn, site):
    out = []
    for var, pay, conds in _variants(args[0], OPT):
        if var == 'None':
            out.append((('agg', OPT, 'None', ()), conds, None))
            continue
        h = ('H', 300000 + st.next_heap)
        st.next_heap += 1
        st.store[(h, ())] = pay
        alts = eng.apply_fn(st, fr, args[1], [('ref', (h, ()))])
        if alts is None:
            return None
        for a_ in alts:
            v, c2, eff, sto = a_[0], a_[1], a_[2], (a_[3] if len(a_) > 3 else None)
            if is_int_const(v):
                out.append((('agg', OPT, 'Some', (pay,)) if v[1] else ('agg', OPT, 'None', ()), conds + c2, eff, sto))
            else:
                out.append((('agg', OPT, 'Some', (pay,)), conds + c2 + [(v, '==', 1)], eff, sto))
                out.append((('agg', OPT, 'None', ()), conds + c2 + [(v, '==', 0)], eff, sto))
    return out


def array_map(eng, st, fr, args, fn, site):
    """[a, b, c].map(f): element-wise application when every application has a single outcome"""
    arr = args[0]
    if not (arr[0] == 'agg' and arr[1] == 'array'):
        return None
    out = []
    for e in arr[3]:
        alts = eng.apply_fn(st, fr, args[1], [e])
        if not alts or len(alts) != 1 or alts[0][1]:
            return None
        out.append(alts[0][0])
    return ('agg', 'array', None, tuple(out))


def _rb_or_else_opt(var, v, keep=None):
    return v if var == 'None' and keep is None and v is not None else ('agg', OPT, 'Some', (keep,))


def array_into_iter(eng, st, fr, args, fn, site):
    """[T; N]::into_iter(): an iterator value that remembers the array and the position"""
    arr = args[0]
    if arr[0] == 'agg' and arr[1] in ('array',) or (arr[0] == 'agg' and arr[2] is None and arr[1].startswith('[')):
        return T('arr_iter', arr, C(0, 'usize'))
    return None


def slice_iter(eng, st, fr, args, fn, site):
    """<[T]>::iter(&arr) over an array whose elements are known (a constant table): an iterator positioned at its start;
    the items are references to the elements"""
    a = ptr_term(args[0])
    if a[0] == 'ref':
        arr = eng.load(st, a[1])
        if arr[0] == 'agg' and arr[2] is None and 0 < len(arr[3]) <= 16:
            elems = tuple(('ref', (a[1][0], a[1][1] + (('f', k, None),))) for k in range(len(arr[3])))
            return T('arr_iter', ('agg', 'array', None, elems), C(0, 'usize'))
        # an array whose content is unknown (a field of a header read from a file) but whose length the field's type fixes
        n = _field_array_len(eng, a[1]) if arr[0] == 't' else None
        if n is not None and 0 < n <= 16:
            elems = tuple(('ref', (a[1][0], a[1][1] + (('f', k, None),))) for k in range(n))
            return T('arr_iter', ('agg', 'array', None, elems), C(0, 'usize'))
    return None


def _field_array_len(eng, place):
    """length of the array a place ends in, when the place is a named field that exactly one workspace struct declares with
    an array type"""
    proj = place[1]
    if not proj or proj[-1][0] != 'f' or not isinstance(proj[-1][2], str):
        return None
    lens = set()
    for c in eng.facts.crates:
        for a_ in c.adts.values():
            for v_ in a_.get('variants') or []:
                for f_ in v_.get('fields') or []:
                    if f_.get('name') == proj[-1][2] and 'ty' in f_:
                        t_ = c.types[f_['ty']]
                        if t_.get('k') == 'array' and t_.get('size') and t_.get('esize'):
                            lens.add(int(t_['size']) // int(t_['esize']))
    return lens.pop() if len(lens) == 1 else None


def array_iter_next(eng, st, fr, args, fn, site):
    d = ptr_term(args[0])
    if d[0] != 'ref':
        return None
    it = eng.load(st, d[1])
    if not (it[0] == 't' and it[1] == 'arr_iter' and is_int_const(it[2][1])):
        return None
    arr, i = it[2][0], it[2][1][1]
    if i < len(arr[3]):
        eng.write(st, d[1], T('arr_iter', arr, C(i + 1, 'usize')))
        return ('agg', OPT, 'Some', (arr[3][i],))
    return ('agg', OPT, 'None', ())


def iter_find(eng, st, fr, args, fn, site):
    """Iterator::find(&mut it, pred) over an array iterator whose elements are known: the predicate is applied to the
    elements in order; the result is the first element it accepts (alternatives when it cannot be decided)"""
    d = ptr_term(args[0])
    it = eng.load(st, d[1]) if d[0] == 'ref' else args[0]
    if not (it[0] == 't' and it[1] == 'arr_iter' and is_int_const(it[2][1])):
        return None
    arr, i0 = it[2][0], it[2][1][1]
    elems = list(arr[3][i0:])
    if len(elems) > 16:
        return None
    out = []
    failed = []

    def rec(k, st_k, conds):
        if failed:
            return
        if k == len(elems):
            if d[0] == 'ref':
                eng.write(st_k, d[1], T('arr_iter', arr, C(len(arr[3]), 'usize')))
            out.append((('agg', OPT, 'None', ()), conds, list(st_k.effects), dict(st_k.store)))
            return
        h = ('H', 300000 + st_k.next_heap)
        st_k.next_heap += 1
        st_k.store[(h, ())] = elems[k]
        alts = eng.apply_fn(st_k, fr, args[1], [('ref', ((h, ()), ()))] if False else [('ref', (h, ()))])
        if alts is None:
            failed.append(k)
            return
        for a_ in alts:
            v, c2 = a_[0], list(a_[1])
            st_n = st_k.copy()
            if len(a_) > 2 and a_[2] is not None:
                st_n.effects = list(a_[2])
            if len(a_) > 3 and a_[3] is not None:
                st_n.store = dict(a_[3])
            if is_int_const(v):
                if v[1]:
                    if d[0] == 'ref':
                        eng.write(st_n, d[1], T('arr_iter', arr, C(i0 + k + 1, 'usize')))
                    out.append((('agg', OPT, 'Some', (elems[k],)), conds + c2, list(st_n.effects), dict(st_n.store)))
                else:
                    rec(k + 1, st_n, conds + c2)
            else:
                st_y = st_n.copy()
                if d[0] == 'ref':
                    eng.write(st_y, d[1], T('arr_iter', arr, C(i0 + k + 1, 'usize')))
                out.append((('agg', OPT, 'Some', (elems[k],)), conds + c2 + [(v, '==', 1)], list(st_y.effects), dict(st_y.store)))
                rec(k + 1, st_n, conds + c2 + [(v, '==', 0)])
    rec(0, st.copy(), [])
    if failed:
        return None
    return out


def _iter_alts(eng, st, fr, it, depth=0):
    """the item lists an iterator built from a known array and `filter` / `map` adaptors can yield: alternatives
    [(items, conds, state)] (an adaptor's closure is applied eagerly, element by element, in order; an undecided predicate
    forks); None when the iterator is not of that form or too large"""
    if it[0] == 't' and it[1] == 'arr_iter' and is_int_const(it[2][1]):
        arr, i0 = it[2][0], it[2][1][1]
        if len(arr[3]) - i0 > 8:
            return None
        return [(list(arr[3][i0:]), [], st.copy())]
    if not (it[0] == 't' and it[1] in ('iter_filter', 'iter_map') and depth < 4):
        return None
    inner = _iter_alts(eng, st, fr, it[2][0], depth + 1)
    if inner is None:
        return None
    clo = it[2][1]
    out = []
    for items, conds, st0 in inner:
        partial = [([], list(conds), st0)]
        for el in items:
            nxt = []
            for got, cs, st_k in partial:
                if it[1] == 'iter_filter':
                    h = ('H', 310000 + st_k.next_heap)
                    st_k = st_k.copy()
                    st_k.next_heap += 1
                    st_k.store[(h, ())] = el
                    arg = ('ref', (h, ()))
                else:
                    arg = el
                alts = eng.apply_fn(st_k, fr, clo, [arg])
                if alts is None:
                    return None
                for a_ in alts:
                    v, c2 = a_[0], list(a_[1])
                    st_n = st_k.copy()
                    if len(a_) > 2 and a_[2] is not None:
                        st_n.effects = list(a_[2])
                    if len(a_) > 3 and a_[3] is not None:
                        st_n.store = dict(a_[3])
                    if it[1] == 'iter_map':
                        nxt.append((got + [v], cs + c2, st_n))
                    elif is_int_const(v):
                        nxt.append((got + [el] if v[1] else got, cs + c2, st_n))
                    else:
                        nxt.append((got + [el], cs + c2 + [(v, '==', 1)], st_n))
                        nxt.append((got, cs + c2 + [(v, '==', 0)], st_n.copy()))
            partial = nxt
            if len(partial) > 64:
                return None
        out += partial
    return out


def iter_adaptor(kind):
    def f(eng, st, fr, args, fn, site):
        it = args[0]
        if it[0] == 't' and it[1] in ('arr_iter', 'iter_filter', 'iter_map', 'recv_iter', 'repeat_with'):
            return T(kind, it, args[1])
        return None
    return f


def _derived_order(eng, items):
    """keys that order the items as their type's Ord does, when that is certain: integers by value, field-less variants of
    a workspace enum whose Ord is #[derive]d by declaration order; else None"""
    if all(is_int_const(x) for x in items):
        return [x[1] for x in items]
    if all(x[0] == 'agg' and x[2] is not None and not x[3] for x in items) and len({x[1] for x in items}) == 1:
        ty = items[0][1]
        adt = eng.find_adt(ty)
        cmp_ = [b for b in eng.facts.bodies() if b.name == 'cmp' and (b.impl_trait or '').endswith('cmp::Ord') and (b.impl_self or '') == ty]
        derived = cmp_ and all(any(e.get('name') == 'Ord' for e in (b.span.get('exp') or [])) for b in cmp_)
        if adt and adt['kind'] == 'enum' and derived:
            idx = {v['name']: v['index'] for v in adt['variants']}
            if all(x[2] in idx for x in items):
                return [idx[x[2]] for x in items]
    return None


def iter_consume(how):
    """max / min / last / count / next over an array iterator with eager adaptors"""
    def f(eng, st, fr, args, fn, site):
        d = ptr_term(args[0])
        by_ref = d[0] == 'ref'
        it = eng.load(st, d[1]) if by_ref else args[0]
        if not (it[0] == 't' and it[1] in ('iter_filter', 'iter_map', 'arr_iter')):
            return None
        if it[1] == 'arr_iter' and how == 'next':
            return array_iter_next(eng, st, fr, args, fn, site)
        alts = _iter_alts(eng, st, fr, it)
        if alts is None:
            return None
        out = []
        for items, conds, st_k in alts:
            if how == 'count':
                v = C(len(items), 'usize')
            elif not items:
                v = ('agg', OPT, 'None', ())
            elif how == 'last':
                v = ('agg', OPT, 'Some', (items[-1],))
            elif how == 'next':
                v = ('agg', OPT, 'Some', (items[0],))
                if by_ref:
                    eng.write(st_k, d[1], T('arr_iter', ('agg', 'array', None, tuple(items)), C(1, 'usize')))
            else:
                keys = _derived_order(eng, items)
                if keys is None:
                    return None
                # (Iterator::max returns the last of several maxima, min the first)
                best = 0
                for k in range(1, len(items)):
                    if (how == 'max' and keys[k] >= keys[best]) or (how == 'min' and keys[k] < keys[best]):
                        best = k
                v = ('agg', OPT, 'Some', (items[best],))
            if how == 'next' and not items and by_ref:
                eng.write(st_k, d[1], T('arr_iter', ('agg', 'array', None, ()), C(0, 'usize')))
            out.append((v, conds, list(st_k.effects), dict(st_k.store)))
        return out
    return f


def iter_try_for_each(fallible):
    """Iterator::try_for_each / for_each over a known array iterator: the closure runs for the elements in order; with
    try_for_each a Result it returns is either Ok (go on) or the Err that ends the walk and is returned"""
    def f(eng, st, fr, args, fn, site):
        d = ptr_term(args[0])
        by_ref = d[0] == 'ref'
        it = eng.load(st, d[1]) if by_ref else args[0]
        alts0 = _iter_alts(eng, st, fr, it) if (it[0] == 't' and it[1] in ('arr_iter', 'iter_filter', 'iter_map')) else None
        if alts0 is None:
            return None
        unit = ('agg', 'tuple', None, ())
        out = []
        for items, conds, st0 in alts0:
            live = [(list(conds), st0)]
            for el in items:
                nxt = []
                for cs, st_k in live:
                    alts = eng.apply_fn(st_k, fr, args[1], [el])
                    if alts is None:
                        return None
                    for a_ in alts:
                        v, c2 = a_[0], list(a_[1])
                        st_n = st_k.copy()
                        if len(a_) > 2 and a_[2] is not None:
                            st_n.effects = list(a_[2])
                        if len(a_) > 3 and a_[3] is not None:
                            st_n.store = dict(a_[3])
                        if not fallible:
                            nxt.append((cs + c2, st_n))
                        elif v[0] == 'agg' and v[2] in ('Ok', 'Err') and v[1].startswith(RES):
                            if v[2] == 'Ok':
                                nxt.append((cs + c2, st_n))
                            else:
                                out.append((v, cs + c2, list(st_n.effects), dict(st_n.store)))
                        elif v[0] == 't':
                            # an opaque Result (what an external call returned): Err ends the walk with that very value
                            dv = T('discr', v)
                            out.append((v, cs + c2 + [(dv, '==', 1)], list(st_n.effects), dict(st_n.store)))
                            nxt.append((cs + c2 + [(dv, '==', 0)], st_n.copy()))
                        else:
                            return None
                live = nxt
                if len(live) + len(out) > 64:
                    return None
            for cs, st_k in live:
                out.append((('agg', RES, 'Ok', (unit,)) if fallible else unit, cs, list(st_k.effects), dict(st_k.store)))
        return out
    return f


RECV = 'std::sync::mpsc::Receiver::<T>::recv'


def recv_iter(eng, st, fr, args, fn, site):
    """Receiver::iter(&rx) / (&rx).into_iter(): the blocking iterator -- every `next` is a `recv`, the end is its Err"""
    return T('recv_iter', args[0])


def repeat_with(eng, st, fr, args, fn, site):
    return T('repeat_with', args[0])


def _endless_step(eng, st, fr, it, site, depth=0):
    """one `next()` of an iterator over an endless source (a mailbox, `repeat_with`) behind `map` / `filter`:
    alternatives [(item | None for "ended" | LOOP for "nothing this time", conds, state)], or None"""
    from .psi import LOOP_CONTINUE
    if it[0] != 't' or depth > 4:
        return None
    if it[1] == 'recv_iter':
        st2 = st.copy()
        n = len(st2.effects)
        rx = it[2][0]
        st2.effects.append({'kind': 'call', 'callee': RECV, 'declared': RECV, 'args': [rx], 'site': site or (fr.body.path, fr.bb, fr.body.where(fr.bb)),
                            'tracing': False, 'fn': None, 'pointees': [eng.load(st2, rx[1]) if rx[0] == 'ref' else None]})
        r = T('call', RECV, n, rx)
        return [(T('field', T('as', r, 'Ok'), '0'), [(T('discr', r), '==', 0)], st2), (None, [(T('discr', r), '==', 1)], st2.copy())]
    if it[1] == 'repeat_with':
        alts = eng.apply_fn(st.copy(), fr, it[2][0] if it[2][0][0] != 'ref' else eng.load(st, it[2][0][1]), [])
        if alts is None:
            return None
        out = []
        for a_ in alts:
            st_n = st.copy()
            if len(a_) > 2 and a_[2] is not None:
                st_n.effects = list(a_[2])
            if len(a_) > 3 and a_[3] is not None:
                st_n.store = dict(a_[3])
            out.append((a_[0], list(a_[1]), st_n))
        return out
    if it[1] in ('iter_map', 'iter_filter'):
        inner = _endless_step(eng, st, fr, it[2][0], site, depth + 1)
        if inner is None:
            return None
        out = []
        for item, conds, st_k in inner:
            if item is None or item == LOOP_CONTINUE:
                out.append((item, conds, st_k))
                continue
            arg = item
            if it[1] == 'iter_filter':
                h = ('H', 320000 + st_k.next_heap)
                st_k.next_heap += 1
                st_k.store[(h, ())] = item
                arg = ('ref', (h, ()))
            alts = eng.apply_fn(st_k, fr, it[2][1], [arg])
            if alts is None:
                return None
            for a_ in alts:
                st_n = st_k.copy()
                if len(a_) > 2 and a_[2] is not None:
                    st_n.effects = list(a_[2])
                if len(a_) > 3 and a_[3] is not None:
                    st_n.store = dict(a_[3])
                v, c2 = a_[0], conds + list(a_[1])
                if it[1] == 'iter_map':
                    out.append((v, c2, st_n))
                elif is_int_const(v):
                    out.append((item if v[1] else LOOP_CONTINUE, c2, st_n))
                else:
                    out.append((item, c2 + [(v, '==', 1)], st_n))
                    out.append((LOOP_CONTINUE, c2 + [(v, '==', 0)], st_n.copy()))
        return out
    return None


def is_endless(it, depth=0):
    return it[0] == 't' and depth < 5 and (it[1] in ('recv_iter', 'repeat_with') or (it[1] in ('iter_map', 'iter_filter') and is_endless(it[2][0], depth + 1)))


def endless_consume(how):
    """any / all / find over an iterator with an endless source: ONE iteration of the loop the adaptor hides -- the result
    when this iteration decides it, 'goes round again' otherwise"""
    from .psi import LOOP_CONTINUE

    def f(eng, st, fr, args, fn, site):
        d = ptr_term(args[0])
        it = eng.load(st, d[1]) if d[0] == 'ref' else args[0]
        if not is_endless(it):
            return None
        steps = _endless_step(eng, st, fr, it, site)
        if steps is None:
            return None
        out = []
        for item, conds, st_k in steps:
            if item == LOOP_CONTINUE:
                out.append((LOOP_CONTINUE, conds, list(st_k.effects), dict(st_k.store)))
                continue
            if item is None:
                v_end = {'any': C(0, 'bool'), 'all': C(1, 'bool'), 'find': ('agg', OPT, 'None', ())}[how]
                out.append((v_end, conds, list(st_k.effects), dict(st_k.store)))
                continue
            arg = item
            if how == 'find':
                h = ('H', 330000 + st_k.next_heap)
                st_k.next_heap += 1
                st_k.store[(h, ())] = item
                arg = ('ref', (h, ()))
            alts = eng.apply_fn(st_k, fr, args[1], [arg])
            if alts is None:
                return None
            for a_ in alts:
                st_n = st_k.copy()
                if len(a_) > 2 and a_[2] is not None:
                    st_n.effects = list(a_[2])
                if len(a_) > 3 and a_[3] is not None:
                    st_n.store = dict(a_[3])
                v, c2 = a_[0], conds + list(a_[1])
                for truth in ((bool(v[1]),) if is_int_const(v) else (True, False)):
                    c3 = c2 if is_int_const(v) else c2 + [(v, '==', int(truth))]
                    decided = truth if how in ('any', 'find') else (not truth)
                    if decided:
                        val = {'any': C(1, 'bool'), 'all': C(0, 'bool'), 'find': ('agg', OPT, 'Some', (item,))}[how]
                    else:
                        val = LOOP_CONTINUE
                    s_use = st_n if truth is True or is_int_const(v) else st_n.copy()
                    out.append((val, c3, list(s_use.effects), dict(s_use.store)))
        return out
    return f


def _or_else(first, second):
    def f(eng, st, fr, args, fn, site):
        r = first(eng, st, fr, args, fn, site)
        return r if r is not None else second(eng, st, fr, args, fn, site)
    return f


def int_sign_test(op):
    """i32::is_negative / is_positive"""
    def f(eng, st, fr, args, fn, site):
        x = args[0]
        if is_int_const(x):
            return C(int(x[1] < 0 if op == 'Lt' else x[1] > 0), 'bool')
        return T(op, x, C(0, 'i64'))
    return f


def result_and(eng, st, fr, args, fn, site):
    """Result::and(self, res): res when self is Ok, the Err of self otherwise"""
    a = args[0]
    if a[0] == 'agg' and a[2] == 'Ok':
        return args[1]
    if a[0] == 'agg' and a[2] == 'Err':
        return a
    if a[0] == 't':
        d = T('discr', a)
        return [(args[1], [(d, '==', 0)]), (('agg', RES, 'Err', (T('field', T('as', a, 'Err'), '0'),)), [(d, '==', 1)])]
    return None


def ptr_eq(eng, st, fr, args, fn, site):
    return T('Eq', args[0], args[1])


def iter_zip(eng, st, fr, args, fn, site):
    """a.zip(b) over two arrays whose elements are known: the array of pairs"""
    a, b = args[0], args[1]
    if not (a[0] == 't' and a[1] == 'arr_iter' and is_int_const(a[2][1])):
        return None
    ea = list(a[2][0][3][a[2][1][1]:])
    eb = None
    if b[0] == 't' and b[1] == 'arr_iter' and is_int_const(b[2][1]):
        eb = list(b[2][0][3][b[2][1][1]:])
    else:
        pb = ptr_term(b)
        if pb[0] == 'ref':
            arr = eng.load(st, pb[1])
            if arr[0] == 'agg' and arr[2] is None:
                eb = [('ref', (pb[1][0], pb[1][1] + (('f', k, None),))) for k in range(len(arr[3]))]
        elif b[0] == 'agg' and b[2] is None:
            eb = list(b[3])
    if eb is None:
        return None
    pairs = tuple(('agg', 'tuple', None, (x, y)) for x, y in zip(ea, eb))
    return T('arr_iter', ('agg', 'array', None, pairs), C(0, 'usize'))


def iter_all_any(how):
    """all / any over a known array iterator: the predicate is applied in order, the walk stops at the deciding element"""
    def f(eng, st, fr, args, fn, site):
        d = ptr_term(args[0])
        it = eng.load(st, d[1]) if d[0] == 'ref' else args[0]
        if not (it[0] == 't' and it[1] in ('arr_iter', 'iter_filter', 'iter_map')):
            return None
        alts0 = _iter_alts(eng, st, fr, it)
        if alts0 is None:
            return None
        stop_on = (how == 'any')
        out = []
        for items, conds, st0 in alts0:
            live = [(list(conds), st0)]
            for el in items:
                nxt = []
                for cs, st_k in live:
                    alts = eng.apply_fn(st_k, fr, args[1], [el])
                    if alts is None:
                        return None
                    for a_ in alts:
                        v, c2 = a_[0], list(a_[1])
                        st_n = st_k.copy()
                        if len(a_) > 2 and a_[2] is not None:
                            st_n.effects = list(a_[2])
                        if len(a_) > 3 and a_[3] is not None:
                            st_n.store = dict(a_[3])
                        if is_int_const(v):
                            if bool(v[1]) == stop_on:
                                out.append((C(int(stop_on), 'bool'), cs + c2, list(st_n.effects), dict(st_n.store)))
                            else:
                                nxt.append((cs + c2, st_n))
                        else:
                            out.append((C(int(stop_on), 'bool'), cs + c2 + [(v, '==', int(stop_on))], list(st_n.effects), dict(st_n.store)))
                            nxt.append((cs + c2 + [(v, '==', int(not stop_on))], st_n.copy()))
                live = nxt
                if len(live) + len(out) > 64:
                    return None
            for cs, st_k in live:
                out.append((C(int(not stop_on), 'bool'), cs, list(st_k.effects), dict(st_k.store)))
        return out
    return f


def ref_cmp(op):
    """<&A as PartialEq<&B>>::eq / ne: compares what the references point to"""
    def f(eng, st, fr, args, fn, site):
        a, b = args[0], args[1]
        for _ in range(3):
            if a[0] == 'ref':
                a = eng.load(st, a[1])
            if b[0] == 'ref':
                b = eng.load(st, b[1])
        if a[0] == 'ref' or b[0] == 'ref':
            return None
        if is_int_const(a) and is_int_const(b):
            return C(int((a[1] == b[1]) == (op == 'Eq')), 'bool')
        return T(op, a, b)
    return f


def int_cmp(eng, st, fr, args, fn, site):
    """<int as Ord>::cmp(&a, &b): an ordering value the is_* predicates below turn back into the comparison"""
    a, b = deref(eng, st, ptr_term(args[0])), deref(eng, st, ptr_term(args[1]))
    if is_int_const(a) and is_int_const(b):
        d = (a[1] > b[1]) - (a[1] < b[1])
        return ('agg', 'std::cmp::Ordering', {-1: 'Less', 0: 'Equal', 1: 'Greater'}[d], ())
    return T('int_cmp', a, b)


def ordering_is(op):
    def f(eng, st, fr, args, fn, site):
        o = args[0]
        if o[0] == 'ref':
            o = eng.load(st, o[1])
        if o[0] == 'agg' and o[2] in ('Less', 'Equal', 'Greater'):
            d = {'Less': -1, 'Equal': 0, 'Greater': 1}[o[2]]
            return C(int({'Ge': d >= 0, 'Gt': d > 0, 'Le': d <= 0, 'Lt': d < 0, 'Eq': d == 0, 'Ne': d != 0}[op]), 'bool')
        if o[0] == 't' and o[1] == 'int_cmp':
            return T(op, o[2][0], o[2][1])
        return None
    return f


def cf_is(variant):
    """ControlFlow::is_continue / is_break on a value whose variant the path knows"""
    def f(eng, st, fr, args, fn, site):
        x = deref(eng, st, ptr_term(args[0]))
        if x[0] == 'agg' and x[2] in ('Continue', 'Break'):
            return C(int(x[2] == variant), 'bool')
        return None
    return f


def ref_bool_not(eng, st, fr, args, fn, site):
    """<&bool as Not>::not(r): the negation of what r points to (a closure pattern that binds a `&bool`)"""
    x = deref(eng, st, ptr_term(args[0]))
    if is_int_const(x):
        return C(1 - x[1], 'bool')
    return T('Not', x)


def nonnull_as_ref(eng, st, fr, args, fn, site):
    """NonNull::as_ref(&self) / as_mut: a reference to what the pointer points to"""
    p = deref(eng, st, ptr_term(args[0]))
    return p if p[0] == 'ref' else ('ref', (('S', p), ()))


def nonnull_new(eng, st, fr, args, fn, site):
    return ('agg', OPT, 'Some', (args[0],))


def bool_then_some(eng, st, fr, args, fn, site):
    b, v = args[0], args[1]
    if is_int_const(b):
        return ('agg', OPT, 'Some', (v,)) if b[1] else ('agg', OPT, 'None', ())
    return [(('agg', OPT, 'Some', (v,)), [(b, '==', 1)]), (('agg', OPT, 'None', ()), [(b, '==', 0)])]


def bool_then(eng, st, fr, args, fn, site):
    b = args[0]
    out = []
    if not (is_int_const(b) and not b[1]):
        alts = eng.apply_fn(st, fr, args[1], [])
        if alts is None:
            return None
        for a_ in alts:
            out.append((('agg', OPT, 'Some', (a_[0],)), ([] if is_int_const(b) else [(b, '==', 1)]) + a_[1], a_[2], a_[3] if len(a_) > 3 else None))
    if not (is_int_const(b) and b[1]):
        out.append((('agg', OPT, 'None', ()), [] if is_int_const(b) else [(b, '==', 0)], None))
    return out


def next_multiple_of(eng, st, fr, args, fn, site):
    a, b = args[0], args[1]
    if is_int_const(a) and is_int_const(b) and b[1] > 0:
        return C(((a[1] + b[1] - 1) // b[1]) * b[1], a[2])
    return None


def unwrap_or(family):
    def f(eng, st, fr, args, fn, site):
        a = 'Ok' if family == RES else 'Some'
        out = [((pay if var == a else args[1]), conds) for var, pay, conds in _variants(args[0], family)]
        return out if len(out) > 1 else out[0][0]
    return f


def _rb_map_err(var, v, keep=None):
    return ('agg', RES, 'Err', (v,)) if var == 'Err' and keep is None and v is not None else ('agg', RES, var, (keep,))


def _rb_map_res(var, v, keep=None):
    return ('agg', RES, 'Ok', (v,)) if var == 'Ok' and keep is None and v is not None else ('agg', RES, var, (keep,))


def _rb_map_opt(var, v, keep=None):
    if var == 'Some' and keep is None and v is not None:
        return ('agg', OPT, 'Some', (v,))
    return ('agg', OPT, var, (keep,) if keep is not None else ())


def _rb_ok_or_else(var, v, keep=None):
    if var == 'None':
        return ('agg', RES, 'Err', (v,))
    return ('agg', RES, 'Ok', (keep,))


def ok_or(eng, st, fr, args, fn, site):
    out = []
    for var, pay, conds in _variants(args[0], OPT):
        out.append((('agg', RES, 'Ok', (pay,)) if var == 'Some' else ('agg', RES, 'Err', (args[1],)), conds))
    return out if len(out) > 1 else out[0][0]


def res_ok(eng, st, fr, args, fn, site):
    out = []
    for var, pay, conds in _variants(args[0], RES):
        out.append((('agg', OPT, 'Some', (pay,)) if var == 'Ok' else ('agg', OPT, 'None', ()), conds))
    return out if len(out) > 1 else out[0][0]


def opt_as_ref(eng, st, fr, args, fn, site):
    """Option<T>::as_ref(&self) -> Option<&T>: same discriminant; the payload becomes a reference,
    which the term language does not distinguish from the value it points to"""
    return deref(eng, st, args[0])


def mem_replace(eng, st, fr, args, fn, site):
    d = args[0]
    if d[0] != 'ref':
        return None
    old = eng.load(st, d[1])
    eng.write(st, d[1], args[1])
    return old


def mem_swap(eng, st, fr, args, fn, site):
    a, b = args[0], args[1]
    if a[0] != 'ref' or b[0] != 'ref':
        return None
    va, vb = eng.load(st, a[1]), eng.load(st, b[1])
    eng.write(st, a[1], vb)
    eng.write(st, b[1], va)
    return C(None, '()')


def opt_take(eng, st, fr, args, fn, site):
    d = args[0]
    if d[0] != 'ref':
        return None
    old = eng.load(st, d[1])
    eng.write(st, d[1], ('agg', OPT, 'None', ()))
    return old


def opt_replace(eng, st, fr, args, fn, site):
    d = args[0]
    if d[0] != 'ref':
        return None
    old = eng.load(st, d[1])
    eng.write(st, d[1], ('agg', OPT, 'Some', (args[1],)))
    return old


# ---------------------------------------------------------------- byte-buffer algebra
# Buffers (arrays, slices, Vec<u8>) are values:  repeat(elem, n) | ne_bytes(x, width) | splice(old, lo, hi, src) |
# concat(a, b) | resize(a, len, byte) | bytes_empty | from_elem call terms.  `flatten_bytes` turns one into a list of
# (length, ('fill', byte-term) | ('val', term)) segments or None when some part is not understood.

def ptr_term(v):
    """a reborrow `&mut *p` of a pointer that is a term (not a store reference) is that pointer"""
    while v[0] == 'ref' and v[1][0][0] == 'S' and v[1][1] == ():
        v = v[1][0][1]
    return v


def _split(segs, at):
    """split the segment list so that a boundary exists at byte offset `at`; None if a value segment would be cut"""
    out, off = [], 0
    for n, c in segs:
        if off < at < off + n:
            if c[0] != 'fill':
                return None
            out.append((at - off, c))
            out.append((off + n - at, c))
        else:
            out.append((n, c))
        off += n
    return out


def flatten_bytes(v):
    v = ptr_term(v)
    if v[0] == 'agg' and (v[1] == 'array' or (v[2] is None and v[1].startswith('[u8;'))):
        # a literal byte array: runs of equal constant bytes become fill segments
        out = []
        for o in v[3]:
            if out and out[-1][1][0] == 'fill' and out[-1][1][1] == o and is_int_const(o):
                out[-1] = (out[-1][0] + 1, out[-1][1])
            elif is_int_const(o):
                out.append((1, ('fill', o)))
            else:
                out.append((1, ('val', o)))
        return out
    if v[0] != 't':
        return None
    op, a = v[1], v[2]
    if op == 'repeat' and len(a) == 2 and is_int_const(a[1]):
        return [(a[1][1], ('fill', a[0]))] if a[1][1] else []
    if op == 'bytes_empty':
        return []
    if op == 'ne_bytes':
        return [(a[1], ('val', a[0]))]
    if op == 'call' and a[0].endswith('vec::from_elem') and len(a) >= 4 and is_int_const(a[3]):
        return [(a[3][1], ('fill', a[2]))] if a[3][1] else []
    if op == 'subbytes' and is_int_const(a[1]) and is_int_const(a[2]):
        x = flatten_bytes(a[0])
        lo, hi = a[1][1], a[2][1]
        if x is None or hi > sum(l for l, _ in x) or lo > hi:
            return None
        x = _split(x, lo)
        x = _split(x, hi) if x is not None else None
        if x is None:
            return None
        out, off = [], 0
        for l, c in x:
            if lo <= off < hi:
                out.append((l, c))
            off += l
        return out
    if op == 'concat':
        x, y = flatten_bytes(a[0]), flatten_bytes(a[1])
        return None if x is None or y is None else x + y
    if op == 'resize' and is_int_const(a[1]):
        x = flatten_bytes(a[0])
        if x is None:
            return None
        n = sum(l for l, _ in x)
        if a[1][1] >= n:
            return x + ([(a[1][1] - n, ('fill', a[2]))] if a[1][1] > n else [])
        x = _split(x, a[1][1])
        if x is None:
            return None
        out, off = [], 0
        for l, c in x:
            if off < a[1][1]:
                out.append((l, c))
            off += l
        return out
    if op == 'splice' and is_int_const(a[1]) and is_int_const(a[2]):
        lo, hi = a[1][1], a[2][1]
        x, src = flatten_bytes(a[0]), flatten_bytes(a[3])
        if x is None or src is None or sum(l for l, _ in src) != hi - lo or hi > sum(l for l, _ in x):
            return None
        x = _split(x, lo)
        x = _split(x, hi) if x is not None else None
        if x is None:
            return None
        out, off, done = [], 0, False
        for l, c in x:
            if lo <= off < hi:
                if not done:
                    out += src
                    done = True
            else:
                out.append((l, c))
            off += l
        return out
    return None


def bytes_len(v):
    f = flatten_bytes(v)
    return None if f is None else sum(l for l, _ in f)


def _range_of(v):
    if v[0] == 'agg' and v[1].split('<')[0].endswith('::Range') and len(v[3]) == 2 and \
            is_int_const(v[3][0]) and is_int_const(v[3][1]):
        return v[3][0][1], v[3][1][1]
    return None


def buf_index(eng, st, fr, args, fn, site):
    """buf[lo..hi] as a place-carrying pointer: subslice(ptr, lo, hi)"""
    r = _range_of(args[1])
    if r is None:
        if args[1][0] == 'agg' and args[1][1].split('<')[0].endswith('::RangeFull'):
            return args[0]
        return None
    return T('subslice', ptr_term(args[0]), C(r[0], 'usize'), C(r[1], 'usize'))


def slice_get(eng, st, fr, args, fn, site):
    """<[T]>::get(range) on a buffer whose contents are known: Some(sub-buffer) when the range is inside, None otherwise"""
    r = args[1]
    lo = hi = None
    # element lookup `TABLE.get(i)` in a small table whose elements are known: Some(&TABLE[k]) for i == k, None beyond the end
    a0 = ptr_term(args[0])
    if a0[0] == 'ref' and (is_int_const(r) or r[0] in ('t', 'sym')):
        arr = eng.load(st, a0[1])
        if arr[0] == 'agg' and arr[2] is None and 0 < len(arr[3]) <= 8 and (arr[1] == 'array' or arr[1].startswith('[')):
            n = len(arr[3])
            elem = lambda k: ('agg', OPT, 'Some', (('ref', (a0[1][0], a0[1][1] + (('f', k, None),))),))
            if is_int_const(r):
                return elem(r[1]) if 0 <= r[1] < n else ('agg', OPT, 'None', ())
            from .psi import index_key
            key = index_key(r)
            return [(elem(k), [(key, '==', k)]) for k in range(n)] + [(('agg', OPT, 'None', ()), [(key, '!=', tuple(range(n)))])]
    if r[0] == 'agg' and r[1].split('<')[0].endswith('::RangeTo') and len(r[3]) == 1 and is_int_const(r[3][0]):
        lo, hi = 0, r[3][0][1]
    else:
        rr = _range_of(r)
        if rr is not None:
            lo, hi = rr
    if lo is None:
        return None
    buf = deref(eng, st, ptr_term(args[0]))
    n = bytes_len(buf)
    if n is None:
        return None
    if hi <= n and lo <= hi:
        h = ('H', 400000 + st.next_heap)
        st.next_heap += 1
        st.store[(h, ())] = T('subbytes', buf, C(lo, 'usize'), C(hi, 'usize'))
        return ('agg', OPT, 'Some', (('ref', (h, ())),))
    return ('agg', OPT, 'None', ())


def byteorder_write(width, native=True):
    """<E as byteorder::ByteOrder>::write_uN(buf, v): fills the first N bytes of the buffer with v (byte-swapped when E is
    not the byte order of the analysed target, which is little-endian)"""
    def f(eng, st, fr, args, fn, site):
        d = ptr_term(args[0])
        src = T('ne_bytes', args[1] if native else T('bswap', args[1], width), width)
        if d[0] == 'ref':
            old = eng.load(st, d[1])
            n = bytes_len(old)
            if n == width:
                eng.write(st, d[1], src)
                return C(None, '()')
            if n is not None and n > width:
                eng.write(st, d[1], T('splice', old, C(0, 'usize'), C(width, 'usize'), src))
                return C(None, '()')
            return None
        if d[0] == 't' and d[1] == 'subslice' and d[2][0][0] == 'ref' and is_int_const(d[2][1]):
            old = eng.load(st, d[2][0][1])
            lo = d[2][1][1]
            eng.write(st, d[2][0][1], T('splice', old, C(lo, 'usize'), C(lo + width, 'usize'), src))
            return C(None, '()')
        return None
    return f


def size_of_val(eng, st, fr, args, fn, site):
    crate = fr.body.crate
    targs = (fn or {}).get('targs') or []
    if targs:
        t = crate.types[targs[0]]
        adt = crate.adts.get(t['s'])
        if adt and 'size' in adt:
            return C(int(adt['size']), 'usize')
        if t.get('k') in ('int', 'uint'):
            return C(t['bits'] // 8, 'usize')
        if t.get('size'):
            return C(int(t['size']), 'usize')
        inner = t['s']
        if inner.startswith('std::mem::MaybeUninit<') or inner.startswith('std::mem::maybe_uninit::MaybeUninit<'):
            a2 = crate.adts.get(inner[inner.index('<') + 1:-1])
            if a2 and 'size' in a2:
                return C(int(a2['size']), 'usize')
    return None


def copy_from_slice(eng, st, fr, args, fn, site):
    d = ptr_term(args[0])
    src = deref(eng, st, ptr_term(args[1]))
    if d[0] == 'ref':
        eng.write(st, d[1], src)
        return C(None, '()')
    if d[0] == 't' and d[1] == 'subslice' and d[2][0][0] == 'ref':
        old = eng.load(st, d[2][0][1])
        eng.write(st, d[2][0][1], T('splice', old, d[2][1], d[2][2], src))
        return C(None, '()')
    return None


def to_bytes(width):
    def f(eng, st, fr, args, fn, site):
        return T('ne_bytes', args[0], width)
    return f


def vec_empty(eng, st, fr, args, fn, site):
    return T('bytes_empty')


def vec_extend(eng, st, fr, args, fn, site):
    d = ptr_term(args[0])
    if d[0] != 'ref':
        return None
    eng.write(st, d[1], T('concat', eng.load(st, d[1]), deref(eng, st, ptr_term(args[1]))))
    return C(None, '()')


def vec_resize(eng, st, fr, args, fn, site):
    d = ptr_term(args[0])
    if d[0] != 'ref':
        return None
    eng.write(st, d[1], T('resize', eng.load(st, d[1]), args[1], args[2]))
    return C(None, '()')


def buf_len(eng, st, fr, args, fn, site):
    n = bytes_len(deref(eng, st, ptr_term(args[0])))
    return C(n, 'usize') if n is not None else None


def same_ptr(eng, st, fr, args, fn, site):
    return args[0]



SUMMARIES = {
    'nix::sys::time::TimeValLike::zero': lambda e, s_, f, a, fn, site: T('ts_nanoseconds', C(0, 'i64')),
    'std::num::<impl u64>::to_le_bytes': to_bytes(8),
    'std::num::<impl u64>::to_be_bytes': lambda e, s_, f, a, fn, site: T('ne_bytes', T('bswap', a[0], 8), 8),
    'std::num::<impl u32>::to_le_bytes': to_bytes(4),
    'std::num::<impl u32>::to_be_bytes': lambda e, s_, f, a, fn, site: T('ne_bytes', T('bswap', a[0], 4), 4),
    'std::num::<impl u16>::to_le_bytes': to_bytes(2),
    'std::num::<impl u16>::to_be_bytes': lambda e, s_, f, a, fn, site: T('ne_bytes', T('bswap', a[0], 2), 2),
    '<byteorder::LittleEndian as byteorder::ByteOrder>::write_u16': byteorder_write(2),
    '<byteorder::LittleEndian as byteorder::ByteOrder>::write_u32': byteorder_write(4),
    '<byteorder::LittleEndian as byteorder::ByteOrder>::write_u64': byteorder_write(8),
    '<byteorder::LittleEndian as byteorder::ByteOrder>::write_i32': byteorder_write(4),
    '<byteorder::LittleEndian as byteorder::ByteOrder>::write_i64': byteorder_write(8),
    '<byteorder::BigEndian as byteorder::ByteOrder>::write_u16': byteorder_write(2, native=False),
    '<byteorder::BigEndian as byteorder::ByteOrder>::write_u32': byteorder_write(4, native=False),
    '<byteorder::BigEndian as byteorder::ByteOrder>::write_u64': byteorder_write(8, native=False),
    '<byteorder::BigEndian as byteorder::ByteOrder>::write_i32': byteorder_write(4, native=False),
    '<byteorder::BigEndian as byteorder::ByteOrder>::write_i64': byteorder_write(8, native=False),
    'std::num::nonzero::NonZero::<T>::new': nonzero_new,
    'std::num::NonZero::<T>::new': nonzero_new,
    'std::num::nonzero::NonZero::<T>::get': lambda e, s_, f, a, fn, site: a[0],
    'std::num::NonZero::<T>::get': lambda e, s_, f, a, fn, site: a[0],
    'std::iter::Iterator::find': _or_else(endless_consume('find'), iter_find),
    'std::mem::size_of_val': size_of_val,
    'nix::sys::time::TimeSpec::from_timespec': ts_from,
    'nix::sys::time::TimeSpec::from_duration': lambda e, s, f, a, fn, site: T('ts_from_duration', a[0]),
    '<nix::sys::time::TimeSpec as nix::sys::time::TimeValLike>::zero': lambda e, s, f, a, fn, site: T('ts_nanoseconds', C(0, 'i64')),
    'nix::sys::time::TimeSpec::zero': lambda e, s, f, a, fn, site: T('ts_nanoseconds', C(0, 'i64')),
    'std::time::Duration::new': lambda e, s, f, a, fn, site: T('dur_new', a[0], a[1]),
    'std::time::Duration::from_nanos': un_val('dur_from_nanos'),
    'std::time::Duration::from_micros': un_val('dur_from_micros'),
    'std::convert::num::<impl std::convert::TryFrom<isize> for usize>::try_from': int_try_from('isize', 'usize'),
    'std::convert::num::<impl std::convert::TryFrom<isize> for u64>::try_from': int_try_from('isize', 'u64'),
    'std::convert::num::<impl std::convert::TryFrom<isize> for u32>::try_from': int_try_from('isize', 'u32'),
    'std::convert::num::<impl std::convert::TryFrom<isize> for u16>::try_from': int_try_from('isize', 'u16'),
    'std::convert::num::<impl std::convert::TryFrom<isize> for i64>::try_from': int_try_from('isize', 'i64'),
    'std::convert::num::<impl std::convert::TryFrom<isize> for i32>::try_from': int_try_from('isize', 'i32'),
    'std::convert::num::<impl std::convert::TryFrom<i64> for usize>::try_from': int_try_from('i64', 'usize'),
    'std::convert::num::<impl std::convert::TryFrom<i64> for u64>::try_from': int_try_from('i64', 'u64'),
    'std::convert::num::<impl std::convert::TryFrom<i64> for u32>::try_from': int_try_from('i64', 'u32'),
    'std::convert::num::<impl std::convert::TryFrom<i64> for u16>::try_from': int_try_from('i64', 'u16'),
    'std::convert::num::<impl std::convert::TryFrom<i64> for i32>::try_from': int_try_from('i64', 'i32'),
    'std::convert::num::<impl std::convert::TryFrom<i64> for isize>::try_from': int_try_from('i64', 'isize'),
    'std::convert::num::<impl std::convert::TryFrom<i32> for usize>::try_from': int_try_from('i32', 'usize'),
    'std::convert::num::<impl std::convert::TryFrom<i32> for u64>::try_from': int_try_from('i32', 'u64'),
    'std::convert::num::<impl std::convert::TryFrom<i32> for u32>::try_from': int_try_from('i32', 'u32'),
    'std::convert::num::<impl std::convert::TryFrom<i32> for u16>::try_from': int_try_from('i32', 'u16'),
    'std::convert::num::<impl std::convert::TryFrom<i32> for i64>::try_from': int_try_from('i32', 'i64'),
    'std::convert::num::<impl std::convert::TryFrom<i32> for isize>::try_from': int_try_from('i32', 'isize'),
    'std::convert::num::<impl std::convert::TryFrom<usize> for u64>::try_from': int_try_from('usize', 'u64'),
    'std::convert::num::<impl std::convert::TryFrom<usize> for u32>::try_from': int_try_from('usize', 'u32'),
    'std::convert::num::<impl std::convert::TryFrom<usize> for u16>::try_from': int_try_from('usize', 'u16'),
    'std::convert::num::<impl std::convert::TryFrom<usize> for i64>::try_from': int_try_from('usize', 'i64'),
    'std::convert::num::<impl std::convert::TryFrom<usize> for i32>::try_from': int_try_from('usize', 'i32'),
    'std::convert::num::<impl std::convert::TryFrom<usize> for isize>::try_from': int_try_from('usize', 'isize'),
    'std::convert::num::<impl std::convert::TryFrom<u64> for usize>::try_from': int_try_from('u64', 'usize'),
    'std::convert::num::<impl std::convert::TryFrom<u64> for u32>::try_from': int_try_from('u64', 'u32'),
    'std::convert::num::<impl std::convert::TryFrom<u64> for u16>::try_from': int_try_from('u64', 'u16'),
    'std::convert::num::<impl std::convert::TryFrom<u64> for i64>::try_from': int_try_from('u64', 'i64'),
    'std::convert::num::<impl std::convert::TryFrom<u64> for i32>::try_from': int_try_from('u64', 'i32'),
    'std::convert::num::<impl std::convert::TryFrom<u64> for isize>::try_from': int_try_from('u64', 'isize'),
    'std::convert::num::<impl std::convert::TryFrom<u32> for usize>::try_from': int_try_from('u32', 'usize'),
    'std::convert::num::<impl std::convert::TryFrom<u32> for u64>::try_from': int_try_from('u32', 'u64'),
    'std::convert::num::<impl std::convert::TryFrom<u32> for u16>::try_from': int_try_from('u32', 'u16'),
    'std::convert::num::<impl std::convert::TryFrom<u32> for i64>::try_from': int_try_from('u32', 'i64'),
    'std::convert::num::<impl std::convert::TryFrom<u32> for i32>::try_from': int_try_from('u32', 'i32'),
    'std::convert::num::<impl std::convert::TryFrom<u32> for isize>::try_from': int_try_from('u32', 'isize'),
    'std::convert::num::<impl std::convert::TryFrom<i128> for usize>::try_from': int_try_from('i128', 'usize'),
    'std::convert::num::<impl std::convert::TryFrom<i128> for u64>::try_from': int_try_from('i128', 'u64'),
    'std::convert::num::<impl std::convert::TryFrom<i128> for u32>::try_from': int_try_from('i128', 'u32'),
    'std::convert::num::<impl std::convert::TryFrom<i128> for u16>::try_from': int_try_from('i128', 'u16'),
    'std::convert::num::<impl std::convert::TryFrom<i128> for i64>::try_from': int_try_from('i128', 'i64'),
    'std::convert::num::<impl std::convert::TryFrom<i128> for i32>::try_from': int_try_from('i128', 'i32'),
    'std::convert::num::<impl std::convert::TryFrom<i128> for isize>::try_from': int_try_from('i128', 'isize'),
    'std::convert::num::<impl std::convert::TryFrom<u128> for usize>::try_from': int_try_from('u128', 'usize'),
    'std::convert::num::<impl std::convert::TryFrom<u128> for u64>::try_from': int_try_from('u128', 'u64'),
    'std::convert::num::<impl std::convert::TryFrom<u128> for u32>::try_from': int_try_from('u128', 'u32'),
    'std::convert::num::<impl std::convert::TryFrom<u128> for u16>::try_from': int_try_from('u128', 'u16'),
    'std::convert::num::<impl std::convert::TryFrom<u128> for i64>::try_from': int_try_from('u128', 'i64'),
    'std::convert::num::<impl std::convert::TryFrom<u128> for i32>::try_from': int_try_from('u128', 'i32'),
    'std::convert::num::<impl std::convert::TryFrom<u128> for isize>::try_from': int_try_from('u128', 'isize'),
    'std::num::<impl i64>::to_ne_bytes': to_bytes(8),
    'std::num::<impl i32>::to_ne_bytes': to_bytes(4),
    'std::num::<impl i16>::to_ne_bytes': to_bytes(2),
    'std::num::<impl u64>::to_ne_bytes': to_bytes(8),
    'std::num::<impl u32>::to_ne_bytes': to_bytes(4),
    'std::num::<impl u16>::to_ne_bytes': to_bytes(2),
    'std::num::<impl u8>::to_ne_bytes': to_bytes(1),
    'std::array::<impl std::ops::IndexMut<I> for [T; N]>::index_mut': buf_index,
    'std::array::<impl std::ops::Index<I> for [T; N]>::index': buf_index,
    'std::slice::index::<impl std::ops::IndexMut<I> for [T]>::index_mut': buf_index,
    'std::slice::index::<impl std::ops::Index<I> for [T]>::index': buf_index,
    '<std::vec::Vec<T, A> as std::ops::IndexMut<I>>::index_mut': buf_index,
    '<std::vec::Vec<T, A> as std::ops::Index<I>>::index': buf_index,
    'std::slice::<impl [T]>::copy_from_slice': copy_from_slice,
    'std::slice::<impl [T]>::get': slice_get,
    'std::slice::<impl [T]>::clone_from_slice': copy_from_slice,
    'std::slice::<impl [T]>::len': buf_len,
    'std::vec::Vec::<T, A>::len': buf_len,
    'std::vec::Vec::<T>::with_capacity': vec_empty,
    'std::vec::Vec::<T>::new': vec_empty,
    'std::vec::Vec::<T, A>::extend_from_slice': vec_extend,
    'std::vec::Vec::<T, A>::resize': vec_resize,
    '<std::vec::Vec<T, A> as std::ops::Deref>::deref': same_ptr,
    '<std::vec::Vec<T, A> as std::ops::DerefMut>::deref_mut': same_ptr,
    'std::vec::Vec::<T, A>::as_slice': same_ptr,
    'std::vec::Vec::<T, A>::as_mut_slice': same_ptr,
    'std::array::<impl [T; N]>::as_slice': same_ptr,
    'std::mem::replace': mem_replace,
    'std::mem::swap': mem_swap,
    'std::option::Option::<T>::take': opt_take,
    'std::option::Option::<T>::replace': opt_replace,
    'std::result::Result::<T, E>::map_err': hof(RES, 'Err', _rb_map_err, structural=True),
    'std::result::Result::<T, E>::map': hof(RES, 'Ok', _rb_map_res, structural=True),
    'std::option::Option::<T>::map_or_else': map_or_else(OPT),
    'std::result::Result::<T, E>::map_or_else': map_or_else(RES),
    'std::option::Option::<T>::map_or': map_or_else(OPT, with_default_fn=False),
    'std::result::Result::<T, E>::map_or': map_or_else(RES, with_default_fn=False),
    'std::option::Option::<T>::zip': opt_zip,
    'std::array::<impl [T; N]>::map': array_map,
    '<&bool as std::ops::Not>::not': ref_bool_not,
    'std::ops::ControlFlow::<B, C>::is_continue': cf_is('Continue'),
    'std::ops::ControlFlow::<B, C>::is_break': cf_is('Break'),
    'std::iter::Iterator::filter': iter_adaptor('iter_filter'),
    'std::iter::Iterator::map': iter_adaptor('iter_map'),
    'std::iter::Iterator::max': iter_consume('max'),
    'std::sync::mpsc::Receiver::<T>::iter': recv_iter,
    "<&'a std::sync::mpsc::Receiver<T> as std::iter::IntoIterator>::into_iter": recv_iter,
    'std::iter::repeat_with': repeat_with,
    'std::iter::sources::repeat_with::repeat_with': repeat_with,
    'std::iter::Iterator::any': _or_else(endless_consume('any'), iter_all_any('any')),
    'std::iter::Iterator::all': _or_else(endless_consume('all'), iter_all_any('all')),
    'std::iter::Iterator::zip': iter_zip,
    'std::num::<impl i32>::is_negative': int_sign_test('Lt'),
    'std::num::<impl i64>::is_negative': int_sign_test('Lt'),
    'std::num::<impl isize>::is_negative': int_sign_test('Lt'),
    'std::num::<impl i32>::is_positive': int_sign_test('Gt'),
    'std::num::<impl isize>::is_positive': int_sign_test('Gt'),
    'std::result::Result::<T, E>::and': result_and,
    'std::ptr::eq': ptr_eq,
    'std::time::Duration::as_secs': lambda e, s_, f, a, fn, site: T('dur_as_secs', deref(e, s_, ptr_term(a[0]))),
    'std::time::Duration::subsec_nanos': lambda e, s_, f, a, fn, site: T('dur_subsec_nanos', deref(e, s_, ptr_term(a[0]))),
    'std::f64::<impl f64>::is_sign_negative': lambda e, s_, f, a, fn, site: T('sign_neg', a[0]),
    'std::f64::<impl f64>::is_sign_positive': lambda e, s_, f, a, fn, site: T('Not', T('sign_neg', a[0])),
    'std::cmp::impls::<impl std::cmp::Ord for usize>::cmp': int_cmp,
    'std::cmp::impls::<impl std::cmp::Ord for isize>::cmp': int_cmp,
    'std::cmp::impls::<impl std::cmp::Ord for u8>::cmp': int_cmp,
    'std::cmp::impls::<impl std::cmp::Ord for u16>::cmp': int_cmp,
    'std::cmp::impls::<impl std::cmp::Ord for u32>::cmp': int_cmp,
    'std::cmp::impls::<impl std::cmp::Ord for u64>::cmp': int_cmp,
    'std::cmp::impls::<impl std::cmp::Ord for i8>::cmp': int_cmp,
    'std::cmp::impls::<impl std::cmp::Ord for i16>::cmp': int_cmp,
    'std::cmp::impls::<impl std::cmp::Ord for i32>::cmp': int_cmp,
    'std::cmp::impls::<impl std::cmp::Ord for i64>::cmp': int_cmp,
    'std::cmp::Ordering::is_ge': ordering_is('Ge'),
    'std::cmp::Ordering::is_gt': ordering_is('Gt'),
    'std::cmp::Ordering::is_le': ordering_is('Le'),
    'std::cmp::Ordering::is_lt': ordering_is('Lt'),
    'std::cmp::Ordering::is_eq': ordering_is('Eq'),
    'std::cmp::Ordering::is_ne': ordering_is('Ne'),
    'std::cmp::impls::<impl std::cmp::PartialEq<&B> for &A>::eq': ref_cmp('Eq'),
    'std::cmp::impls::<impl std::cmp::PartialEq<&B> for &A>::ne': ref_cmp('Ne'),
    'std::iter::Iterator::try_for_each': iter_try_for_each(True),
    'std::iter::Iterator::for_each': iter_try_for_each(False),
    'std::iter::Iterator::min': iter_consume('min'),
    'std::iter::Iterator::last': iter_consume('last'),
    'std::iter::Iterator::count': iter_consume('count'),
    '<std::iter::Filter<I, P> as std::iter::Iterator>::next': iter_consume('next'),
    '<std::iter::Map<I, F> as std::iter::Iterator>::next': iter_consume('next'),
    '<std::iter::adapters::filter::Filter<I, P> as std::iter::Iterator>::next': iter_consume('next'),
    '<std::iter::adapters::map::Map<I, F> as std::iter::Iterator>::next': iter_consume('next'),
    'std::array::iter::<impl std::iter::IntoIterator for [T; N]>::into_iter': array_into_iter,
    'std::slice::<impl [T]>::iter': slice_iter,
    "<std::slice::iter::Iter<'a, T> as std::iter::Iterator>::next": array_iter_next,
    "<std::slice::iter::Iter<'a, T> as std::iter::Iterator>::find": iter_find,
    "<std::slice::Iter<'a, T> as std::iter::Iterator>::next": array_iter_next,
    "<std::slice::Iter<'a, T> as std::iter::Iterator>::find": iter_find,
    '<std::array::IntoIter<T, N> as std::iter::Iterator>::next': array_iter_next,
    '<std::array::iter::IntoIter<T, N> as std::iter::Iterator>::next': array_iter_next,
    'std::option::Option::<T>::or_else': hof(OPT, 'None', _rb_or_else_opt),
    'std::option::Option::<std::result::Result<T, E>>::transpose': opt_transpose,
    'std::option::Option::<T>::filter': opt_filter,
    'std::ptr::non_null::NonNull::<T>::new_unchecked': same_ptr,
    'std::ptr::non_null::NonNull::<T>::new': nonnull_new,
    'std::ptr::non_null::NonNull::<T>::as_ptr': same_ptr,
    'std::ptr::non_null::NonNull::<T>::cast': same_ptr,
    'std::ptr::non_null::NonNull::<T>::as_ref': nonnull_as_ref,
    'std::ptr::non_null::NonNull::<T>::as_mut': nonnull_as_ref,
    'std::ptr::mut_ptr::<impl *mut T>::cast': same_ptr,
    'std::ptr::const_ptr::<impl *const T>::cast': same_ptr,
    'std::ptr::mut_ptr::<impl *mut T>::cast_const': same_ptr,
    'std::ptr::const_ptr::<impl *const T>::cast_mut': same_ptr,
    'std::bool::<impl bool>::then_some': bool_then_some,
    'std::bool::<impl bool>::then': bool_then,
    'std::num::<impl usize>::next_multiple_of': next_multiple_of,
    'std::num::<impl u32>::next_multiple_of': next_multiple_of,
    'std::num::<impl u64>::next_multiple_of': next_multiple_of,
    'std::result::Result::<T, E>::and_then': hof(RES, 'Ok', _rb_and_then_res),
    'std::option::Option::<T>::and_then': hof(OPT, 'Some', _rb_and_then_opt),
    'std::result::Result::<T, E>::or_else': hof(RES, 'Err', _rb_or_else_res),
    'std::result::Result::<T, E>::unwrap_or_else': hof(RES, 'Err', _rb_unwrap_or_else('Err')),
    'std::option::Option::<T>::unwrap_or_else': hof(OPT, 'None', _rb_unwrap_or_else('None')),
    'std::result::Result::<T, E>::unwrap_or': unwrap_or(RES),
    'std::option::Option::<T>::unwrap_or': unwrap_or(OPT),
    'std::option::Option::<&T>::copied': opt_copied,
    'std::option::Option::<&T>::cloned': opt_copied,
    'std::option::Option::<T>::map': hof(OPT, 'Some', _rb_map_opt, structural=True),
    'std::option::Option::<T>::ok_or_else': hof(OPT, 'None', _rb_ok_or_else, structural=True),
    'std::option::Option::<T>::ok_or': ok_or,
    'std::result::Result::<T, E>::ok': res_ok,
    'std::option::Option::<T>::as_ref': opt_as_ref,
    'std::option::Option::<T>::is_some': discr_test(1),
    'std::option::Option::<T>::is_none': discr_test(0),
    'std::result::Result::<T, E>::is_ok': discr_test(0),
    'std::result::Result::<T, E>::is_err': discr_test(1),
    'std::cmp::PartialOrd::lt': cmp_op('lt'),
    'std::cmp::PartialOrd::le': cmp_op('le'),
    'std::cmp::PartialOrd::gt': cmp_op('gt'),
    'std::cmp::PartialOrd::ge': cmp_op('ge'),
    'std::cmp::PartialEq::ne': cmp_op('ne'),
    'std::cmp::PartialEq::eq': enum_eq,
    '<std::time::Duration as std::cmp::PartialOrd>::lt': cmp_op('lt'),
    '<std::time::Duration as std::cmp::PartialOrd>::le': cmp_op('le'),
    '<std::time::Duration as std::cmp::PartialOrd>::gt': cmp_op('gt'),
    '<std::time::Duration as std::cmp::PartialOrd>::ge': cmp_op('ge'),
    '<nix::sys::time::TimeSpec as std::cmp::PartialOrd>::lt': cmp_op('lt'),
    '<nix::sys::time::TimeSpec as std::cmp::PartialOrd>::le': cmp_op('le'),
    '<nix::sys::time::TimeSpec as std::cmp::PartialOrd>::gt': cmp_op('gt'),
    '<nix::sys::time::TimeSpec as std::cmp::PartialOrd>::ge': cmp_op('ge'),
    '<nix::sys::time::TimeSpec as std::cmp::PartialEq>::eq': cmp_op('eq'),
    'std::tuple::<impl std::cmp::Ord for (U, T)>::cmp': tuple_cmp,
    '<std::time::Duration as std::cmp::Ord>::cmp': lambda e, s, f, a, fn, site: T('ts_cmp', deref(e, s, a[0]), deref(e, s, a[1])),
    'std::time::Duration::checked_sub': dur_checked_sub,
    'std::time::Duration::is_zero': dur_is_zero,
    '<nix::sys::time::TimeSpec as std::cmp::Ord>::cmp': lambda e, s, f, a, fn, site: T('ts_cmp', deref(e, s, a[0]), deref(e, s, a[1])),
    '<nix::sys::time::TimeSpec as std::ops::Add>::add': bin_val('ts_add'),
    '<nix::sys::time::TimeSpec as std::ops::Sub>::sub': bin_val('ts_sub'),
    '<nix::sys::time::TimeSpec as std::convert::From<libc::timespec>>::from': ts_from,
    '<nix::sys::time::TimeSpec as std::convert::AsRef<libc::timespec>>::as_ref': ts_as_ref,
    'nix::sys::time::TimeSpec::new': ts_new,
    '<nix::sys::time::TimeSpec as nix::sys::time::TimeValLike>::nanoseconds': un_val('ts_nanoseconds'),
    '<nix::sys::time::TimeSpec as nix::sys::time::TimeValLike>::num_nanoseconds': un_ref('ts_num_nanoseconds'),
    '<nix::sys::time::TimeSpec as nix::sys::time::TimeValLike>::seconds': un_val('ts_seconds'),
    '<nix::sys::time::TimeSpec as nix::sys::time::TimeValLike>::num_seconds': un_ref('ts_num_seconds'),
    '<nix::sys::time::TimeSpec as nix::sys::time::TimeValLike>::milliseconds': un_val('ts_milliseconds'),
    '<nix::sys::time::TimeSpec as nix::sys::time::TimeValLike>::microseconds': un_val('ts_microseconds'),
    'nix::sys::time::TimeSpec::tv_sec': un_ref('ts_tv_sec'),
    'nix::sys::time::TimeSpec::tv_nsec': un_ref('ts_tv_nsec'),
    'std::num::<impl u16>::wrapping_add': wrapping('wadd'),
    'std::num::<impl u16>::wrapping_mul': wrapping('wmul'),
    'std::num::<impl u16>::saturating_add': bin_val('sat_add_u16'),
    'std::num::<impl u16>::saturating_sub': bin_val('sat_sub_u16'),
    'std::num::<impl u16>::abs_diff': bin_val('abs_diff'),
    'std::cmp::min': bin_val('min'),
    'std::cmp::max': bin_val('max'),
    'std::cmp::Ord::min': bin_val('min'),
    'std::cmp::Ord::max': bin_val('max'),
    'std::num::<impl u16>::wrapping_sub': wrapping('wsub'),
    'std::num::<impl u32>::wrapping_mul': wrapping('wmul'),
    'std::num::<impl u32>::wrapping_add': wrapping('wadd'),
    'std::num::<impl u32>::checked_mul': checked('checked_mul'),
    'std::num::<impl u32>::checked_add': checked('checked_add'),
    'std::num::<impl u32>::saturating_mul': checked('saturating_mul'),
    'std::num::<impl u16>::checked_add': checked_add_exact('u16'),
    'std::num::<impl u16>::checked_sub': checked_sub_exact('u16'),
    'std::num::<impl u32>::checked_sub': checked_sub_exact('u32'),
    'std::num::<impl u64>::checked_sub': checked_sub_exact('u64'),
    'std::num::<impl usize>::checked_sub': checked_sub_exact('usize'),
    'std::num::<impl u16>::wrapping_neg': wrapping_neg('u16'),
    'std::num::<impl u32>::wrapping_neg': wrapping_neg('u32'),
    'std::num::<impl u64>::wrapping_neg': wrapping_neg('u64'),
    'std::num::<impl usize>::wrapping_neg': wrapping_neg('usize'),
    'std::num::<impl u16>::trailing_zeros': trailing_zeros('u16'),
    'std::num::<impl u32>::trailing_zeros': trailing_zeros('u32'),
    'std::num::<impl u64>::trailing_zeros': trailing_zeros('u64'),
    'std::num::<impl usize>::trailing_zeros': trailing_zeros('usize'),
    'std::f64::<impl f64>::is_nan': f64_is_nan,
    'std::f64::<impl f64>::to_bits': un_val('f64_to_bits'),
    'std::f64::<impl f64>::from_bits': f64_from_bits,
    'std::num::<impl i64>::checked_add': checked('checked_add'),
    'std::f64::<impl f64>::abs': un_val('abs'),
    'std::f64::<impl f64>::ceil': un_val('ceil'),
    'std::f64::<impl f64>::floor': un_val('floor'),
    'std::f64::<impl f64>::round': un_val('round'),
    'std::f64::<impl f64>::trunc': un_val('trunc'),
    'std::f64::<impl f64>::abs': un_val('abs'),
    'std::f64::<impl f64>::max': bin_val('fmax'),
    'std::f64::<impl f64>::min': bin_val('fmin'),
    'std::f64::<impl f64>::copysign': bin_val('copysign'),
    'std::f64::<impl f64>::mul_add': lambda e, s, f, a, fn, site: T('Add', T('Mul', a[0], a[1]), a[2]),
    'std::f64::<impl f64>::mul_add': lambda e, s, f, a, fn, site: T('Add', T('Mul', a[0], a[1]), a[2]),
    'std::mem::size_of': size_of,
    'std::mem::size_of': size_of,
    'std::boxed::Box::<T>::new': box_new,
    'std::boxed::Box::<T>::new': box_new,
    '<std::result::Result<T, E> as std::ops::Try>::branch': try_branch,
    '<std::option::Option<T> as std::ops::Try>::branch': try_branch,
    '<std::result::Result<T, F> as std::ops::FromResidual<std::result::Result<std::convert::Infallible, E>>>::from_residual': from_residual,
    '<std::option::Option<T> as std::ops::FromResidual<std::option::Option<std::convert::Infallible>>>::from_residual': from_residual,
    '<T as std::convert::Into<U>>::into': conv,
    '<T as std::convert::From<T>>::from': identity,
    '<f64 as std::convert::From<chrony_candm::common::ChronyFloat>>::from': conv,
    'chrony_candm::common::<impl std::convert::From<chrony_candm::common::ChronyFloat> for f64>::from': conv,
    '<f64 as std::convert::From<f32>>::from': conv,
    '<u64 as std::convert::From<u32>>::from': conv,
    'std::time::Duration::from_secs': un_val('dur_from_secs'),
    'std::time::Duration::from_millis': un_val('dur_from_millis'),
    'std::time::Duration::from_secs_f64': un_val('dur_from_secs_f64'),
    'std::time::SystemTime::elapsed': un_ref('systime_elapsed'),
    'std::time::Instant::elapsed': un_ref('instant_elapsed'),
    # `Instant::now() - t` / `Instant::now().duration_since(t)` is what `t.elapsed()` computes
    '<std::time::Instant as std::ops::Sub>::sub': lambda e, s, f, a, fn, site: (
        T('instant_elapsed', a[1]) if (a[0][0] == 't' and a[0][1] == 'call' and a[0][2][0].endswith('Instant::now')) else None),
    'std::time::Instant::duration_since': lambda e, s, f, a, fn, site: (
        T('instant_elapsed', a[1]) if (deref(e, s, a[0])[0] == 't' and deref(e, s, a[0])[1] == 'call' and deref(e, s, a[0])[2][0].endswith('Instant::now')) else None),
    'std::time::Instant::checked_sub': lambda e, s, f, a, fn, site: T('instant_checked_sub', deref(e, s, a[0]), a[1]),
    'std::sync::atomic::Atomic::<u32>::into_inner': into_inner,
}
