"""Arithmetic term domains over PSI values: dependency sets, monomial normal form
(constant x product of factors), sum decomposition, and an interval evaluator used to
discharge overflow/panic obligations under the input ranges a property states."""
import math

from . import psi
from .psi import fmt

I64 = (-(1 << 63), (1 << 63) - 1)
U32 = (0, (1 << 32) - 1)
INT_RANGES_ALL = {'u8': (0, 255), 'u16': (0, 65535), 'u32': (0, (1 << 32) - 1), 'u64': (0, (1 << 64) - 1), 'usize': (0, (1 << 64) - 1),
                  'i8': (-128, 127), 'i16': (-32768, 32767), 'i32': (-(1 << 31), (1 << 31) - 1), 'i64': (-(1 << 63), (1 << 63) - 1),
                  'isize': (-(1 << 63), (1 << 63) - 1)}
INT_RANGES = {'i64': I64, 'u32': U32, 'i32': (-(1 << 31), (1 << 31) - 1), 'u64': (0, (1 << 64) - 1),
              'u16': (0, 65535), 'i128': (-(1 << 127), (1 << 127) - 1), 'usize': (0, (1 << 64) - 1),
              'isize': I64, 'u8': (0, 255), 'i16': (-32768, 32767), 'i8': (-128, 127), 'u128': (0, (1 << 128) - 1)}


def const_num(v):
    """numeric value of a constant term, or None"""
    if v[0] == 'c':
        x = v[1]
        if isinstance(x, int):
            return x
        if isinstance(x, tuple) and x[0] == 'f':
            try:
                return float(x[1])
            except ValueError:
                return None
    return None


def strip_casts(v, record=None):
    """look through int<->float / widening casts and identity conversions"""
    while v[0] == 't' and v[1] in ('cast', 'conv'):
        if record is not None:
            record.append(v)
        v = v[2][0]
    return v


def monomial(v, casts=None):
    """(constant, sorted list of factor terms) for products/quotients; every other term is
    one factor.  Division by a non-constant makes the quotient a single opaque factor."""
    v0 = v
    v = strip_casts(v, casts)
    n = const_num(v)
    if n is not None:
        return float(n), []
    if v[0] == 't' and v[1] == 'Mul':
        c1, f1 = monomial(v[2][0], casts)
        c2, f2 = monomial(v[2][1], casts)
        return c1 * c2, sorted(f1 + f2, key=fmt)
    if v[0] == 't' and v[1] == 'Div':
        d = const_num(strip_casts(v[2][1]))
        if d not in (None, 0):
            c1, f1 = monomial(v[2][0], casts)
            return c1 / d, f1
    return 1.0, [v]


def summands(v):
    """flatten nested Add into a list of (sign, term); Sub flips the sign of its rhs"""
    v1 = v
    if v1[0] == 't' and v1[1] == 'Add':
        return summands(v1[2][0]) + summands(v1[2][1])
    if v1[0] == 't' and v1[1] == 'Sub':
        return summands(v1[2][0]) + [(-s, t) for s, t in summands(v1[2][1])]
    return [(1, v1)]


def deps(v):
    """leaf descriptions (rendered) a value depends on: syms, fields of derefs, call results"""
    out = set()

    def rec(x):
        if x[0] == 'sym':
            out.add(x[1])
            return
        if x[0] == 't':
            if x[1] == 'field':
                base = x[2][0]
                # field chains rooted in a parameter / call result are leaves
                r = base
                while r[0] == 't' and r[1] in ('field', 'as', 'deref'):
                    r = r[2][0]
                if r[0] in ('sym',) or (r[0] == 't' and r[1] == 'call'):
                    out.add(fmt(x))
                    return
            if x[1] == 'call':
                out.add(fmt(x))
                return
            for a in x[2]:
                if isinstance(a, tuple) and a and isinstance(a[0], str) and a[0] in ('c', 'sym', 'agg', 'ref', 't', 'fn'):
                    rec(a)
            return
        if x[0] == 'agg':
            for f in x[3]:
                rec(f)
        if x[0] == 'ref' and x[1][0][0] == 'S':
            rec(x[1][0][1])
    rec(v)
    return out


class Iv:
    """closed interval over the reals (ints exact), None bound = unbounded"""

    def __init__(self, lo, hi):
        self.lo = lo
        self.hi = hi

    def __repr__(self):
        return '[%s, %s]' % (self.lo, self.hi)

    def within(self, rng):
        return self.lo is not None and self.hi is not None and self.lo >= rng[0] and self.hi <= rng[1]

    @staticmethod
    def pt(x):
        return Iv(x, x)


def _mul(a, b):
    cs = [x * y for x in (a.lo, a.hi) for y in (b.lo, b.hi)]
    return Iv(min(cs), max(cs))


class IntervalEval:
    """evaluates a PSI term to an interval given ranges for its leaves.  Every integer
    operation whose result can leave its type, every float->int cast that can leave the
    target type and every TimeSpec operation that can leave the i64 nanosecond range is
    recorded in `problems`."""

    def __init__(self, leaf_range, ty_of=None):
        self.leaf_range = leaf_range      # callable(term) -> Iv or None
        self.problems = []
        self.checked = 0
        self.memo = {}

    def ev(self, v):
        if v in self.memo:
            return self.memo[v]
        r = self._ev(v)
        self.memo[v] = r
        return r

    def need(self, iv, rng, v, what):
        self.checked += 1
        if iv is None or not iv.within(rng):
            self.problems.append((what, iv, fmt(v)[:200]))

    def _ev(self, v):
        lr = self.leaf_range(v)
        if lr is not None:
            return lr
        n = const_num(v)
        if n is not None:
            return Iv.pt(n)
        k = v[0]
        if k == 'c' and isinstance(v[1], tuple) and v[1][0] == 'b' and len(str(v[1][1])) <= 16:
            try:
                return Iv.pt(int.from_bytes(bytes.fromhex(v[1][1]), 'little'))      # a small scalar kept as raw bytes (a niche newtype)
            except ValueError:
                return None
        if k == 'agg':
            # TimeSpec(timespec(s, ns)) constant or wrapper
            if len(v[3]) == 1:
                return self.ev(v[3][0])
            if (v[1].endswith('timespec') or v[1] == 'std::time::Duration') and len(v[3]) == 2:
                s, ns = self.ev(v[3][0]), self.ev(v[3][1])          # (Duration { secs, nanos: Nanoseconds(n) })
                if s and ns:
                    return Iv(s.lo * 10**9 + ns.lo, s.hi * 10**9 + ns.hi)
            return None
        if k != 't':
            return None
        op, a = v[1], v[2]
        if op in ('ts_add', 'ts_sub', 'Add', 'Sub', 'wadd'):
            x, y = self.ev(a[0]), self.ev(a[1])
            if x is None or y is None:
                self.need(None, I64, v, op)
                return None
            r = Iv(x.lo + y.lo, x.hi + y.hi) if op in ('ts_add', 'Add', 'wadd') else Iv(x.lo - y.hi, x.hi - y.lo)
            if op.startswith('ts_'):
                self.need(r, I64, v, 'TimeSpec %s (i64 nanoseconds)' % op)
            elif isinstance(r.lo, int) and isinstance(r.hi, int):
                self.need(r, I64, v, 'integer %s' % op)
            return r
        if op == 'Mul':
            x, y = self.ev(a[0]), self.ev(a[1])
            if x is None or y is None:
                return None
            r = _mul(x, y)
            if all(isinstance(z, int) for z in (x.lo, x.hi, y.lo, y.hi)):
                self.need(r, I64, v, 'integer Mul')
            return r
        if op == 'Div':
            x, y = self.ev(a[0]), self.ev(a[1])
            if x is None or y is None or (y.lo <= 0 <= y.hi):
                return None
            cs = [p / q for p in (x.lo, x.hi) for q in (y.lo, y.hi)]
            return Iv(min(cs), max(cs))
        if op in ('ts_nanoseconds', 'ts_num_nanoseconds'):
            x = self.ev(a[0])
            self.need(x, I64, v, 'TimeSpec %s (i64 nanoseconds)' % op)
            return x
        if op == 'ts_from_duration':
            return self.ev(a[0])
        if op in ('dur_from_nanos', 'dur_from_micros', 'dur_from_millis', 'dur_from_secs'):
            x = self.ev(a[0])
            if x is None:
                return None
            k = {'dur_from_nanos': 1, 'dur_from_micros': 10**3, 'dur_from_millis': 10**6, 'dur_from_secs': 10**9}[op]
            return Iv(x.lo * k, x.hi * k)
        if op == 'dur_new':
            x, y = self.ev(a[0]), self.ev(a[1])
            return None if x is None or y is None else Iv(x.lo * 10**9 + y.lo, x.hi * 10**9 + y.hi)
        if op in ('ts_seconds', 'ts_milliseconds', 'ts_microseconds'):
            # a TimeSpec built from a count of larger units: its value in nanoseconds
            x = self.ev(a[0])
            if x is None:
                return None
            k = {'ts_seconds': 10**9, 'ts_milliseconds': 10**6, 'ts_microseconds': 10**3}[op]
            r = Iv(x.lo * k, x.hi * k)
            self.need(r, I64, v, 'TimeSpec %s (i64 nanoseconds)' % op)
            return r
        if op == 'cast':
            x = self.ev(a[0])
            ck, ty = a[1], a[2]
            if x is None:
                return None
            if ck == 'IntToFloat':
                return Iv(float(x.lo), float(x.hi))
            if ck == 'FloatToInt':
                rng = INT_RANGES.get(ty, I64)
                # `as` saturates, so it cannot panic; but a saturating conversion silently
                # changes the value, which the caller wants to know
                r = Iv(math.floor(x.lo) if x.lo < 0 else math.floor(x.lo), math.ceil(x.hi))
                self.need(r, rng, v, 'float->%s conversion stays exact (no saturation)' % ty)
                return r
            if ck == 'IntToInt':
                rng = INT_RANGES.get(ty, I64)
                self.need(x, rng, v, 'int->%s conversion does not truncate' % ty)
                return x
            return x
        if op == 'conv':
            return self.ev(a[0])
        if op in ('abs',):
            x = self.ev(a[0])
            if x is None:
                return None
            lo = 0 if x.lo <= 0 <= x.hi else min(abs(x.lo), abs(x.hi))
            return Iv(lo, max(abs(x.lo), abs(x.hi)))
        if op in ('ceil', 'floor', 'round', 'trunc'):
            x = self.ev(a[0])
            if x is None:
                return None
            return Iv(math.floor(x.lo), math.ceil(x.hi))
        if op == 'field' and a[1] in ('0', 0):
            # (*ts.as_ref()) : the timespec inside a TimeSpec
            return self.ev(a[0])
        return None


def eval_int(v, env):
    """evaluate a PSI term over integers given values for leaves (env: term -> int);
    returns None when the term contains anything not understood"""
    if v in env:
        return env[v]
    n = const_num(v)
    if isinstance(n, int):
        return n
    if v[0] != 't':
        return None
    op, a = v[1], v[2]
    if op in ('dur_as_secs', 'dur_subsec_nanos', 'dur_as_nanos', 'dur_as_millis', 'dur_as_micros'):
        x = eval_int(a[0], env)          # a Duration valued term stands for its length in nanoseconds
        if x is None or x < 0:
            return None
        return {'dur_as_secs': x // 10**9, 'dur_subsec_nanos': x % 10**9, 'dur_as_nanos': x, 'dur_as_millis': x // 10**6,
                'dur_as_micros': x // 10**3}[op]
    if op in ('cast', 'conv'):
        x = eval_int(a[0], env)
        if x is None:
            return None
        if op == 'cast' and a[1] == 'IntToInt' and a[2] in INT_RANGES:
            lo, hi = INT_RANGES[a[2]]
            span = hi - lo + 1
            return (x - lo) % span + lo
        return x
    if len(a) == 2 and all(isinstance(z, tuple) for z in a):
        x, y = eval_int(a[0], env), eval_int(a[1], env)
        if x is None or y is None:
            return None
        if op in ('Le', 'le'):
            return int(x <= y)
        if op in ('Lt', 'lt'):
            return int(x < y)
        if op in ('Ge', 'ge'):
            return int(x >= y)
        if op in ('Gt', 'gt'):
            return int(x > y)
        if op in ('Eq', 'eq'):
            return int(x == y)
        if op in ('Ne', 'ne'):
            return int(x != y)
        if op == 'BitAnd':
            return x & y
        if op == 'BitOr':
            return x | y
        if op == 'BitXor':
            return x ^ y
        if op == 'Add':
            return x + y
        if op == 'Sub':
            return x - y
        if op == 'Mul':
            return x * y
        if op == 'Rem' and y != 0:
            return x % y
        if op == 'Div' and y != 0:
            return x // y
        if op == 'wadd':
            return (x + y) & 0xffff if True else None
        if op == 'wsub':
            return (x - y) & 0xffff
        if op == 'wmul':
            return (x * y) & 0xffff
        if op in ('Shl', 'ShlUnchecked') and 0 <= y < 128:
            return x << y
        if op in ('Shr', 'ShrUnchecked') and 0 <= y < 128:
            return x >> y
        if op == 'min':
            return min(x, y)
        if op == 'max':
            return max(x, y)
        if op == 'sat_add_u16':
            return min(x + y, 0xffff)
        if op == 'sat_sub_u16':
            return max(x - y, 0)
        if op == 'abs_diff':
            return abs(x - y)
        if op == 'tz':
            return y if x == 0 else (x & -x).bit_length() - 1
    if op == 'BitNot' and len(a) == 2:
        x = eval_int(a[0], env)
        if x is None or a[1] not in INT_RANGES_ALL:
            return None
        lo, hi = INT_RANGES_ALL[a[1]]
        return (~x) & hi if lo == 0 else ~x
    if len(a) == 1 and op == 'Not':
        x = eval_int(a[0], env)
        return None if x is None else int(not x)
    return None


def cond_holds(cond, env):
    """truth of a path condition (term, op, val, site) under env; None if not evaluable"""
    term, op, val, _ = cond
    x = eval_int(term, env)
    if x is None:
        return None
    if op == '==':
        return x == val
    return x not in val


def mentions(v, leaf):
    return any(x == leaf for x in psi.walk(v))


def expand(v):
    """distribute constant multiplication over sums: list of (coefficient, factors)"""
    v = strip_casts(v)
    if v[0] == 't' and v[1] in ('Add', 'Sub'):
        l = expand(v[2][0])
        r = expand(v[2][1])
        if v[1] == 'Sub':
            r = [(-c, f) for c, f in r]
        return l + r
    if v[0] == 't' and v[1] == 'Mul':
        a, b = strip_casts(v[2][0]), strip_casts(v[2][1])
        ca, cb = const_num(a), const_num(b)
        if cb is not None:
            return [(c * cb, f) for c, f in expand(a)]
        if ca is not None:
            return [(c * ca, f) for c, f in expand(b)]
    if v[0] == 't' and v[1] == 'Div':
        d = const_num(strip_casts(v[2][1]))
        if d not in (None, 0):
            return [(c / d, f) for c, f in expand(v[2][0])]
    if v[0] == 't' and v[1] == 'Neg':
        return [(-c, f) for c, f in expand(v[2][0])]
    c, f = monomial(v)
    return [(c, f)]
