"""Parses docs/PROTOCOL.md: the bit diagram (one row = 32 bits) and the
`**Name**: (type)` list of the shared-memory layout into a field table."""
import re

TYPE_SIZE = {'u8': 1, 'u16': 2, 'u32': 4, 'u64': 8, 'i8': 1, 'i16': 2, 'i32': 4, 'i64': 8}


def parse_protocol(text):
    """returns dict(fields=[{'name', 'offset', 'size', 'types'}], total=bytes, status={value: name},
    magic=bytes, path=str)"""
    sec = text[text.index('## Shared Memory Segment Layout'):]
    m = re.search(r'```text\n(.*?)```', sec, re.S)
    if not m:
        raise ValueError('no layout diagram in PROTOCOL.md')
    lines = m.group(1).splitlines()
    fields = []
    off = 0
    group_rows = 0
    group_names = []
    group_cells = None
    for ln in lines:
        if not ln.strip() or ln.lstrip().startswith('0'):
            continue
        if ln.startswith('+-+'):
            # closed separator: flush group
            if group_rows:
                if group_cells and len(group_cells) > 1 and group_rows == 1:
                    for name, bits in group_cells:
                        fields.append({'name': name, 'offset': off, 'size': bits // 8})
                        off += bits // 8
                else:
                    name = ' '.join(n for n in group_names if n)
                    fields.append({'name': name, 'offset': off, 'size': 4 * group_rows})
                    off += 4 * group_rows
            group_rows, group_names, group_cells = 0, [], None
            continue
        if ln.startswith('|'):
            group_rows += 1
            cells = ln.strip().strip('|').split('|')
            named = [(c.strip(), (len(c) + 1) // 2) for c in cells]
            if len(named) > 1:
                group_cells = named
            for c, _ in named:
                if c:
                    group_names.append(c)
            continue
        if ln.startswith('+'):
            t = ln.strip().strip('+').strip()
            if t:
                group_names.append(t)
    total = off
    # the description list
    types = {}
    for m2 in re.finditer(r'\*\*([^*]+)\*\*: \(([^)]*)\)', sec):
        tys = [t.strip() for t in m2.group(2).split(',')]
        types[m2.group(1).strip()] = tys
    for f in fields:
        f['types'] = types.get(f['name'])
    status = {}
    for m3 in re.finditer(r'^(\d+) - (\w+):', sec, re.M):
        status[int(m3.group(1))] = m3.group(2)
    magic = None
    m4 = re.search(r'`((?:0x[0-9A-Fa-f]{2}\s*){8})`', sec)
    if m4:
        magic = bytes(int(x, 16) for x in m4.group(1).split())
    path = None
    m5 = re.search(r'mapped to a file at path `([^`]+)`', text)
    if m5:
        path = m5.group(1)
    return {'fields': fields, 'total': total, 'status': status, 'magic': magic, 'path': path, 'types': types}
