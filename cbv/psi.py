"""PSI: path-sensitive abstract interpretation of MIR over uninterpreted terms.

Values are immutable tuples:
  ('c', v, ty)            constant; v = int | ('f', repr) | ('s', str) | ('b', hex) | None
  ('sym', name)           leaf (parameter, field of a parameter, ...)
  ('agg', ty, variant, fields)   struct / enum variant / tuple / array value
  ('ref', place)          reference or raw pointer to a place
  ('t', op, args)         uninterpreted operation on values
  ('fn', path)            function item / closure
A place is (base, proj): base = ('L', frame, local) | ('S', value) | ('H', n) | ('K', hex, ty)
proj = tuple of ('f', index, name) | ('d', variant).

No concrete execution of /repo code happens: branches on non-constant values fork the
path and record an atom; loops are cut at their back-edge; calls to workspace functions
are inlined up to a depth bound, calls to anything else become an uninterpreted term plus
an entry in the path's effect trace.
"""
from . import mir

MASKS = {8: 0xff, 16: 0xffff, 32: 0xffffffff, 64: 0xffffffffffffffff, 128: (1 << 128) - 1}


class IndexFork(Exception):
    """a known small array is indexed by a value the path does not determine: the state forks on the index"""

    def __init__(self, term, n):
        self.term = term
        self.n = n


class PathLimit(Exception):
    pass


def C(v, ty=''):
    return ('c', v, ty)


def T(op, *args):
    return ('t', op, tuple(args))


def index_key(v):
    """the quantity an index stands for: `usize::from(b)`, `b as usize`, `e as usize` are keyed by b / discr(e), so that the
    fork's atoms read like the `if b` / `match e` they replace"""
    while v[0] == 't' and v[1] in ('cast', 'conv') and len(v[2]) >= 1 and v[2][0][0] in ('t', 'sym'):
        v = v[2][0]
    return v


def _eq_pairs(x):
    """[(a, b), ...] such that x == 0  <=>  all a == b, for the bit-trick spellings of equality: `a ^ b` is zero iff a == b,
    `p | q` is zero iff both are; None when x is not of that shape"""
    if x[0] == 't' and x[1] == 'BitXor':
        return [(x[2][0], x[2][1])]
    if x[0] == 't' and x[1] == 'BitOr':
        l, r = _eq_pairs(x[2][0]), _eq_pairs(x[2][1])
        if l is not None and r is not None:
            return l + r
    return None


def zero_test(l, r):
    """`(a ^ b) == 0` is `a == b`; `(x.0 ^ c0) | (x.1 ^ c1) == 0` is `x == [c0, c1]` when the words are all the elements of x
    in order: returns the (lhs, rhs) of the plain equality, or None"""
    if is_int_const(r) and r[1] == 0:
        x = l
    elif is_int_const(l) and l[1] == 0:
        x = r
    else:
        return None
    pairs = _eq_pairs(x)
    if not pairs:
        return None
    if len(pairs) == 1:
        return pairs[0]
    # element-wise comparison of one array-like value against constants
    norm = []
    for a, b in pairs:
        if is_int_const(a) and not is_int_const(b):
            a, b = b, a
        if not (a[0] == 't' and a[1] == 'field' and is_int_const(b)):
            return None
        norm.append((a[2][0], a[2][1], b))
    base = norm[0][0]
    if any(n[0] != base for n in norm) or [n[1] for n in norm] != list(range(len(norm))):
        return None
    return base, ('agg', 'array', None, tuple(n[2] for n in norm))


def is_const(v):
    return v[0] == 'c'


def is_int_const(v):
    return v[0] == 'c' and isinstance(v[1], int)


class FnInfo(dict):
    """callee description from the fact base, hashable so that function items can sit inside terms"""

    def _key(self):
        r = self.get('resolved') or {}
        return (self.get('path'), r.get('path'), tuple(self.get('targs') or ()))

    def __hash__(self):
        return hash(self._key())

    def __eq__(self, other):
        return isinstance(other, dict) and FnInfo._key(self) == FnInfo._key(FnInfo(other))

    def __ne__(self, other):
        return not self.__eq__(other)


class Frame:
    __slots__ = ('body', 'fid', 'bb', 'dest', 'ret_target', 'visits', 'call_site', 'subst', 'resume')

    def __init__(self, body, fid, bb=0, dest=None, ret_target=None, call_site=None, subst=None):
        self.body = body
        self.fid = fid
        self.bb = bb
        self.dest = dest
        self.ret_target = ret_target
        self.visits = {}
        self.call_site = call_site
        self.subst = subst or {}        # type parameter name -> concrete type string, known from the inlining call site
        self.resume = None              # (bb, statement index): where a state forked inside a block continues

    def copy(self):
        f = Frame(self.body, self.fid, self.bb, self.dest, self.ret_target, self.call_site, self.subst)
        f.visits = dict(self.visits)
        f.resume = self.resume
        return f

    def concrete(self, tix):
        """type string of a type-table entry of this frame's crate, with this frame's type parameters substituted"""
        t = self.body.crate.types[tix]
        if t.get('k') == 'param':
            return self.subst.get(t['s'], t['s'])
        return t['s']


class State:
    def __init__(self):
        self.frames = []
        self.store = {}
        self.conds = []       # list of (term, '==' | '!=', const or tuple of consts, site)
        self.known = {}       # term -> ('eq', n) | ('ne', frozenset)
        self.effects = []     # list of dict(kind, callee, args, site, ...)
        self.trace = []       # (fid, path, bb) visited blocks
        self.next_fid = 0
        self.next_heap = 0
        self.assumed = []     # assertion checks passed over: (term, op, val, site)

    def copy(self):
        s = State()
        s.frames = [f.copy() for f in self.frames]
        s.store = dict(self.store)
        s.conds = list(self.conds)
        s.known = dict(self.known)
        s.effects = list(self.effects)
        s.trace = list(self.trace)
        s.next_fid = self.next_fid
        s.next_heap = self.next_heap
        s.assumed = list(self.assumed)
        return s


class PathResult:
    def __init__(self, kind, state, value=None, where=None):
        self.kind = kind          # 'return' | 'panic' | 'backedge' | 'unreachable' | 'cut'
        self.state = state
        self.value = value
        self.where = where
        self.conds = state.conds
        self.effects = state.effects

    def __repr__(self):
        return '<Path %s %s conds=%d effects=%d>' % (self.kind, fmt(self.value) if self.value else '',
                                                     len(self.conds), len(self.effects))


LOOP_CONTINUE = ('sym', '$loop-continue')      # alternative of a summary: the iteration it stands for goes round again


class Engine:
    def __init__(self, facts, inline_depth=4, max_paths=4000, summaries=None, inline_filter=None,
                 skip_tracing=True, loop_unroll=0, havoc_loops=False, unique_impls=False, havoc_mut_args=True, assume_asserts=True):
        self.facts = facts
        self.inline_depth = inline_depth
        self.max_paths = max_paths
        self.summaries = summaries or {}
        self.inline_filter = inline_filter
        self.skip_tracing = skip_tracing
        self.loop_unroll = loop_unroll
        # havoc_loops: when a loop of the *root* function is entered, everything the loop can change (locals it assigns,
        # memory behind pointers) is forgotten, so that the paths through the body describe an arbitrary iteration and not
        # just the first one (loop-carried state such as a cache filled by an earlier iteration is then unknown)
        self.havoc_loops = havoc_loops
        self.unique_impls = unique_impls
        self.havoc_mut_args = havoc_mut_args
        self.assume_asserts = assume_asserts
        self.havoc_inner = False        # with havoc_loops: also forget the loop-carried locals of loops in inlined callees
        self.cut_cond = None            # callable(state, term, op, val) -> True to end the path here with kind 'cut'
        self.fork_index = 8             # largest constant table whose lookup by an undetermined index forks the state
        self.inlined = set()
        self.opaque = set()

    # ------------------------------------------------------------ places
    def resolve_place(self, st, fr, p):
        cur = (('L', fr.fid, p['l']), ())
        for e in p['proj']:
            k = e['k']
            if k == 'deref':
                v = self.load(st, cur)
                if v[0] == 'ref':
                    cur = v[1]
                else:
                    cur = (('S', v), ())
            elif k == 'field':
                cur = (cur[0], cur[1] + (('f', e['i'], e.get('name')),))
            elif k == 'downcast':
                cur = (cur[0], cur[1] + (('d', e['name']),))
            elif k == 'index':
                iv = self.load(st, (('L', fr.fid, e['local']), ()))
                if not is_int_const(iv):
                    kn = st.known.get(index_key(iv))
                    if kn and kn[0] == 'eq':
                        iv = C(kn[1])
                    elif self.fork_index:
                        # a table lookup `TABLE[i]` with `i` a small finite quantity (a bool or a field-less enum as usize):
                        # one successor state per element, each knowing `i == k`
                        arr = self.load(st, cur)
                        if arr[0] == 'agg' and arr[2] is None and 1 <= len(arr[3]) <= self.fork_index:
                            raise IndexFork(iv, len(arr[3]))
                if is_int_const(iv):
                    cur = (cur[0], cur[1] + (('f', iv[1], None),))
                else:
                    cur = (cur[0], cur[1] + (('x', k),))
            elif k == 'constindex' and not e.get('from_end'):
                cur = (cur[0], cur[1] + (('f', e['offset'], None),))
            else:
                cur = (cur[0], cur[1] + (('x', k),))
        return cur

    def load(self, st, place):
        base, proj = place
        v = None
        for n in range(len(proj), -1, -1):
            key = (base, proj[:n])
            if key in st.store:
                v = self.project(st.store[key], proj[n:])
                break
        if v is None:
            if base[0] == 'S':
                v = self.project(T('deref', base[1]), proj)
            elif base[0] == 'K':
                if len(base) > 3:
                    tyix, crate = base[2]
                    return self.project(self.decode_bytes(base[1], crate.types[tyix], crate, 0, dict(base[3])), proj)
                return self.project(self.decode_const(base[1], base[2]), proj)
            else:
                v = self.project(('sym', 'uninit:%s' % (base,)), proj)
        # fields of this place written separately (`x.f = v` where x itself is an opaque value or memory behind a pointer):
        # a read of the whole place sees them
        if base[0] in ('L', 'S') and len(st.store) < 4000:
            n0 = len(proj)
            subs = [k for k in st.store if k[0] == base and len(k[1]) > n0 and k[1][:n0] == proj]
            if subs:
                for k in sorted(subs, key=lambda k_: len(k_[1])):
                    nv = self.update(v, k[1][n0:], st.store[k])
                    if nv is not None:
                        v = nv
        return v

    def project(self, v, proj):
        for e in proj:
            if e[0] == 'f':
                while v[0] == 't' and v[1] == 'with' and v[2][1] != e[1]:
                    v = v[2][0]
                if v[0] == 't' and v[1] == 'with':
                    v = v[2][3]
                elif v[0] == 'agg' and e[1] < len(v[3]):
                    v = v[3][e[1]]
                elif v[0] == 'ref':
                    pass  # pointer wrappers (Box / Unique / NonNull): same pointer
                else:
                    v = T('field', v, e[2] if e[2] is not None else e[1])
            elif e[0] == 'd':
                if v[0] == 'agg':
                    pass
                else:
                    v = T('as', v, e[1])
            else:
                v = T('proj', v, e[1])
        return v

    def write(self, st, place, v):
        base, proj = place
        # functional update of an enclosing aggregate
        for n in range(len(proj) - 1, -1, -1):
            key = (base, proj[:n])
            if key in st.store:
                pv = st.store[key]
                rest = proj[n:]
                nv = self.update(pv, rest, v)
                if nv is not None and nv[0] == 't' and nv[1] == 'with':
                    break       # kept as a per-field entry; `load` of the whole value overlays it
                if nv is not None:
                    st.store[key] = nv
                    return
                break
        for k in [k for k in st.store if k[0] == base and len(k[1]) > len(proj) and k[1][:len(proj)] == proj]:
            del st.store[k]
        st.store[place] = v

    def update(self, pv, rest, v):
        if not rest:
            return v
        e = rest[0]
        if pv[0] == 'agg' and e[0] == 'f' and e[1] < len(pv[3]):
            inner = self.update(pv[3][e[1]], rest[1:], v)
            if inner is None:
                return None
            f = list(pv[3])
            f[e[1]] = inner
            return ('agg', pv[1], pv[2], tuple(f))
        if pv[0] == 'agg' and e[0] == 'd':
            return self.update(pv, rest[1:], v)
        if e[0] == 'f' and pv[0] != 'ref':
            # a field of a value that is not a known aggregate (the result of an opaque call ...) is overwritten: the whole
            # value becomes `pv with field := v`, so that a later read of the whole value sees the change
            inner = self.update(self.project(pv, (e,)), rest[1:], v)
            if inner is None:
                return None
            return T('with', pv, e[1], e[2], inner)
        return None

    # ------------------------------------------------------------ constants
    def decode_const(self, hexs, tyix_crate):
        """decode the bytes of a promoted / aggregate constant when the type is simple"""
        tyix, crate = tyix_crate
        t = crate.types[tyix]
        return self.decode_bytes(hexs, t, crate)

    def decode_bytes(self, hexs, t, crate, base=0, relocs=None):
        """decode constant bytes by type layout; `relocs` = {absolute offset: fn info} for pointers stored in the constant
        (function-pointer tables), `base` = offset of these bytes inside the whole constant"""
        raw = bytes.fromhex(hexs)
        k = t.get('k')
        if k == 'fnptr' and relocs and base in relocs:
            return ('fn', FnInfo(relocs[base]))
        if k == 'tuple' and 'offsets' in t and len(t['offsets']) == len(t['args']):
            fields = []
            for off, sz, a in zip(t['offsets'], t.get('sizes') or [], t['args']):
                off, sz = int(off), int(sz)
                fields.append(self.decode_bytes(raw[off:off + sz].hex(), crate.types[int(a)], crate, base + off, relocs))
            return ('agg', 'tuple', None, tuple(fields))
        if k == 'array' and t.get('esize') and crate.types[t['inner']].get('k') not in ('int', 'uint'):
            es = int(t['esize'])
            if es > 0 and len(raw) % es == 0:
                inner = crate.types[t['inner']]
                return ('agg', 'array', None, tuple(self.decode_bytes(raw[i:i + es].hex(), inner, crate, base + i, relocs)
                                                    for i in range(0, len(raw), es)))
        if k in ('int', 'uint', 'bool'):
            n = (t.get('bits', 8)) // 8 if k != 'bool' else 1
            val = int.from_bytes(raw[:n], 'little', signed=(k == 'int'))
            return C(val, t['s'])
        if k == 'adt':
            adt = crate.adts.get(t['s'])
            if adt and adt['kind'] == 'enum' and all(not v['fields'] for v in adt['variants']):
                size = adt.get('size', len(raw))
                val = int.from_bytes(raw[:size], 'little')
                for v in adt['variants']:
                    if v.get('discr', v['index']) == val:
                        return ('agg', t['s'], v['name'], ())
            if adt and adt['kind'] == 'enum' and 'tag_off' in adt:
                # a data-carrying enum with a directly encoded tag: the variant is known, payload bytes stay opaque
                to, tsz = int(adt['tag_off']), int(adt['tag_size'])
                val = int.from_bytes(raw[to:to + tsz], 'little')
                for v in adt['variants']:
                    if v.get('discr', v['index']) == val:
                        return ('agg', t['s'], v['name'], tuple(C(('b', raw.hex()), 'payload') for _ in v['fields']))
            if adt and adt['kind'] == 'enum' and 'niche_off' in adt:
                # niche-encoded tag (the tag lives in invalid values of a payload field of the untagged variant)
                to, tsz = int(adt['niche_off']), int(adt['niche_size'])
                val = int.from_bytes(raw[to:to + tsz], 'little')
                lo, hi = int(adt['niche_lo']), int(adt['niche_hi'])
                rel = (val - int(adt['niche_start'])) % (1 << (8 * tsz))
                vi = lo + rel if rel <= hi - lo else int(adt['niche_untagged'])
                for v in adt['variants']:
                    if v['index'] == vi:
                        return ('agg', t['s'], v['name'], tuple(C(('b', raw.hex()), 'payload') for _ in v['fields']))
            if adt and adt['kind'] == 'struct' and 'size' in adt:
                fields = []
                ok = True
                for f in adt['variants'][0]['fields']:
                    if 'offset' not in f or 'size' not in f:
                        ok = False
                        break
                    ft = crate.types[f['ty']]
                    sub = raw[f['offset']:f['offset'] + f['size']]
                    fields.append(self.decode_bytes(sub.hex(), ft, crate, base + f['offset'], relocs))
                if ok:
                    return ('agg', t['s'], adt['variants'][0]['name'], tuple(fields))
        if k == 'array':
            inner = crate.types[t['inner']]
            if inner.get('k') in ('int', 'uint'):
                n = inner['bits'] // 8
                vals = tuple(C(int.from_bytes(raw[i:i + n], 'little', signed=inner['k'] == 'int'), inner['s'])
                             for i in range(0, len(raw), n))
                return ('agg', t['s'], None, vals)
        return C(('b', hexs), t['s'])

    def const(self, fr, o):
        crate = fr.body.crate
        t = crate.types[o['ty']]
        ts = t['s']
        if 'fn' in o:
            return ('fn', FnInfo(o['fn']))
        if ('int' in o or 'bits' in o) and t.get('k') == 'adt':
            # a scalar constant of a single-field struct type (`const V: LayoutVersion = LayoutVersion(1)`)
            adt = crate.adts.get(ts)
            if adt and adt.get('kind') == 'struct' and len(adt['variants']) == 1:
                fs = [f for f in adt['variants'][0]['fields'] if int(f.get('size', 1)) > 0]
                if len(fs) == 1 and len(adt['variants'][0]['fields']) == 1:
                    inner = dict(o, ty=fs[0]['ty'])
                    return ('agg', ts, adt['variants'][0]['name'], (self.const(fr, inner),))
        if 'int' in o:
            return C(int(o['int']), ts)
        if 'float' in o:
            return C(('f', o['float']), ts)
        if 'bits' in o:
            return C(int(o['bits']), ts)
        if 'str' in o:
            return C(('s', o['str']), ts)
        if 'bytes' in o and o.get('mem_relocs') and t.get('k') in ('ref', 'ptr'):
            # a constant wide reference (`const ORIGIN: &CStr`, `&[u8]`, `&str`): pointer word + length word; the pointer
            # leads to other constant bytes
            mr = {int(r['off']): r['bytes'] for r in o['mem_relocs']}
            raw = bytes.fromhex(o['bytes'])
            if 0 in mr and len(raw) in (8, 16):
                start = int.from_bytes(raw[:8], 'little')
                tgt = bytes.fromhex(mr[0])[start:]
                if len(raw) == 16:
                    tgt = tgt[:int.from_bytes(raw[8:16], 'little')]
                return ('ref', (('K', tgt.hex(), (t['inner'], crate)), ()))
        if 'bytes' in o:
            relocs = {int(r['off']): r['fn'] for r in (o.get('relocs') or [])}
            return self.decode_bytes(o['bytes'], t, crate, 0, relocs or None)
        if 'ptr_bytes' in o:
            if t.get('k') in ('ref', 'ptr'):
                rl = tuple(sorted((int(r['off']), FnInfo(r['fn'])) for r in (o.get('relocs') or [])))
                if rl:
                    return ('ref', (('K', o['ptr_bytes'], (t['inner'], crate), rl), ()))
                return ('ref', (('K', o['ptr_bytes'], (t['inner'], crate)), ()))
            return C(('b', o['ptr_bytes']), ts)
        if t.get('k') == 'closure':
            return ('fn', FnInfo({'path': t['def'], 'resolved': {'path': t['def']}}))
        return C(None, ts)

    def operand(self, st, fr, o):
        k = o['k']
        if k in ('copy', 'move'):
            return self.load(st, self.resolve_place(st, fr, o['p']))
        if k == 'const':
            return self.const(fr, o)
        return ('sym', 'op?')

    # ------------------------------------------------------------ rvalues
    def ty_bits(self, tstr):
        for p, b in (('8', 8), ('16', 16), ('32', 32), ('64', 64), ('128', 128), ('size', 64)):
            if tstr.endswith(p) and tstr[0] in 'ui':
                return b, tstr[0] == 'i'
        return None, False

    def wrap(self, n, tstr):
        bits, signed = self.ty_bits(tstr)
        if bits is None:
            return n
        n &= MASKS[bits]
        if signed and n >> (bits - 1):
            n -= 1 << bits
        return n

    def refine(self, st, v):
        """a comparison of a quantity the path has already pinned down (`match x { 2 => .. }` followed by `x != 0`),
        however the comparison term was built (MIR operator, summary of a derived PartialEq ..): its constant value"""
        if v[0] != 't':
            return v
        if v[1] == 'Not' and len(v[2]) == 1:
            x = self.refine(st, v[2][0])
            return C(int(not x[1]), 'bool') if is_int_const(x) else v
        if v[1] in ('Eq', 'Ne', 'Lt', 'Le', 'Gt', 'Ge') and len(v[2]) == 2:
            l_, r_ = v[2]
            for a_, b_, flip in ((l_, r_, False), (r_, l_, True)):
                kn = st.known.get(a_) if not is_int_const(a_) else None
                if kn and is_int_const(b_):
                    if kn[0] == 'eq' and isinstance(kn[1], int):
                        a2 = C(kn[1], b_[2])
                        return self.binop(v[1], b_ if flip else a2, a2 if flip else b_, 'bool')
                    if kn[0] == 'ne' and b_[1] in kn[1] and v[1] in ('Eq', 'Ne'):
                        return C(int(v[1] == 'Ne'), 'bool')
            # parity and small-range knowledge about an unsigned value loaded from an atomic: `x % 2` / `x & 1` is 0 or 1, and
            # `x >= k` holds once every smaller value is excluded (x != 0 and x even => x >= 2)
            def parity_of(x_):
                for t_ in (('t', 'Rem', (x_, C(2, x_[2] if is_int_const(x_) else 'u16'))), ('t', 'BitAnd', (x_, C(1, 'u16')))):
                    for key_, kn_ in st.known.items():
                        if key_[0] == 't' and key_[1] == t_[1] and key_[2][0] == x_ and is_int_const(key_[2][1]) and key_[2][1][1] == t_[2][1][1]:
                            if kn_[0] == 'eq' and kn_[1] in (0, 1):
                                return kn_[1]
                            if kn_[0] == 'ne' and set(kn_[1]) & {0, 1}:
                                rest_ = {0, 1} - set(kn_[1])
                                if len(rest_) == 1:
                                    return rest_.pop()
                        # ... or the comparison `x % 2 == c` itself was branched on
                        if key_[0] == 't' and key_[1] in ('Eq', 'Ne') and len(key_[2]) == 2 and is_int_const(key_[2][1]) and key_[2][1][1] in (0, 1) \
                                and key_[2][0][0] == 't' and key_[2][0][1] == t_[1] and key_[2][0][2][0] == x_ and is_int_const(key_[2][0][2][1]) \
                                and key_[2][0][2][1][1] == t_[2][1][1]:
                            tv_ = True if (kn_[0] == 'eq' and kn_[1] == 1) or (kn_[0] == 'ne' and set(kn_[1]) == {0}) else \
                                False if (kn_[0] == 'eq' and kn_[1] == 0) or (kn_[0] == 'ne' and set(kn_[1]) == {1}) else None
                            if tv_ is not None:
                                holds = tv_ if key_[1] == 'Eq' else not tv_
                                return key_[2][1][1] if holds else 1 - key_[2][1][1]
                return None
            if v[1] in ('Eq', 'Ne') and is_int_const(r_) and r_[1] in (0, 1) and l_[0] == 't' and l_[1] in ('Rem', 'BitAnd') and \
                    is_int_const(l_[2][1]) and l_[2][1][1] == (2 if l_[1] == 'Rem' else 1):
                p_ = parity_of(l_[2][0])
                if p_ is not None:
                    return C(int((p_ == r_[1]) == (v[1] == 'Eq')), 'bool')
            if v[1] in ('Ge', 'Gt') and is_int_const(r_) and 0 < r_[1] <= 16 and l_[0] == 't' and 'Atomic::<u' in fmt(l_)[:80]:
                kmin = r_[1] if v[1] == 'Ge' else r_[1] + 1
                kn = st.known.get(l_)
                excl = set(kn[1]) if kn and kn[0] == 'ne' else set()
                p_ = parity_of(l_)
                if all(c_ in excl or (p_ is not None and c_ % 2 != p_) for c_ in range(kmin)):
                    return C(1, 'bool')
            # an even unsigned value is never the all-ones maximum: `x + 1` does not overflow (checked_add(1) on an even generation)
            if v[1] in ('Gt', 'Ge') and is_int_const(r_) and l_[0] == 't' and l_[1] == 'Add' and len(l_[2]) == 2 and is_int_const(l_[2][1]) and \
                    l_[2][1][1] == 1 and r_[1] in (255, 65535, 4294967295, 18446744073709551615) and v[1] == 'Gt' and parity_of(l_[2][0]) == 0:
                return C(0, 'bool')
            # the path already branched on the same comparison, or on its complement, of the same two terms
            # (`if a == b { return }` ... `debug_assert!(a != b)`)
            comp = {'Eq': 'Ne', 'Ne': 'Eq', 'Lt': 'Ge', 'Ge': 'Lt', 'Le': 'Gt', 'Gt': 'Le'}
            swap = {'Eq': 'Eq', 'Ne': 'Ne', 'Lt': 'Gt', 'Gt': 'Lt', 'Le': 'Ge', 'Ge': 'Le'}
            for op_, a_, b_, neg in ((v[1], l_, r_, False), (swap[v[1]], r_, l_, False), (comp[v[1]], l_, r_, True), (swap[comp[v[1]]], r_, l_, True)):
                kn = st.known.get(('t', op_, (a_, b_)))
                if kn is None:
                    continue
                truth = None
                if kn[0] == 'eq' and kn[1] in (0, 1):
                    truth = bool(kn[1])
                elif kn[0] == 'ne' and set(kn[1]) == {0}:
                    truth = True
                elif kn[0] == 'ne' and set(kn[1]) == {1}:
                    truth = False
                if truth is not None:
                    return C(int(truth != neg), 'bool')
        return v

    def binop(self, op, l, r, tstr):
        base = op.replace('WithOverflow', '').replace('Unchecked', '')
        with_of = op.endswith('WithOverflow')
        if is_int_const(l) and is_int_const(r):
            a, b = l[1], r[1]
            res = None
            if base == 'Add':
                res = a + b
            elif base == 'Sub':
                res = a - b
            elif base == 'Mul':
                res = a * b
            elif base == 'BitAnd':
                res = a & b
            elif base == 'BitOr':
                res = a | b
            elif base == 'BitXor':
                res = a ^ b
            elif base == 'Rem' and b != 0:
                res = abs(a) % abs(b) * (1 if a >= 0 else -1)
            elif base == 'Div' and b != 0:
                res = abs(a) // abs(b) * (1 if (a >= 0) == (b >= 0) else -1)
            elif base == 'Shl':
                res = a << b
            elif base == 'Shr':
                res = a >> b
            elif base in ('Eq', 'Ne', 'Lt', 'Le', 'Gt', 'Ge'):
                res = {'Eq': a == b, 'Ne': a != b, 'Lt': a < b, 'Le': a <= b, 'Gt': a > b, 'Ge': a >= b}[base]
                return C(int(res), 'bool')
            if res is not None:
                lt = l[2]
                w = self.wrap(res, lt)
                if with_of:
                    return ('agg', 'tuple', None, (C(w, lt), C(int(w != res), 'bool')))
                return C(w, lt)
        if base in ('Eq', 'Ne'):
            z = zero_test(l, r)
            if z is not None:
                return T(base, z[0], z[1])
            # `x / c == 0` on an unsigned x is `x < c` (and `!= 0` is `x >= c`)
            for q, zero in ((l, r), (r, l)):
                if is_int_const(zero) and zero[1] == 0 and q[0] == 't' and q[1] == 'Div' and is_int_const(q[2][1]) and \
                        q[2][1][1] > 0 and str(q[2][1][2]).startswith('u'):
                    return T('Lt' if base == 'Eq' else 'Ge', q[2][0], q[2][1])
        v = T(base, l, r)
        if with_of:
            return ('agg', 'tuple', None, (v, C(0, 'bool')))
        return v

    def rvalue(self, st, fr, r, dest_ty):
        k = r['k']
        if k == 'use':
            return self.operand(st, fr, r['op'])
        if k == 'bin':
            l_, r_ = self.operand(st, fr, r['l']), self.operand(st, fr, r['r'])
            if r['op'] in ('Eq', 'Ne', 'Lt', 'Le', 'Gt', 'Ge'):
                # a comparison of a quantity the path has already pinned down (`match x { 2 => .. if x != 0 ..`)
                for a_, b_, flip in ((l_, r_, False), (r_, l_, True)):
                    kn = st.known.get(a_) if not is_int_const(a_) else None
                    if kn and is_int_const(b_):
                        if kn[0] == 'eq' and isinstance(kn[1], int):
                            a2 = C(kn[1], b_[2])
                            return self.binop(r['op'], b_ if flip else a2, a2 if flip else b_, dest_ty)
                        if kn[0] == 'ne' and b_[1] in kn[1] and r['op'] in ('Eq', 'Ne'):
                            return C(int(r['op'] == 'Ne'), 'bool')
            return self.binop(r['op'], l_, r_, dest_ty)
        if k == 'un':
            x = self.operand(st, fr, r['x'])
            if r['op'] == 'Not' and is_int_const(x) and x[2] == 'bool':
                return C(1 - x[1], 'bool')
            if r['op'] == 'Neg' and is_int_const(x):
                return C(-x[1], x[2])
            if r['op'] == 'Not' and dest_ty and (dest_ty in ('usize', 'isize') or (dest_ty[0] in 'ui' and dest_ty[1:].isdigit())):
                if is_int_const(x):
                    return C(self.wrap(~x[1], dest_ty), dest_ty)
                return T('BitNot', x, dest_ty)
            if r['op'] == 'PtrMetadata':
                return T('ptr_metadata', x)
            return T(r['op'], x)
        if k == 'cast':
            x = self.operand(st, fr, r['x'])
            ck = r['ck']
            ty = fr.body.tystr(r['ty'])
            if ck.startswith('Transmute') or ck.startswith('PtrToPtr') or ck.startswith('PointerCoercion') \
                    or ck.startswith('Subtype'):
                return x
            if ck.startswith('IntToInt') and is_int_const(x):
                return C(self.wrap(x[1], ty), ty)
            return T('cast', x, ck.split('(')[0], ty)
        if k in ('ref', 'rawptr'):
            return ('ref', self.resolve_place(st, fr, r['p']))
        if k == 'discr':
            v = self.load(st, self.resolve_place(st, fr, r['p']))
            return self.discr_of(fr.body.crate, v)
        if k == 'agg':
            ops = tuple(self.operand(st, fr, o) for o in r['ops'])
            ak = r['ak']
            if ak == 'adt':
                # S { a: x.a, b: x.b, .. } built from every field of one value x is x (a timespec re-assembled from its parts)
                names = r.get('fields') or []
                # (named fields only: `Action::Update(t.0, t.1, t.2)` built from the parts of a tuple is not that tuple)
                if len(ops) >= 2 and len(names) == len(ops) and all(o[0] == 't' and o[1] == 'field' and str(o[2][1]) == str(nm_)
                                                                     for o, nm_ in zip(ops, names)) and len({o[2][0] for o in ops}) == 1 \
                        and not all(str(nm_).isdigit() for nm_ in names):
                    return ops[0][2][0]
                return ('agg', dest_ty if dest_ty else r['adt'], r['vname'], ops)
            if ak == 'tuple':
                return ('agg', 'tuple', None, ops)
            if ak == 'closure':
                return ('agg', 'closure:' + r['def'], None, ops)
            if ak == 'rawptr':
                return ops[0] if ops else ('sym', 'rawptr')
            return ('agg', ak, None, ops)
        if k == 'repeat':
            import re
            mt = re.match(r'^\[.*; (\d+)\]$', dest_ty or '')
            if mt:
                return T('repeat', self.operand(st, fr, r['op']), C(int(mt.group(1)), 'usize'))
            return T('repeat', self.operand(st, fr, r['op']))
        return ('sym', 'rvalue?%s' % k)

    def discr_of(self, crate, v):
        if v[0] == 'agg' and v[2] is not None:
            adt = self.find_adt(v[1], crate)
            if adt:
                for var in adt['variants']:
                    if var['name'] == v[2]:
                        return C(var.get('discr', var['index']), 'isize')
            # well-known std enums
            std = {'Some': 1, 'None': 0, 'Ok': 0, 'Err': 1, 'Continue': 0, 'Break': 1}
            if v[2] in std:
                return C(std[v[2]], 'isize')
        return T('discr', v)

    def find_adt(self, tystr, crate=None):
        crates = [crate] if crate else []
        crates += [c for c in self.facts.crates if c is not crate]
        for c in crates:
            if tystr in c.adts:
                return c.adts[tystr]
        return None

    # ------------------------------------------------------------ exploration
    def apply_fn(self, st, fr, f, args):
        """apply a function value (fn item or closure) to argument values by a nested exploration of
        its body; returns [(value, [(term, op, val)], effects)] alternatives, or None if the body is unknown.
        The nested exploration continues the caller's effect list, so calls made by the callback (a clock read
        inside an `and_then` closure) are numbered and recorded in order; each alternative carries its full list."""
        body = None
        env = None
        if f[0] == 'fn':
            body = self.facts.body(mir.callee_name(f[1])) or self.facts.body(f[1]['path'])
            if body is None and mir.callee_name(f[1]) == '<T as std::convert::Into<U>>::into':
                return None
            dk = f[1].get('defkind') or ''
            if body is None and dk.startswith('Ctor('):
                # a tuple-struct / tuple-variant constructor used as a function (`.map(FdGuard)`, `.map(Some)`)
                path = f[1]['path']
                if dk.startswith('Ctor(Variant'):
                    ty, var = path.rsplit('::', 1)
                else:
                    ty, var = path, path.rsplit('::', 1)[-1]
                return [(('agg', ty, var, tuple(args)), [], None)]
        elif f[0] == 'agg' and isinstance(f[1], str) and f[1].startswith('closure:'):
            body = self.facts.body(f[1][len('closure:'):])
            env = f
        if body is None and f[0] == 'fn':
            # an external function with a summary (TimeSpec::from, u64::from ...) used as a callback
            nm = mir.callee_name(f[1])
            summ = self.summaries.get(nm) or self.summaries.get(f[1].get('path'))
            if summ is not None:
                r = summ(self, st, fr, list(args), f[1], None)
                if r is None:
                    return None
                if isinstance(r, list):
                    return [(a_[0], list(a_[1]), a_[2] if len(a_) > 2 else None, a_[3] if len(a_) > 3 else None) for a_ in r]
                return [(r, [], None, None)]
        if body is None and f[0] == 'fn' and not args and f[1].get('path'):
            # an external constructor-like function without arguments used as a callback (`map_or_else(String::new, ..)`):
            # an ordinary opaque call
            name = mir.callee_name(f[1])
            n = len(st.effects)
            eff = list(st.effects) + [{'kind': 'call', 'callee': name, 'declared': f[1]['path'], 'args': [], 'site': (fr.body.path, fr.bb, fr.body.where(fr.bb)),
                                       'tracing': False, 'fn': f[1], 'pointees': []}]
            return [(T('call', name, n), [], eff, None)]
        if body is None or self._apply_depth > 3:
            return None
        if f[0] == 'fn' and self.inline_filter is not None and not self.inline_filter(body):
            # a function the analysis keeps opaque, passed as a callback: an ordinary opaque call
            name = body.path
            n = len(st.effects)
            pointees = [self.load(st, a[1]) if a[0] == 'ref' else None for a in args]
            eff = list(st.effects) + [{'kind': 'call', 'callee': name, 'declared': name, 'args': list(args), 'site': (fr.body.path, fr.bb, fr.body.where(fr.bb)),
                                       'tracing': False, 'fn': f[1], 'pointees': pointees}]
            self.opaque.add(name)
            return [(T('call', name, n, *args), [], eff, None)]
        call_args = list(args)
        store = dict(st.store)
        if env is not None:
            if body.local_ty(1).get('k') == 'ref':
                h = ('H', 100000 + st.next_heap)
                st.next_heap += 1
                store[(h, ())] = env
                call_args = [('ref', (h, ()))] + call_args
            else:
                call_args = [env] + call_args
        sub = Engine(self.facts, inline_depth=self.inline_depth, max_paths=400, summaries=self.summaries,
                     inline_filter=self.inline_filter, skip_tracing=self.skip_tracing, unique_impls=self.unique_impls)
        sub._apply_depth = self._apply_depth + 1
        try:
            res = sub.run(body, args=call_args, store=store, fid_base=1000 * (self._apply_depth + 1) + st.next_fid,
                          effects=st.effects)
        except PathLimit:
            return None
        self.inlined |= {body.path} | sub.inlined
        self.opaque |= sub.opaque
        base = 1000 * (self._apply_depth + 1) + st.next_fid
        alts = []
        for p in res:
            if p.kind != 'return':
                continue
            # what the callback left in the store (assignments through captured references), without its own frames
            new_store = {k: v for k, v in p.state.store.items() if not (k[0][0] == 'L' and k[0][1] >= base)}
            alts.append((p.value, [(c[0], c[1], c[2]) for c in p.conds], list(p.effects), new_store))
        return alts or None

    _apply_depth = 0

    def run(self, body, args=None, start_bb=0, store=None, fid_base=0, effects=None):
        """explore all paths of `body`; returns list of PathResult"""
        st = State()
        if effects:
            st.effects = list(effects)
        st.next_fid = fid_base
        fr = Frame(body, st.next_fid, start_bb)
        st.next_fid += 1
        st.frames.append(fr)
        for i in range(1, body.argc + 1):
            nm = body.debug_names.get(i, 'arg%d' % i)
            v = args[i - 1] if args and i - 1 < len(args) and args[i - 1] is not None else ('sym', nm)
            st.store[(('L', fr.fid, i), ())] = v
        if store:
            st.store.update(store)
        results = []
        work = [st]
        while work:
            s = work.pop()
            self.step_until_fork(s, work, results)
            if len(results) + len(work) > self.max_paths:
                raise PathLimit('more than %d paths in %s' % (self.max_paths, body.path))
        return results

    def add_cond(self, st, term, op, val, site):
        """returns False when the new atom contradicts what the path already knows"""
        if term[0] == 't' and term[1] in ('Eq', 'Ne', 'Lt', 'Le', 'Gt', 'Ge', 'Not') and term not in st.known:
            rv = self.refine(st, term)
            if is_int_const(rv):
                # what the path knows already decides this comparison (its complement was branched on, the operands are pinned,
                # parity excludes it): consistent -> nothing new to record, contradictory -> the branch is infeasible
                return (rv[1] == val) if op == '==' else (rv[1] not in val)
        kn = st.known.get(term)
        if op == '==':
            if kn:
                if kn[0] == 'eq' and kn[1] != val:
                    return False
                if kn[0] == 'ne' and val in kn[1]:
                    return False
                if kn[0] == 'eq' and kn[1] == val:
                    return True
            st.known[term] = ('eq', val)
        else:
            vals = frozenset(val)
            if kn:
                if kn[0] == 'eq':
                    return kn[1] not in vals
                vals = vals | kn[1]
            st.known[term] = ('ne', vals)
        st.conds.append((term, op, val, site))
        return True

    def step_until_fork(self, st, work, results):
        while True:
            fr = st.frames[-1]
            body = fr.body
            bb = fr.bb
            blk = body.blocks[bb]
            st.trace.append((fr.fid, body.path, bb))
            first = 0
            if fr.resume is not None:
                if fr.resume[0] == bb:
                    first = fr.resume[1]
                fr.resume = None
            forked = False
            for si, s in enumerate(blk['stmts']):
                if si < first:
                    continue
                if s['k'] == 'assign':
                    dest_ty = body.tystr(s['p']['ty'])
                    try:
                        v = self.rvalue(st, fr, s['r'], dest_ty)
                        pl = self.resolve_place(st, fr, s['p'])
                    except IndexFork as ix:
                        site = (body.path, bb, body.where(bb))
                        for kx in range(ix.n):
                            s2 = st.copy()
                            if self.add_cond(s2, index_key(ix.term), '==', kx, site):
                                s2.frames[-1].resume = (bb, si)
                                work.append(s2)
                        forked = True
                        break
                    if pl[0][0] == 'S' and s['p']['proj'] and s['p']['proj'][0]['k'] == 'deref' and \
                            body.local_ty(s['p']['l']).get('k') == 'ptr' and not mir.in_tracing(s.get('span', blk['tspan'])):
                        # `*raw_ptr = v` / `(*raw_ptr).f = v`: a store into memory behind a raw pointer is an effect like
                        # `raw_ptr.write(v)` (what it addresses is classified by the rules)
                        st.effects.append({'kind': 'store', 'callee': 'place-store', 'ptr': ('ref', pl), 'value': v, 'ty': s['p']['ty'],
                                           'args': [('ref', pl), v], 'site': (body.path, bb, body.where(bb)), 'tracing': False,
                                           'fn': None, 'pointees': [None, None]})
                    self.write(st, pl, v)
                elif s['k'] == 'setdiscr':
                    pass
                elif s['k'] == 'dead':
                    key = (('L', fr.fid, s['l']), ())
                    for k in [k for k in st.store if k[0] == key[0]]:
                        del st.store[k]
            if forked:
                return
            t = blk['term']
            k = t['k']
            site = (body.path, bb, body.where(bb))
            if k == 'goto':
                if not self.goto(st, fr, bb, t['target'], results):
                    return
            elif k == 'switch':
                if self.skip_tracing and mir.in_tracing(blk['tspan']):
                    ip = body.ipdom(bb)
                    if ip is not None:
                        if not self.goto(st, fr, bb, ip, results):
                            return
                        continue
                v = self.refine(st, self.operand(st, fr, t['discr']))
                if is_int_const(v):
                    tgt = t['otherwise']
                    for val, b in t['targets']:
                        if val == v[1]:
                            tgt = b
                            break
                    if not self.goto(st, fr, bb, tgt, results):
                        return
                    continue
                vals = [val for val, _ in t['targets']]
                branches = [(('==', val), b) for val, b in t['targets']] + [(('!=', tuple(vals)), t['otherwise'])]
                # a two-way branch on `discr(x) == k` / `!= k` (what a derived PartialEq against a known variant computes) is
                # the discriminant test itself: record it on discr(x), like the `match` it stands for
                if v[0] == 't' and v[1] in ('Eq', 'Ne') and len(v[2]) == 2 and vals == [0]:
                    for dx, kx in (v[2], v[2][::-1]):
                        if dx[0] == 't' and dx[1] == 'discr' and is_int_const(kx):
                            eq_tgt = t['otherwise'] if v[1] == 'Eq' else t['targets'][0][1]
                            ne_tgt = t['targets'][0][1] if v[1] == 'Eq' else t['otherwise']
                            v = dx
                            branches = [(('==', kx[1]), eq_tgt), (('!=', (kx[1],)), ne_tgt)]
                            break
                # a `match a.cmp(&b)` on integers: each arm is the comparison it stands for (Less = -1, Equal = 0, Greater = 1)
                if v[0] == 't' and v[1] == 'discr' and v[2][0][0] == 't' and v[2][0][1] == 'int_cmp':
                    a_, b_ = v[2][0][2]
                    norm = lambda x_: -1 if x_ in (255, 65535, 4294967295, 18446744073709551615, -1) else x_
                    nb = []
                    left = {-1, 0, 1}
                    ok_ = True
                    for (op_, val_), tgt_ in branches:
                        if op_ == '==':
                            k_ = norm(val_)
                            left.discard(k_)
                            rel = {-1: 'Lt', 0: 'Eq', 1: 'Gt'}.get(k_)
                        else:
                            rest = left
                            if not rest:
                                continue          # (every ordering has its own arm: the `otherwise` edge is unreachable)
                            rel = {frozenset({0, 1}): 'Ge', frozenset({-1, 0}): 'Le', frozenset({-1, 1}): 'Ne', frozenset({-1}): 'Lt',
                                   frozenset({0}): 'Eq', frozenset({1}): 'Gt'}.get(frozenset(rest))
                        if rel is None:
                            ok_ = False
                            break
                        nb.append((T(rel, a_, b_), tgt_))
                    if ok_:
                        live = []
                        for term_, tgt_ in nb:
                            s2 = st.copy()
                            if self.add_cond(s2, term_, '==', 1, site):
                                live.append((s2, tgt_))
                        for s2, tgt_ in live:
                            if self.goto(s2, s2.frames[-1], bb, tgt_, results):
                                work.append(s2)
                        return
                if self.assume_asserts:
                    # `assert!(c)` / `debug_assert!(c)`: the branch that fails the assertion is not a behaviour of the
                    # function the tables describe (whether it can fire is audited where panics matter, C14.M3); the path
                    # continues as if the check were not there, without recording an atom
                    keep = [(ov, b) for ov, b in branches if not mir.is_assert_failure(body, b)]
                    if len(keep) == 1 and len(keep) < len(branches):
                        st.assumed.append((v, keep[0][0][0], keep[0][0][1], site))
                        if not self.goto(st, fr, bb, keep[0][1], results):
                            return
                        continue
                live = []
                for (op, val), b in branches:
                    s2 = st.copy()
                    if self.add_cond(s2, v, op, val, site):
                        # a model may end a path at the moment it learns something (a second message was received: what
                        # follows belongs to the next outcome and is explored from there)
                        if self.cut_cond is not None and self.cut_cond(s2, v, op, val):
                            results.append(PathResult('cut', s2, None, site))
                            continue
                        live.append((s2, b))
                # bool / two-valued discriminants: otherwise after excluding all => dead already handled
                first = True
                for s2, b in live:
                    fr2 = s2.frames[-1]
                    if self.goto(s2, fr2, bb, b, results):
                        work.append(s2)
                return
            elif k == 'return':
                rv = self.load(st, (('L', fr.fid, 0), ()))
                st.frames.pop()
                if not st.frames:
                    results.append(PathResult('return', st, rv, site))
                    return
                # drop callee locals
                for key in [key for key in st.store if key[0][0] == 'L' and key[0][1] == fr.fid]:
                    del st.store[key]
                caller = st.frames[-1]
                self.write(st, fr.dest, rv)
                if fr.ret_target is None:
                    results.append(PathResult('panic', st, None, site))
                    return
                if not self.goto(st, caller, caller.bb, fr.ret_target, results):
                    return
            elif k == 'call':
                if not self.call(st, fr, bb, t, blk, work, results):
                    return
            elif k == 'assert':
                cv = self.operand(st, fr, t['cond'])
                st.effects.append({'kind': 'assert', 'msg': t['msg'], 'cond': cv, 'expected': t['expected'],
                                   'site': site})
                if not self.goto(st, fr, bb, t['target'], results):
                    return
            elif k == 'drop':
                pl = t['p']
                try:
                    dv = self.load(st, self.resolve_place(st, fr, pl))
                except IndexFork:
                    dv = None
                st.effects.append({'kind': 'drop', 'ty': body.tystr(pl['ty']), 'site': site,
                                   'place': mir.fmt_place(body, pl), 'value': dv})
                if not self.goto(st, fr, bb, t['target'], results):
                    return
            elif k == 'unreachable':
                results.append(PathResult('unreachable', st, None, site))
                return
            else:
                results.append(PathResult('panic', st, None, site))
                return

    def goto(self, st, fr, src, tgt, results):
        """move to block tgt; returns False if the path ended (loop back-edge cut)"""
        body = fr.body
        if body.dominates(tgt, src):  # back-edge
            n = fr.visits.get(tgt, 0)
            if n >= self.loop_unroll:
                fr.bb = tgt
                results.append(PathResult('backedge', st, None, (body.path, src, body.where(src))))
                return False
            fr.visits[tgt] = n + 1
        elif self.havoc_loops and (len(st.frames) == 1 or self.havoc_inner) and body.loop_of(tgt) is not None and src not in body.loop_of(tgt):
            mod = body.loop_modified_locals(tgt)
            inner = len(st.frames) > 1
            for key in list(st.store):
                if key[0][0] == 'S':
                    del st.store[key]
                elif key[0][0] == 'L' and key[0][1] == fr.fid and key[0][2] in mod and (key[0][2] > body.argc or inner):
                    if key[1]:
                        del st.store[key]
                    else:
                        st.store[key] = ('sym', 'loop:%s' % body.debug_names.get(key[0][2], '_%d' % key[0][2]))
        fr.bb = tgt
        return True

    # ------------------------------------------------------------ calls
    def call(self, st, fr, bb, t, blk, work, results):
        body = fr.body
        site = (body.path, bb, body.where(bb))
        fv = self.operand(st, fr, t['func'])
        args = [self.operand(st, fr, a) for a in t['args']]
        dest = self.resolve_place(st, fr, t['dest'])
        target = t['target']
        fn = fv[1] if fv[0] == 'fn' else None
        name = mir.callee_name(fn) if fn else 'indirect'
        declared = fn['path'] if fn else 'indirect'
        in_tr = mir.in_tracing(blk['tspan'])

        # 0. `x.into()` resolves to the blanket impl; dispatch to the workspace From impl
        if name == '<T as std::convert::Into<U>>::into' and fn and len(fn.get('targs') or []) >= 2:
            tb = self.find_from_impl(fr.body.crate, fn['targs'][0], fn['targs'][1])
            if tb is not None:
                fn = FnInfo(fn)
                fn['resolved'] = {'path': tb.path}
                fv = ('fn', fn)
                name = tb.path
        # 0b. calling a known closure / fn item through the Fn* traits: dispatch to its body
        if declared in ('std::ops::FnOnce::call_once', 'std::ops::FnMut::call_mut', 'std::ops::Fn::call') and len(args) == 2:
            f = args[0]
            if f[0] == 'ref':
                f = self.load(st, f[1])
            tb = None
            if f[0] == 'agg' and isinstance(f[1], str) and f[1].startswith('closure:'):
                tb = self.facts.body(f[1][len('closure:'):])
            elif f[0] == 'fn':
                tb = self.facts.body(mir.callee_name(f[1])) or self.facts.body(f[1]['path'])
            if tb is not None:
                tup = args[1]
                unpacked = list(tup[3]) if tup[0] == 'agg' else [tup]
                if f[0] == 'agg':
                    env = args[0] if (tb.local_ty(1).get('k') == 'ref') == (args[0][0] == 'ref') else f
                    if tb.local_ty(1).get('k') == 'ref' and args[0][0] != 'ref':
                        h = ('H', 200000 + st.next_heap)
                        st.next_heap += 1
                        st.store[(h, ())] = f
                        env = ('ref', (h, ()))
                    args = [env] + unpacked
                else:
                    args = unpacked
                fn = FnInfo({'path': tb.path, 'resolved': {'path': tb.path}, 'defkind': 'Closure' if f[0] == 'agg' else 'Fn'})
                fv = ('fn', fn)
                name = declared = tb.path
        # 0b'. a call through a function pointer that holds a (capture-less) closure coerced to `fn(..)`
        if fn is None and fv[0] == 'agg' and isinstance(fv[1], str) and fv[1].startswith('closure:'):
            tb = self.facts.body(fv[1][len('closure:'):])
            if tb is not None:
                env = fv
                if tb.local_ty(1).get('k') == 'ref':
                    h = ('H', 200000 + st.next_heap)
                    st.next_heap += 1
                    st.store[(h, ())] = fv
                    env = ('ref', (h, ()))
                args = [env] + list(args)
                fn = FnInfo({'path': tb.path, 'resolved': {'path': tb.path}, 'defkind': 'Closure'})
                fv = ('fn', fn)
                name = declared = tb.path
        # 0b''. a function pointer taken from a constant table that holds a capture-less closure: rustc stores the closure's
        # `FnOnce::call_once` shim there, whose first type argument is the closure type; the pointer is called with the
        # closure's own arguments
        if fn is not None and declared == 'std::ops::FnOnce::call_once' and (fn.get('targs') or []) and \
                not (len(args) == 2 and args[0][0] in ('agg', 'fn', 'ref') and args[1][0] == 'agg' and args[1][1] == 'tuple'):
            t0 = body.crate.types[fn['targs'][0]] if fn['targs'][0] < len(body.crate.types) else {}
            tb = self.facts.body(t0['def']) if t0.get('k') == 'closure' and t0.get('def') else None
            if tb is not None and tb.argc == len(args) + 1:
                env = ('agg', 'closure:' + tb.path, None, ())
                if tb.local_ty(1).get('k') == 'ref':
                    h = ('H', 200000 + st.next_heap)
                    st.next_heap += 1
                    st.store[(h, ())] = env
                    env = ('ref', (h, ()))
                args = [env] + list(args)
                fn = FnInfo({'path': tb.path, 'resolved': {'path': tb.path}, 'defkind': 'Closure'})
                fv = ('fn', fn)
                name = declared = tb.path
        # 0c. a tuple-struct / tuple-variant constructor called as a function (directly or through a fn value)
        if fn and (fn.get('defkind') or '').startswith('Ctor(') and self.facts.body(name) is None:
            path = fn['path']
            ty, var = (path.rsplit('::', 1) if fn['defkind'].startswith('Ctor(Variant') else (path, path.rsplit('::', 1)[-1]))
            return self.finish_call(st, fr, bb, dest, target, ('agg', ty, var, tuple(args)), work, results, site)
        # 1. summaries
        summ = self.summaries.get(name) or self.summaries.get(declared)
        if summ is None and name.startswith('std::convert::num::<impl std::convert::From<') and name.endswith('>::from'):
            summ = self.summaries.get('<T as std::convert::Into<U>>::into')     # lossless integer / float widening
        if summ is None and name.startswith('std::convert::num::') and name.endswith('>::try_from'):
            import re as _re
            mt = _re.search(r'<impl std::convert::TryFrom<(\w+)> for (\w+)>::try_from$', name)
            if mt:
                from .summaries import int_try_from, INT_RANGE
                if mt.group(1) in INT_RANGE and mt.group(2) in INT_RANGE:
                    summ = int_try_from(mt.group(1), mt.group(2))
        if summ is None and not args and name.endswith(' as std::default::Default>::default') and name.startswith('<'):
            # Default of a primitive: zero / false
            prim = name[1:name.index(' as ')]
            from .summaries import INT_RANGE as _IR
            if prim in _IR:
                return self.finish_call(st, fr, bb, dest, target, C(0, prim), work, results, site)
            if prim == 'bool':
                return self.finish_call(st, fr, bb, dest, target, C(0, 'bool'), work, results, site)
            if prim in ('f64', 'f32'):
                return self.finish_call(st, fr, bb, dest, target, C(0.0, prim), work, results, site)
            if prim.startswith('std::option::Option<'):
                return self.finish_call(st, fr, bb, dest, target, ('agg', 'std::option::Option', 'None', ()), work, results, site)
        if summ is not None:
            res = summ(self, st, fr, args, fn, site)
            if res is not None:
                return self.finish_call(st, fr, bb, dest, target, res, work, results, site)

        # 2. inline workspace bodies
        callee_body = None
        if fn and not in_tr:
            callee_body = self.facts.body(name)
            if callee_body is not None and not fn.get('resolved') and callee_body.impl_trait is None and '::' in declared and \
                    callee_body.path == declared:
                # `<P as Trait>::method` / `dyn Trait` where the method has a *provided* body in the trait: the default is
                # what runs only for implementing types that do not override it
                trait_path, meth = declared.rsplit('::', 1)
                impls_ = [im for c_ in self.facts.crates for im in c_.impls if (im.get('trait') or '').split('<')[0] == trait_path.split('<')[0]]
                if impls_:
                    over_ = [im for im in impls_ if any(it['name'] == meth for it in im.get('items', []))]
                    pick = None
                    targs0 = fn.get('targs') or []
                    t0 = fr.body.crate.types[targs0[0]] if targs0 else {}
                    want = fr.subst.get(t0.get('s')) if t0.get('k') == 'param' else (t0.get('s') if t0.get('k') == 'adt' else None)
                    if want is not None:
                        mine = [im for im in over_ if im['self'].split('<')[0] == want.split('<')[0]]
                        pick = mine[0] if mine else 'default'
                    elif not over_:
                        pick = 'default'
                    elif len(impls_) == 1:
                        pick = over_[0]
                    if pick is None:
                        callee_body = None          # several implementations behave differently: the call stays opaque
                        name = declared
                    elif pick != 'default':
                        path_ = [it['path'] for it in pick['items'] if it['name'] == meth][0]
                        callee_body = self.facts.body(path_)
                        name = path_ if callee_body is not None else declared
            if callee_body is None and fr.subst and (fn.get('targs') or []):
                # `<P as Trait>::method` inside a generic function inlined with P known: pick the impl for that type
                t0 = fr.body.crate.types[fn['targs'][0]]
                if t0.get('k') == 'param' and t0['s'] in fr.subst and '::' in declared:
                    trait_path, meth = declared.rsplit('::', 1)
                    want = fr.subst[t0['s']]
                    for cb_ in self.facts.bodies():
                        if cb_.name == meth and cb_.impl_trait == trait_path and cb_.impl_self == want and cb_.defkind != 'Closure':
                            callee_body = cb_
                            name = cb_.path
                            break
            if callee_body is None and args and (fn.get('targs') or []) and '::' in declared and \
                    fr.body.crate.types[fn['targs'][0]].get('k') == 'param' and declared.startswith(('clock_bound', 'clockbound')):
                # a trait method on a type parameter whose receiver *value* is known here (a struct literal captured by a
                # closure, `worker.run(ctx)`): the impl for the type of that value
                rv_ = args[0]
                if rv_[0] == 'ref':
                    rv_ = self.load(st, rv_[1])
                if rv_[0] == 'agg' and rv_[2] is not None and isinstance(rv_[1], str) and not rv_[1].startswith(('closure:', 'std::')):
                    trait_path, meth = declared.rsplit('::', 1)
                    for cb_ in self.facts.bodies():
                        if cb_.name == meth and cb_.impl_trait == trait_path and cb_.defkind != 'Closure' and \
                                (cb_.impl_self or '').split('<')[0] == rv_[1].split('<')[0]:
                            callee_body = cb_
                            name = cb_.path
                            break
            if callee_body is None and self.unique_impls and (fn.get('targs') or []) and '::' in declared and \
                    fr.body.crate.types[fn['targs'][0]].get('k') == 'param' and declared.startswith(fr.body.crate.name + '::'):
                # a workspace trait method called on a type parameter that is not known here: when the trait has exactly
                # one implementation in the (non-test) build, that is the only type the parameter can stand for
                trait_path, meth = declared.rsplit('::', 1)
                cands_ = [cb_ for cb_ in self.facts.bodies() if cb_.name == meth and cb_.impl_trait == trait_path and cb_.defkind != 'Closure']
                if len(cands_) == 1:
                    callee_body = cands_[0]
                    name = callee_body.path
            if callee_body is None and fv[0] == 'fn' and fn.get('defkind') == 'Closure':
                callee_body = self.facts.body(fn['path'])
        if callee_body is not None and callee_body.defkind == 'Closure' and len(args) == 2 and args[1][0] == 'agg' and args[1][1] == 'tuple' \
                and (fn or {}).get('path') in ('std::ops::FnOnce::call_once', 'std::ops::FnMut::call_mut', 'std::ops::Fn::call') \
                and callee_body.argc == 1 + len(args[1][3]):
            # a closure whose value the path does not know (its variable was forgotten at a loop head) but whose body rustc
            # resolved from the type: the "rust-call" convention passes the arguments as one tuple, the body takes them spread
            args = [args[0]] + list(args[1][3])
        if callee_body is not None and len(st.frames) <= self.inline_depth \
                and all(f.body is not callee_body for f in st.frames) \
                and (self.inline_filter is None or self.inline_filter(callee_body)):
            self.inlined.add(callee_body.path)
            st.effects.append({'kind': 'inline', 'callee': callee_body.path, 'args': list(args), 'site': site, 'tracing': False})
            subst = {}
            targs = (fn or {}).get('targs') or []
            # the resolved callee may list its own type arguments; prefer them when they match the generics in number
            rt = ((fn or {}).get('resolved') or {}).get('targs')
            if rt is not None and len(rt) == len(callee_body.generics):
                targs = rt
            if len(targs) == len(callee_body.generics):
                for gname, tix in zip(callee_body.generics, targs):
                    subst[gname] = fr.concrete(tix)
            nf = Frame(callee_body, st.next_fid, 0, dest, target, site, subst)
            st.next_fid += 1
            for i, a in enumerate(args):
                st.store[(('L', nf.fid, i + 1), ())] = a
            st.frames.append(nf)
            return True

        # 2c. `T::default()` inside a generic helper whose T this frame knows to be a primitive integer / bool
        if declared == 'std::default::Default::default' and not args and fn and (fn.get('targs') or []):
            ts_ = fr.concrete(fn['targs'][0])
            if ts_ in ('i8', 'i16', 'i32', 'i64', 'i128', 'isize', 'u8', 'u16', 'u32', 'u64', 'u128', 'usize', 'bool'):
                self.write(st, dest, C(0, ts_))
                if target is None:
                    results.append(PathResult('panic', st, None, site))
                    return False
                return self.goto(st, fr, bb, target, results)

        # 3. opaque
        self.opaque.add(name)
        n = len(st.effects)
        pointees = [self.load(st, a[1]) if a[0] == 'ref' else None for a in args]
        st.effects.append({'kind': 'call', 'callee': name, 'declared': declared, 'args': args, 'site': site,
                           'tracing': in_tr, 'fn': fn, 'pointees': pointees})
        if target is None:
            results.append(PathResult('panic', st, None, site))
            return False
        rv = T('call', name, n, *args)
        # what an opaque callee can reach through a `&mut` / `*mut` argument is unknown afterwards
        if self.havoc_mut_args and not in_tr:
            for i_, (o_, a_) in enumerate(zip(t['args'], args)):
                if a_[0] != 'ref' or o_.get('k') not in ('copy', 'move'):
                    continue
                ty_ = body.crate.types[o_['p']['ty']] if 'ty' in o_['p'] else {}
                if ty_.get('k') in ('ref', 'ptr') and ty_.get('mut') is True and a_[1][0][0] in ('L', 'S', 'H'):
                    for k_ in [k_ for k_ in st.store if k_[0] == a_[1][0] and len(k_[1]) > len(a_[1][1]) and k_[1][:len(a_[1][1])] == a_[1][1]]:
                        del st.store[k_]
                    st.store[a_[1]] = T('after', rv, C(i_, 'usize'))
        self.write(st, dest, rv)
        return self.goto(st, fr, bb, target, results)

    def find_from_impl(self, crate, t_ix, u_ix):
        t, u = crate.types[t_ix]['s'], crate.types[u_ix]['s']
        for b in self.facts.bodies():
            if b.name == 'from' and b.impl_trait == 'std::convert::From' and b.argc == 1:
                if b.crate.tystr(b.locals[0]['ty']).split('::')[-1] == u.split('::')[-1] and \
                        b.crate.tystr(b.locals[1]['ty']).split('::')[-1] == t.split('::')[-1]:
                    return b
        return None

    def finish_call(self, st, fr, bb, dest, target, res, work, results, site):
        """res: a value, or a list of (value, [(term, op, val)]) alternatives"""
        if isinstance(res, list):
            live = []
            for alt in res:
                v, conds = alt[0], alt[1]
                s2 = st.copy()
                if len(alt) > 2 and alt[2] is not None:
                    s2.effects = list(alt[2])
                if len(alt) > 3 and alt[3] is not None:
                    s2.store = dict(alt[3])
                ok = True
                for (term, op, val) in conds:
                    if not self.add_cond(s2, term, op, val, site):
                        ok = False
                        break
                if ok:
                    live.append((s2, v))
            for s2, v in live:
                fr2 = s2.frames[-1]
                if v == LOOP_CONTINUE:
                    # one iteration of a loop that lives inside a std adaptor (`rx.iter().any(..)`) went round
                    results.append(PathResult('backedge', s2, None, site))
                    continue
                self.write(s2, dest, v)
                if target is None:
                    results.append(PathResult('panic', s2, None, site))
                elif self.goto(s2, fr2, bb, target, results):
                    work.append(s2)
            return False
        if target is None:
            results.append(PathResult('panic', st, None, site))
            return False
        self.write(st, dest, res)
        return self.goto(st, fr, bb, target, results)


# ---------------------------------------------------------------- formatting

def fmt(v, depth=0):
    if v is None:
        return 'None'
    k = v[0]
    if k == 'c':
        x = v[1]
        if isinstance(x, tuple):
            return '%s' % (x[1],)
        return '%s' % (x,)
    if k == 'sym':
        return v[1]
    if k == 'agg':
        name = v[2] if v[2] else v[1].split('::')[-1]
        if v[1] != 'tuple' and v[2]:
            name = v[1].split('<')[0].split('::')[-1] + '::' + v[2]
        return '%s(%s)' % (name, ', '.join(fmt(f, depth + 1) for f in v[3]))
    if k == 'ref':
        return '&' + fmt_place(v[1])
    if k == 't':
        if v[1] == 'call':
            return '%s#%s(%s)' % (short(v[2][0]), v[2][1], ', '.join(fmt(a, depth + 1) for a in v[2][2:]))
        if v[1] == 'field':
            return '%s.%s' % (fmt(v[2][0], depth + 1), v[2][1])
        if v[1] == 'deref':
            return '*' + fmt(v[2][0], depth + 1)
        return '%s(%s)' % (v[1], ', '.join(fmt(a, depth + 1) if isinstance(a, tuple) else str(a) for a in v[2]))
    if k == 'fn':
        return 'fn:' + short(mir.callee_name(v[1]) or '?')
    return str(v)


def short(p):
    return p.split('::')[-1] if '<' not in p else p


def fmt_place(pl):
    base, proj = pl
    if base[0] == 'L':
        s = '_%d@%d' % (base[2], base[1])
    elif base[0] == 'S':
        s = '(*%s)' % fmt(base[1])
    elif base[0] == 'K':
        s = 'const:%s' % base[1]
    else:
        s = str(base)
    for e in proj:
        if e[0] == 'f':
            s += '.%s' % (e[2] if e[2] is not None else e[1])
        elif e[0] == 'd':
            s += ' as %s' % e[1]
    return s


def fmt_cond(c):
    term, op, val, site = c
    return '%s %s %s' % (fmt(term), op, val)


def walk(v):
    """iterate over all sub-values of v (pre-order)"""
    yield v
    if v[0] == 'agg':
        for f in v[3]:
            yield from walk(f)
    elif v[0] == 't':
        for a in v[2]:
            if isinstance(a, tuple) and a and isinstance(a[0], str) and a[0] in ('c', 'sym', 'agg', 'ref', 't', 'fn'):
                yield from walk(a)
    elif v[0] == 'ref':
        base = v[1][0]
        if base[0] == 'S':
            yield from walk(base[1])


def leaves(v):
    """set of leaf descriptions a value depends on"""
    out = set()
    for x in walk(v):
        if x[0] == 'sym':
            out.add(x[1])
    return out
