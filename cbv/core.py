"""Check infrastructure: fact extraction (cached per tree hash), obligations, verdicts,
evidence files, replay files, known findings."""
import fcntl
import hashlib
import json
import os
import shutil
import subprocess
import sys
import time

from . import mir

VERIF = os.path.dirname(os.path.dirname(os.path.abspath(__file__)))
REPO = os.environ.get('CBV_REPO', '/repo')
WORK = os.path.join(VERIF, '.work')
DRIVER = os.path.join(VERIF, 'driver', 'target', 'release', 'cbv-mirdump')
EVIDENCE = os.environ.get('CBV_EVIDENCE') or os.path.join(VERIF, 'evidence')
REPLAY = os.path.join(EVIDENCE, 'replay')
KNOWN = os.path.join(VERIF, 'known_findings.json')


class InfraError(Exception):
    pass


def sh(cmd, **kw):
    return subprocess.run(cmd, shell=True, stdout=subprocess.PIPE, stderr=subprocess.STDOUT, text=True, **kw)


def tree_hash(repo=REPO):
    h = hashlib.sha256()
    for root, dirs, files in os.walk(repo):
        dirs[:] = sorted(d for d in dirs if d not in ('target', '.git'))
        for f in sorted(files):
            p = os.path.join(root, f)
            if os.path.islink(p):
                continue
            h.update(os.path.relpath(p, repo).encode())
            try:
                with open(p, 'rb') as fh:
                    h.update(hashlib.sha256(fh.read()).digest())
            except OSError:
                pass
    if os.path.exists(DRIVER):
        with open(DRIVER, 'rb') as fh:
            h.update(hashlib.sha256(fh.read()).digest())
    return h.hexdigest()[:20]


def sysroot():
    r = sh('rustc +nightly --print sysroot')
    return r.stdout.strip()


def ensure_driver():
    src = os.path.join(VERIF, 'driver', 'src', 'main.rs')
    if not os.path.exists(DRIVER) or (os.path.exists(src) and os.path.getmtime(src) > os.path.getmtime(DRIVER)):
        r = sh('cargo build --release --offline', cwd=os.path.join(VERIF, 'driver'))
        if r.returncode != 0 or not os.path.exists(DRIVER):
            raise InfraError('driver build failed:\n' + r.stdout[-3000:])


def extract(profile='dev', repo=REPO, packages=None, tag=None, need=None, features=None):
    if tag is None:
        tag = os.environ.get('CBV_TAG', '')
    base_tag = tag
    if packages:
        # a per-package configuration (no workspace-wide feature unification): its own cache key; the target directory is
        # shared with the workspace build of the same profile so that dependencies are compiled once
        import hashlib as _h
        tag = '-p' + _h.sha1((' '.join(packages) + '|' + (features or '')).encode()).hexdigest()[:8] + tag
    """run the driver over the workspace; returns the directory holding the fact files.
    Cached by content hash of the tree, the driver and the configuration."""
    ensure_driver()
    os.makedirs(WORK, exist_ok=True)
    key = '%s-%s%s' % (tree_hash(repo), profile, tag)
    out = os.path.join(WORK, 'facts', key)
    lock = open(os.path.join(WORK, 'extract-%s%s.lock' % (profile, tag)), 'w')
    fcntl.flock(lock, fcntl.LOCK_EX)
    try:
        if os.path.exists(os.path.join(out, '_ok')):
            return out
        if os.path.exists(out):
            shutil.rmtree(out)
        os.makedirs(out)
        nonce = '%d-%d' % (os.getpid(), int(time.time() * 1000))
        target = os.path.join(WORK, 'target-%s%s' % (profile, base_tag))
        # make cargo re-run the wrapper for workspace members
        for sub in ('debug', 'release'):
            fp = os.path.join(target, sub, '.fingerprint')
            if os.path.isdir(fp):
                for d in os.listdir(fp):
                    if d.startswith(('clock-bound', 'clockbound', 'cbv-')):
                        shutil.rmtree(os.path.join(fp, d), ignore_errors=True)
        env = dict(os.environ)
        env.update({
            'LD_LIBRARY_PATH': os.path.join(sysroot(), 'lib'),
            'RUSTFLAGS': '-Zmir-opt-level=0 -Awarnings',
            'RUSTC_WORKSPACE_WRAPPER': DRIVER,
            'CBV_OUT': out,
            'CBV_NONCE': nonce,
            'CARGO_TARGET_DIR': target,
            'CARGO_NET_OFFLINE': 'true',
        })
        env.pop('RUSTC_WRAPPER', None)
        sel = '--workspace' if not packages else ' '.join('-p ' + p for p in packages)
        if features is not None:
            sel += ' --features %s' % features if features else ''
        cmd = 'cargo +nightly check --offline %s --lib --bins %s' % (sel, '--release' if profile == 'release' else '')
        r = sh(cmd, cwd=repo, env=env)
        if r.returncode != 0:
            shutil.rmtree(out, ignore_errors=True)
            raise InfraError('cargo check failed (tree does not compile?):\n' + r.stdout[-4000:])
        files = [f for f in os.listdir(out) if f.endswith('.json')]
        fresh = 0
        for f in files:
            with open(os.path.join(out, f)) as fh:
                head = fh.read(400)
            if nonce in head:
                fresh += 1
        if need is None:
            need = 6 if not packages else len(packages)
        if fresh < need:
            shutil.rmtree(out, ignore_errors=True)
            raise InfraError('expected %d fresh fact files, found %d (cargo freshness cache?)' % (need, fresh))
        with open(os.path.join(out, '_ok'), 'w') as fh:
            fh.write(nonce)
        # prune old fact dirs
        fdir = os.path.join(WORK, 'facts')
        ds = []
        for d in os.listdir(fdir):
            try:
                ds.append((os.path.getmtime(os.path.join(fdir, d)), d))
            except OSError:
                pass                          # (another process pruned it between the listing and the stat)
        ds.sort()
        for mt, d in ds[:-12]:
            if time.time() - mt > 1800:      # never touch a directory another process may be filling
                shutil.rmtree(os.path.join(fdir, d), ignore_errors=True)
        return out
    finally:
        fcntl.flock(lock, fcntl.LOCK_UN)
        lock.close()


_FIXTURES = {}


def fixture_facts(name, profile='dev'):
    """facts of a positive-control crate under /verif/fixtures (same driver, same flags)"""
    key = (name, profile)
    if key not in _FIXTURES:
        d = extract(profile, repo=os.path.join(VERIF, 'fixtures', name), tag='-fx-' + name, need=1)
        _FIXTURES[key] = mir.Facts(d)
    return _FIXTURES[key]


class FixtureCtx:
    """a Ctx whose fact base is a fixture crate: lets a rule module run unchanged on the control"""

    def __init__(self, name, tier='quick'):
        self.name = name
        self.tier = 'quick'
        self.repo = os.path.join(VERIF, 'fixtures', name)
        self.configs = []
        self.profile = 'dev'

    def facts(self, profile=None):
        return fixture_facts(self.name, 'dev')

    def read(self, rel):
        with open(os.path.join(REPO, rel)) as fh:
            return fh.read()


def run_controls(chk, module, fixture, expected):
    """run `module` on the fixture and require every (rule, key-prefix) in `expected` to be
    reported as a violation there"""
    fctx = FixtureCtx(fixture)
    sub = Check(chk.pid, chk.level, 'quick')
    sub._is_control = True
    try:
        module.run_rules(fctx, sub) if hasattr(module, 'run_rules') else module.run(fctx, sub)
    except InfraError:
        raise
    except Exception as e:       # a crash on the control is a broken rule, not a verdict on /repo
        chk.control('%s:%s' % (fixture, module.__name__.split('.')[-1]), False, 'rule crashed on the fixture: %r' % e)
        return
    bad = [(o['rule'], o['key']) for o in sub.obs if not o['ok']]
    for rule, prefix in expected:
        fired = any(r == rule and k.startswith(prefix) for r, k in bad)
        chk.control('%s:%s:%s' % (fixture, rule, prefix), fired,
                    'expected a violation of %s %s* on fixtures/%s; violations there: %s' % (rule, prefix, fixture, bad[:6]))


def check_lock(repo=REPO):
    """the summaries of external functions are pinned to crate versions; if /repo/Cargo.lock
    moved to a version they were not written against there is no verdict (exit 2)"""
    import re
    from .summaries import PINNED
    try:
        txt = open(os.path.join(repo, 'Cargo.lock')).read()
    except OSError:
        raise InfraError('no Cargo.lock in %s' % repo)
    found = {}
    for m in re.finditer(r'name = "([^"]+)"\nversion = "([^"]+)"', txt):
        found.setdefault(m.group(1), set()).add(m.group(2))
    for crate, allowed in PINNED.items():
        for v in found.get(crate, ()):
            if allowed and not any(v == a or (a.endswith('.') and v.startswith(a)) for a in allowed):
                raise InfraError('cbv/summaries.py was written against %s %s but Cargo.lock has %s: re-validate the summaries' % (crate, allowed, v))


class Ctx:
    """what a rule module gets: lazily extracted fact bases"""

    def __init__(self, tier='quick', repo=REPO, profile='dev'):
        self.tier = tier
        self.repo = repo
        self.profile = profile
        self._facts = {}
        self.configs = []

    def facts(self, profile=None):
        profile = profile or self.profile
        if not self._facts:
            check_lock(self.repo)
        if profile not in self._facts:
            d = extract(profile, self.repo)
            self._facts[profile] = mir.Facts(d)
            self.configs.append('%s profile: cargo +nightly check --workspace --lib --bins%s, -Zmir-opt-level=0' %
                                (profile, ' --release' if profile == 'release' else ''))
        return self._facts[profile]

    def read(self, rel):
        with open(os.path.join(self.repo, rel)) as fh:
            return fh.read()

    def facts_for(self, packages, features=None, profile=None):
        """fact base of a per-package build (`cargo check -p ...`): the configuration a component is really shipped in,
        without the feature unification of a whole-workspace build"""
        profile = profile or self.profile
        key = (profile, tuple(packages), features)
        if key not in self._facts:
            d = extract(profile, self.repo, packages=list(packages), need=1, features=features)
            self._facts[key] = mir.Facts(d)
            self.configs.append('%s profile: cargo +nightly check %s%s --lib --bins, -Zmir-opt-level=0' % (
                profile, ' '.join('-p ' + p for p in packages), ' --features ' + features if features else ''))
        return self._facts[key]


class Check:
    """collects obligations for one property"""

    def __init__(self, pid, level, tier):
        self.pid = pid
        self.level = level
        self.tier = tier
        self.obs = []
        self.controls = []
        self.tables = {}
        self.analysed = {'functions': set(), 'call_sites': 0, 'paths': 0}
        self.assumptions = []
        self.not_decided = []
        self.explanation = ''
        self.trusted = []
        self.suffix = ''
        self.t0 = time.time()

    def ob(self, rule, key, ok, where='', detail='', nontrivial=True, data=None):
        """record an obligation. key is stable (no line numbers)."""
        key = key + self.suffix
        rec = {'rule': rule, 'key': key, 'ok': bool(ok), 'where': where, 'detail': detail,
               'nontrivial': nontrivial, 'data': data}
        for i, o in enumerate(self.obs):
            if o['rule'] == rule and o['key'] == key:
                if o['ok'] and not ok:
                    self.obs[i] = rec      # a failing instance wins over a passing one
                elif o['ok'] and ok and nontrivial and not o['nontrivial']:
                    self.obs[i] = rec      # among passing instances one that matched a construct wins
                return bool(ok)
        self.obs.append(rec)
        return bool(ok)

    def missing(self, rule, what):
        """fail closed: an anchor the rule needs was not found"""
        return self.ob(rule, '%s:anchor-missing' % what, False, '', 'anchor not found: %s' % what)

    def floor(self, rule, what, count, minimum):
        return self.ob(rule, 'floor:%s' % what, count >= minimum, '',
                       '%s: found %d, need >= %d (non-vacuity floor)' % (what, count, minimum), nontrivial=False)

    def control(self, name, fired, detail=''):
        """positive control: the rule must fire on a deliberately broken fixture"""
        self.controls.append({'name': name, 'fired': bool(fired), 'detail': detail})
        return self.ob('control', 'control:%s' % name, fired, '',
                       'positive control %s %s' % (name, 'fired' if fired else 'DID NOT FIRE: ' + detail),
                       nontrivial=False)

    def saw(self, body):
        if body is not None:
            self.analysed['functions'].add(body.path if hasattr(body, 'path') else str(body))

    def finish(self, ctx):
        known = load_known()
        open_keys = {(k['property'], k['rule'], k['key']): k for k in known.get('open', [])}
        violations = []
        known_hit = []
        for o in self.obs:
            if o['ok']:
                continue
            kk = (self.pid, o['rule'], o['key'])
            if kk in open_keys:
                known_hit.append((o, open_keys[kk]))
            else:
                violations.append(o)
        os.makedirs(REPLAY, exist_ok=True)
        # remove stale replays of this property
        for f in os.listdir(REPLAY):
            if f.startswith(self.pid + '-'):
                os.remove(os.path.join(REPLAY, f))
        lines = []
        for o, k in known_hit:
            lines.append('KNOWN-FINDING: property=%s %s [%s %s] %s' % (self.pid, k.get('what', ''), o['rule'], o['key'], o['where']))
        for o in violations:
            hid = hashlib.sha256(('%s|%s|%s' % (self.pid, o['rule'], o['key'])).encode()).hexdigest()[:10]
            path = os.path.join(REPLAY, '%s-%s.json' % (self.pid, hid))
            with open(path, 'w') as fh:
                json.dump({'property': self.pid, 'rule': o['rule'], 'key': o['key'], 'where': o['where'],
                           'detail': o['detail'], 'data': o['data'], 'tier': self.tier,
                           'how_to_replay': './cbv.py explain %s' % path}, fh, indent=1, default=str)
            lines.append('VIOLATION property=%s replay=%s' % (self.pid, path))
            lines.append('  rule=%s key=%s at %s: %s' % (o['rule'], o['key'], o['where'], o['detail']))
        n_ob = len(self.obs)
        n_ok = sum(1 for o in self.obs if o['ok'])
        nontriv = len({(o['rule'], o['key']) for o in self.obs if o['nontrivial']})
        samples = []
        seen_rules = set()
        for o in self.obs:
            if o['rule'] not in seen_rules and o['nontrivial']:
                seen_rules.add(o['rule'])
                samples.append({'rule': o['rule'], 'key': o['key'], 'where': o['where'],
                                'verdict': 'ok' if o['ok'] else 'VIOLATED', 'detail': o['detail'][:400]})
        cov = {
            'explanation': self.explanation,
            'obligations': n_ob,
            'discharged': n_ok,
            'evaluations': n_ob,
            'distinct_nontrivial': nontriv,
            'rule': 'one evaluation = one obligation (rule instance on a construct of /repo, keyed without line '
                    'numbers); non-trivial = matched a real construct in /repo (not a floor, not a fixture control)',
            'samples': samples[:12],
            'configurations': ctx.configs,
            'functions_analysed': sorted(self.analysed['functions']),
            'paths_explored': self.analysed['paths'],
            'call_sites_visited': self.analysed['call_sites'],
            'positive_controls': self.controls,
            'tables': self.tables,
            'not_decided': self.not_decided,
            'all_obligations': [{'rule': o['rule'], 'key': o['key'], 'where': o['where'], 'ok': o['ok']} for o in self.obs],
            'known_findings_matched': [o['key'] for o, _ in known_hit],
        }
        if self.level == 'proof':
            cov['checker_cmd'] = './cbv.py check %s --tier %s' % (self.pid, self.tier)
            cov['trusted_base'] = self.trusted or TRUSTED
            cov['exhaustive'] = bool(getattr(self, 'exhaustive', False))
        ev = {
            'property_id': self.pid,
            'tier': self.tier,
            'seed': int(os.environ.get('VERIF_SEED', '0') or 0),
            'level': self.level,
            'coverage': cov,
            'assumptions': self.assumptions,
            'wall_s': round(time.time() - self.t0, 2),
            'violations': len(violations),
        }
        os.makedirs(EVIDENCE, exist_ok=True)
        with open(os.path.join(EVIDENCE, '%s.json' % self.pid), 'w') as fh:
            json.dump(ev, fh, indent=1, default=str)
        print('%s tier=%s: %d obligations, %d discharged, %d non-trivial, %d violation(s), %d known finding(s); '
              '%d functions, %d paths' % (self.pid, self.tier, n_ob, n_ok, nontriv, len(violations), len(known_hit),
                                          len(self.analysed['functions']), self.analysed['paths']))
        for ln in lines:
            print(ln)
        return 1 if violations else 0


TRUSTED = [
    "rustc's MIR construction, callee resolution (Instance::try_resolve) and constant evaluation",
    'cbv-mirdump serialisation of MIR facts',
    'the Python analyses under /verif/cbv (CFG, dominators, PSI, term domains)',
    'cbv/summaries.py: semantics of external functions, pinned to Cargo.lock versions',
]


def load_known():
    if os.path.exists(KNOWN):
        with open(KNOWN) as fh:
            return json.load(fh)
    return {'open': [], 'fixed': []}
