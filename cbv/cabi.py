"""C facts from clang (parse only; nothing is compiled to code or run): enumerator values,
record layouts and prototypes of clock-bound-ffi/include/clockbound.h."""
import json
import os
import re
import subprocess
import tempfile


class CFacts:
    def __init__(self, header):
        self.header = header
        self.enums = {}     # name -> [(enumerator, value)]
        self.records = {}   # name -> {'size':, 'align':, 'fields': [(name, type, offset)]}
        self.funcs = {}     # name -> {'ret': type, 'params': [(name, type)]}
        self.macros = {}
        self.ok = False
        self.error = None
        try:
            self._load()
            self.ok = True
        except Exception as e:      # noqa
            self.error = str(e)

    def _load(self):
        d = tempfile.mkdtemp(prefix='cbv-cabi-')
        tu = os.path.join(d, 'tu.c')
        try:
            with open(tu, 'w') as fh:
                fh.write('#include "%s"\n' % self.header)
            r = subprocess.run(['clang', '-fsyntax-only', '-Xclang', '-ast-dump=json', tu], stdout=subprocess.PIPE,
                               stderr=subprocess.PIPE, text=True)
            if r.returncode != 0:
                raise RuntimeError('clang cannot parse the header: ' + r.stderr[-400:])
            ast = json.loads(r.stdout)
            recs = []
            for n in ast['inner']:
                k = n.get('kind')
                nm = n.get('name', '')
                if not nm.startswith('clockbound'):
                    continue
                if k == 'EnumDecl':
                    vals = []
                    cur = -1
                    for c in n.get('inner', []):
                        if c['kind'] != 'EnumConstantDecl':
                            continue
                        v = None
                        for e in c.get('inner', []):
                            v = _const_value(e)
                        cur = v if v is not None else cur + 1
                        vals.append((c['name'], cur))
                    self.enums[nm] = vals
                elif k == 'RecordDecl' and n.get('completeDefinition'):
                    recs.append(nm)
                    self.records[nm] = {'fields': [(c['name'], c['type']['qualType']) for c in n.get('inner', []) if c['kind'] == 'FieldDecl']}
                elif k == 'FunctionDecl':
                    qt = n['type']['qualType']
                    self.funcs[nm] = {'type': qt, 'ret': qt[:qt.index('(')].strip(),
                                      'params': [(c.get('name'), c['type']['qualType']) for c in n.get('inner', []) if c['kind'] == 'ParmVarDecl']}
            with open(tu, 'a') as fh:
                for i, rname in enumerate(recs):
                    fh.write('unsigned long cbv_sz_%d = sizeof(struct %s);\n' % (i, rname))
                for i, ename in enumerate(self.enums):
                    fh.write('unsigned long cbv_esz_%d = sizeof(enum %s);\n' % (i, ename))
                fh.write('unsigned long cbv_ts = sizeof(struct timespec);\n')
            r = subprocess.run(['clang', '-fsyntax-only', '-Xclang', '-fdump-record-layouts', tu], stdout=subprocess.PIPE,
                               stderr=subprocess.STDOUT, text=True)
            cur = None
            depth0 = None
            for line in r.stdout.splitlines():
                m = re.match(r'\s+(\d+) \| (struct|union) (\w+)\s*$', line)
                if m and m.group(1) == '0' and line.index('|') + 2 == line.index(m.group(2)):
                    cur = m.group(3)
                    self.records.setdefault(cur, {'fields': []})
                    self.records[cur]['layout'] = []
                    continue
                m = re.match(r'\s+(\d+) \|   (\S.*\S) (\w+)\s*$', line)
                if m and cur:
                    self.records[cur]['layout'].append((m.group(3), m.group(2), int(m.group(1))))
                    continue
                m = re.match(r'\s+\| \[sizeof=(\d+), align=(\d+)', line)
                if m and cur:
                    self.records[cur]['size'] = int(m.group(1))
                    self.records[cur]['align'] = int(m.group(2))
                    cur = None
            # enum sizes: int unless told otherwise (C11 6.7.2.2; clang uses unsigned int / int = 4)
            r = subprocess.run(['clang', '-dM', '-E', tu], stdout=subprocess.PIPE, stderr=subprocess.PIPE, text=True)
            for line in r.stdout.splitlines():
                m = re.match(r'#define (CLOCKBOUND\w+) (.*)', line)
                if m:
                    self.macros[m.group(1)] = m.group(2).strip()
        finally:
            for f in os.listdir(d):
                os.remove(os.path.join(d, f))
            os.rmdir(d)


def _const_value(e):
    if e.get('kind') == 'ConstantExpr' and 'value' in e:
        return int(e['value'])
    if e.get('kind') == 'IntegerLiteral' and 'value' in e:
        return int(e['value'])
    for c in e.get('inner', []):
        v = _const_value(c)
        if v is not None:
            return v
    return None
