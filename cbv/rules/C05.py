"""C05 Client interval shape: term analyses on the (earliest, latest) values PSI extracts
from now(): symmetry around the REALTIME reading, dependency set, linear form of the
half-width, unit scale, conversion kind; pass-through in both client wrappers."""
from .. import psi, arith
from ..psi import fmt, T
from . import common, wrappers_model
from .client_model import ClientModel

LEVEL = 'other'


def unwrap_ts(v):
    """strip `(*x.as_ref())` (field 0 of the TimeSpec newtype) and TimeSpec(..) wrappers"""
    while True:
        if v[0] == 't' and v[1] == 'field' and v[2][1] in ('0', 0):
            v = v[2][0]
            continue
        return v


def ts_inner(v):
    if v[0] == 'agg' and v[1].endswith('TimeSpec') and len(v[3]) == 1:
        return v[3][0]
    return v


def run(ctx, chk):
    fb = ctx.facts()
    chk.explanation = ('Shape of the interval formula as a term over the record fields and the two clock readings: '
                       'earliest/latest = real -/+ ub with the same nodes (E1); dependency set of ub (E2); ub = bound + '
                       'int(age_ns x drift x 1e-9) with the full-nanosecond age selected by the causality table (E3); '
                       'unit scale ns (E4); truncating/ceil float->i64 conversion, no narrowing (E5); both client '
                       'wrappers pass the tuple through unswapped (E6). NOT decided: <= 1 ns closeness of the f64 product.')
    chk.not_decided = ['floating-point exactness of age*drift (R clause)']
    chk.assumptions = ['stored bound >= 0']
    m = ClientModel(fb, chk, 'C05.E1')
    if not m.ok:
        return
    # ---- E8 precision: age x drift is formed in double precision. A single-precision value on the way (an `as f32`, an f32
    # helper, Duration::mul_f32) carries a 24-bit mantissa and rounds to nearest: for ages of minutes and drift rates above
    # 1 ppm the half-width comes out below bound + drift x age.
    n_float, narrow = common.single_precision_sites(fb, m.body, (common.SHM,))
    chk.analysed['call_sites'] += n_float
    chk.ob('C05.E8', 'now:computed-in-double-precision', not narrow, narrow[0][2] if narrow else m.body.where(0),
           'single-precision values in now() and what it calls: %s' % (
               [(a.split('::')[-1], w) for a, _, w in narrow][:4] or 'none (%d float assignments seen, all f64)' % n_float))
    chk.floor('C05.E8', 'float assignments in now()', n_float, 2)
    n_ok = 0
    for info in m.infos:
        p = info['path']
        if p.kind != 'return' or p.value[0] != 'agg' or p.value[2] != 'Ok':
            continue
        tup = p.value[3][0]
        if tup[0] != 'agg' or len(tup[3]) != 3:
            continue
        n_ok += 1
        where = p.where[2]
        e, l = unwrap_ts(tup[3][0]), unwrap_ts(tup[3][1])
        real = info['real']
        mono = info['mono']
        # ---- E1
        ok_shape = e[0] == 't' and l[0] == 't' and e[1] == 'ts_sub' and l[1] == 'ts_add'
        if not ok_shape:
            chk.ob('C05.E1', 'now:interval-shape', False, where,
                   'earliest/latest are not (centre - ub, centre + ub): earliest=%s latest=%s' % (fmt(e)[:150], fmt(l)[:150]))
            continue
        ce, ue = e[2]
        la, lb = l[2]
        # ts_add commutes
        if ts_inner(la) == ts_inner(ce):
            cl, ul = la, lb
        else:
            cl, ul = lb, la
        chk.ob('C05.E1', 'now:same-centre', ts_inner(ce) == ts_inner(cl) and real is not None and ts_inner(ce) == real, where,
               'centre of earliest = %s, centre of latest = %s, REALTIME reading = %s' %
               (fmt(ts_inner(ce))[:80], fmt(ts_inner(cl))[:80], fmt(real)[:80] if real else None))
        chk.ob('C05.E1', 'now:same-half-width', ue == ul, where,
               'half-width of earliest and latest are %s node' % ('the same' if ue == ul else 'DIFFERENT: %s vs %s' % (fmt(ue)[:120], fmt(ul)[:120])))
        ub = ue
        # ---- E2 dependency set
        d = arith.deps(ub)
        bound_l = fmt(m.leaf_self('bound_nsec'))
        drift_l = fmt(m.leaf_self('max_drift_ppb'))
        asof_l = fmt(m.leaf_self('as_of'))
        allowed = {bound_l, drift_l, asof_l}
        if mono is not None:
            allowed.add(fmt(mono))
        extra = d - allowed
        chk.ob('C05.E2', 'now:ub-deps-subset', not extra, where,
               'half-width depends on %s%s' % (sorted(d), '; NOT ALLOWED: %s' % sorted(extra) if extra else ''))
        chk.ob('C05.E2', 'now:ub-deps-required', bound_l in d and drift_l in d, where,
               'half-width must depend on the stored bound and the drift rate; depends on %s' % sorted(d))
        # ---- E7 earliest <= latest: the half-width is non-negative under the stated ranges
        from ..arith import Iv, IntervalEval
        lo_a, hi_a, _ = common.interval_of(info['atoms'], m.age_unit(info))
        if lo_a <= hi_a:
            def lr(v, info=info, lo_a=lo_a, hi_a=hi_a):
                if v == m.leaf_self('bound_nsec'):
                    return Iv(0, (1 << 60) - 1)
                if v == m.leaf_self('max_drift_ppb'):
                    return Iv(0, 999_999_999)
                if v[0] == 't' and v[1] == 'ts_sub':
                    l = common.lin_time(v)
                    if l is not None and mono is not None and l.key() == common.Lin(m.age_unit(info)).key() and l.const == 0:
                        return Iv(max(lo_a, -(1 << 32) * 10**9), min(hi_a, (1 << 32) * 10**9))
                return None
            iv = IntervalEval(lr).ev(ub)
            chk.ob('C05.E7', 'now:half-width-nonnegative', iv is not None and iv.lo is not None and iv.lo >= 0, where,
                   'half-width evaluates to %s for bound >= 0, 0 <= drift < 1e9 and mono - as_of in [%s, %s] (so earliest <= latest)' % (iv, lo_a, hi_a))
        # ---- E4 sink
        if not (ub[0] == 't' and ub[1] == 'ts_nanoseconds'):
            chk.ob('C05.E4', 'now:ub-sink-nanoseconds', False, where,
                   'half-width is not built with TimeSpec::nanoseconds: %s' % fmt(ub)[:150])
            continue
        chk.ob('C05.E4', 'now:ub-sink-nanoseconds', True, where, 'half-width is TimeSpec::nanoseconds(..)')
        n = ub[2][0]
        parts = arith.summands(n)
        bound_parts = [(s, t) for s, t in parts if arith.strip_casts(t) == m.leaf_self('bound_nsec')]
        other = [(s, t) for s, t in parts if arith.strip_casts(t) != m.leaf_self('bound_nsec')]
        chk.ob('C05.E3', 'now:bound-coefficient-1', len(bound_parts) == 1 and bound_parts[0][0] == 1, where,
               'stored bound enters the half-width %d time(s) with sign %s' %
               (len(bound_parts), [s for s, _ in bound_parts]))
        if len(other) != 1 or other[0][0] != 1:
            chk.ob('C05.E3', 'now:one-drift-term', False, where,
                   'expected exactly one added growth term, found %s' % [(s, fmt(t)[:100]) for s, t in other])
            continue
        g = other[0][1]
        # ---- E5 conversion kind
        casts = []
        inner = g
        conv_ok = True
        conv_desc = []
        while inner[0] == 't' and inner[1] in ('cast', 'ceil', 'conv'):
            if inner[1] == 'conv':
                # a lossless From/Into widening: what it widens may itself be a narrowing cast (N1: `i64::from(x as u32)`)
                conv_desc.append('from')
            elif inner[1] == 'cast':
                ck, ty = inner[2][1], inner[2][2]
                conv_desc.append('%s->%s' % (ck, ty))
                if ck == 'FloatToInt' and ty not in ('i64', 'i128'):
                    conv_ok = False
                if ck == 'IntToInt' and ty not in ('i64', 'i128'):
                    conv_ok = False
            else:
                conv_desc.append('ceil')
            inner = inner[2][0]
        chk.ob('C05.E5', 'now:conversion-not-narrowing', conv_ok, where,
               'growth term converted by %s' % conv_desc)
        # ---- E3 monomial
        c, factors = arith.monomial(inner)
        fdesc = [fmt(f)[:120] for f in factors]
        drift_leaf = m.leaf_self('max_drift_ppb')
        has_drift = [f for f in factors if arith.strip_casts(f) == drift_leaf]
        age = [f for f in factors if arith.strip_casts(f) != drift_leaf]
        good_c = abs(c - 1e-9) <= 1e-21
        chk.ob('C05.E4', 'now:unit-scale', good_c and len(has_drift) == 1, where,
               'growth term = %.3e x %s (need 1e-9 x age_ns x drift_ppb to be nanoseconds)' % (c, fdesc))
        if len(age) != 1:
            chk.ob('C05.E3', 'now:age-factor', False, where, 'expected one age factor, found %s' % fdesc)
            continue
        a = arith.strip_casts(age[0])
        full_ns = a[0] == 't' and a[1] == 'ts_num_nanoseconds'
        chk.ob('C05.E3', 'now:age-full-nanoseconds', full_ns, where,
               'age factor is %s (must be the full nanosecond duration, not whole seconds / clamped)' % fmt(a)[:120])
        if full_ns:
            dur = a[2][0]
            zero = common.lin_time(dur) is not None and not common.lin_time(dur).terms and common.lin_time(dur).const == 0
            lt = common.lin_time(dur)
            is_age = lt is not None and mono is not None and lt.key() == common.Lin(m.age_unit(info)).key() and lt.const == 0
            lo, hi, _ = common.interval_of(info['atoms'], m.age_unit(info))
            if zero:
                chk.ob('C05.E3', 'now:age-zero-only-inside-blur', hi <= -1, where,
                       'age taken as 0 on a path where mono - as_of in [%s, %s]' % (lo, hi))
            else:
                chk.ob('C05.E3', 'now:age-is-mono-minus-asof', is_age and lo >= 0, where,
                       'age = %s on a path where mono - as_of in [%s, %s]' % (lt, lo, hi))
    chk.floor('C05.E1', 'Ok paths of now()', n_ok, 1)

    # ---- E6: both wrappers pass (earliest, latest, status) through
    ws = wrappers_model.load(fb, chk, 'C05.E6')
    for name, w in ws.items():
        oks = [r for r in w.rows if r['out'] and r['out'][0] == 'ok']
        chk.floor('C05.E6', '%s client Ok rows' % name, len(oks), 1)
        for r in oks:
            o = r['out']
            e_ok = o[1] == ('from', 'now', ('as Ok', '.0', '.0'))
            l_ok = o[2] == ('from', 'now', ('as Ok', '.0', '.1'))
            chk.ob('C05.E6', '%s:earliest-latest-passthrough' % name, e_ok and l_ok, w.body.where(0),
                   '%s client returns earliest <- %s, latest <- %s' % (name, o[1], o[2]))
