"""C19 Configured drift rate is published exactly, or the daemon refuses to start.
Decided on the *release* MIR (overflow checks off): the value handed to the thread manager
is 1000 x the parsed option with no unchecked arithmetic whose result can leave u32, the
failure edge ends start-up, and the value flows unchanged into every record."""
from .. import psi, arith, mir
from ..psi import fmt, T
from ..arith import Iv, U32
from . import common

LEVEL = 'proof'
PRIMARY_PROFILE = 'release'
SCALE = 1000
DEFAULT_PPB = 1000


_RUN = [None]


def is_run(name):
    return _RUN[0] is not None and name == _RUN[0]


def rate_leaf(v):
    """is v the parsed option's payload (as(<cli>.max_drift_rate, Some).0) or a copy of it"""
    v = arith.strip_casts(v)
    return v[0] == 't' and v[1] == 'field' and v[2][0][0] == 't' and v[2][0][1] == 'as' and v[2][0][2][1] == 'Some'


def conversion_failed(conds):
    """does this path know that the given rate is NOT representable in ppb: the None edge of a checked product, the Err
    edge of a narrowing conversion of the product, or an explicit range test on the rate / product that failed"""
    for term, op, val, _ in conds:
        if not any(rate_leaf(y) for y in psi.walk(term)):
            continue
        if term[0] == 't' and term[1] == 'discr' and term[2][0][0] == 't' and term[2][0][1] in ('checked_mul', 'checked_add'):
            if (op == '==' and val == 0) or (op == '!=' and 1 in val):
                return True
        n = common.cmp_norm(term)
        t_ = common.cond_truth(op, val)
        if n is not None and t_ is not None and arith.const_num(n[2]) is not None:
            cop = n[0] if t_ else common.NEG[n[0]]
            if cop in ('gt', 'ge') and arith.const_num(n[2]) >= 4294967:       # rate (or product) above what u32 ppb can hold
                return True
    return False


def analyse_value(v, conds, asserts):
    """classify the term passed as max_drift_ppb: returns (ok, description)"""
    if psi.is_int_const(v):
        return v[1] == DEFAULT_PPB, 'constant %d ppb (default must be %d)' % (v[1], DEFAULT_PPB), 'R2'
    x = v
    # checked form: payload of checked_mul(rate, 1000) on its Some edge
    if x[0] == 't' and x[1] == 'field' and x[2][0][0] == 't' and x[2][0][1] == 'as':
        inner = x[2][0][2][0]
        variant = x[2][0][2][1]
        # ok_or / ok_or_else / map_err wrappers around the checked product
        core = inner
        while core[0] == 't' and core[1] == 'call' and core[2][0].split('::')[-1] in ('ok_or', 'ok_or_else', 'map_err', 'ok'):
            core = core[2][2]
        if core[0] == 't' and core[1] == 'checked_mul' and variant in ('Some', 'Ok'):
            a, b = core[2]
            consts = [arith.const_num(t) for t in (a, b) if arith.const_num(t) is not None]
            leafs = [t for t in (a, b) if arith.const_num(t) is None]
            if consts == [SCALE] and len(leafs) == 1 and rate_leaf(leafs[0]):
                return True, 'checked_mul(rate, 1000) on its success edge', 'R1'
            return False, 'checked product is %s' % fmt(core)[:100], 'R2'
    if x[0] == 't' and x[1] in ('wmul', 'saturating_mul'):
        return False, '%s: an unrepresentable rate is silently %s instead of rejected' % (
            fmt(x)[:80], 'wrapped' if x[1] == 'wmul' else 'clamped'), 'R3'
    if x[0] == 't' and x[1] == 'Mul':
        a, b = x[2]
        consts = [arith.const_num(t) for t in (a, b) if arith.const_num(t) is not None]
        leafs = [t for t in (a, b) if arith.const_num(t) is None]
        if consts != [SCALE] or len(leafs) != 1 or not rate_leaf(leafs[0]):
            return False, 'value is %s (must be rate x 1000)' % fmt(x)[:100], 'R2'
        # the product formed in a wider type (`u64::from(rate) * 1000`): it cannot wrap there; narrowing it back must be
        # checked -- this path must know the product fits u32 (the Ok edge of `u32::try_from`, an explicit comparison)
        cty = [t[2] for t in (a, b) if psi.is_int_const(t)]
        if cty and cty[0] in ('u64', 'i64', 'u128', 'i128', 'usize'):
            fits = False
            for term, op, val, _ in conds:
                n = common.cmp_norm(term)
                t_ = common.cond_truth(op, val)
                if n is None or t_ is None:
                    continue
                cop, l_, r_ = n
                if l_ == x and arith.const_num(r_) is not None:
                    c_ = arith.const_num(r_)
                    if not t_:
                        cop = common.NEG[cop]
                    if (cop == 'le' and c_ <= U32[1]) or (cop == 'lt' and c_ <= U32[1] + 1):
                        fits = True
            if fits:
                return True, 'rate x 1000 computed in %s, handed over only when it fits u32' % cty[0], 'R1'
            return False, 'rate x 1000 computed in %s but narrowed without a check on this path' % cty[0], 'R1'
        # plain multiply: representable only if guarded. range of the leaf from the path's atoms
        lo, hi = 0, U32[1]
        for c in conds:
            a2 = common.time_atom(c)
            if a2 is None:
                continue
            l_lo, l_hi, _ = common.interval_of([a2], {leafs[0]: 1})
            lo, hi = max(lo, l_lo), min(hi, l_hi)
        guarded = hi * SCALE <= U32[1]
        has_assert = any(e['msg'] == 'Overflow(Mul)' for e in asserts)
        if guarded:
            return True, 'rate x 1000 with rate <= %d on this path' % hi, 'R1'
        if has_assert:
            return True, 'rate x 1000 under an overflow check that aborts start-up (overflow-checks on in this profile)', 'R1'
        return False, ('`rate * 1000` is a plain u32 Mul in the release MIR with rate in [%d, %d]: the product can reach %d > '
                       'u32::MAX and wraps silently (e.g. 5000000 ppm -> 705032704 ppb)' % (lo, hi, hi * SCALE)), 'R1'
    return False, 'value handed to the thread manager is %s' % fmt(x)[:120], 'R1'


def run(ctx, chk):
    prof = getattr(ctx, 'force_profile', 'release')
    fb = ctx.facts(prof)
    chk.explanation = ('On the release-profile MIR of the daemon binary: every path from option parsing to thread_manager::run '
                       'hands over either the default 1000 or rate x 1000 computed so that it cannot leave u32 without ending '
                       'start-up (R1-R3); the value then flows unchanged through run -> spawn closure -> shm_writer::run -> '
                       'ShmUpdater::new -> record field (R4).')
    mains = [b for b in fb.bodies() if b.name == 'main' and b.crate.kind == 'bin' and b.crate.name == 'clockbound']
    tmb0 = common.thread_manager(fb)
    _RUN[0] = tmb0.path if tmb0 is not None else None
    if not mains or tmb0 is None:
        chk.missing('C19.R1', 'main of the clockbound binary / thread manager')
        return
    b = mains[0]
    # where the drift rate enters the manager: its only u32 parameter, or the only u32 field of a configuration struct it takes
    slot = common.manager_slot(fb, tmb0, lambda ts: ts == 'u32')
    if slot is None:
        chk.missing('C19.R1', 'the u32 drift-rate parameter (or configuration field) of the thread manager')
        return
    drift_ix, drift_proj = slot
    cfg_types = set(common.slot_types(fb, tmb0, slot))
    chk.saw(b)
    if prof == 'release':
        chk.ob('C19.R1', 'config:release-overflow-checks-off', b.crate.overflow_checks is False, b.where(0),
               'analysed configuration has overflow-checks=%s (release: off)' % b.crate.overflow_checks, nontrivial=False)
    # (library functions that build the configuration struct -- its Default, a constructor -- are part of the plumbing)
    eng = common.mk_engine(fb, no_inline=lambda x: x.crate.kind != 'bin' and x.tystr(x.locals[0]['ty']) not in cfg_types)
    paths = [p for p in eng.run(b) if p.kind != 'unreachable']
    chk.analysed['paths'] += len(paths)
    n_run = 0
    some_seen = none_seen = False
    for p in paths:
        runs = [ef for ef in p.effects if ef['kind'] == 'call' and is_run(ef['callee'])]
        asserts = [ef for ef in p.effects if ef['kind'] == 'assert']
        opt = None
        for term, op, val, _ in p.conds:
            if term[0] == 't' and term[1] == 'discr' and fmt(term).endswith('max_drift_rate)'):
                opt = 'Some' if ((op == '==' and val == 1) or (op == '!=' and 0 in val)) else 'None'
        for ef in runs:
            n_run += 1
            v = eng.project(ef['args'][drift_ix], drift_proj)
            ok, desc, rule = analyse_value(v, p.conds, asserts)
            if ok and opt == 'Some' and psi.is_int_const(v):
                # the option was given: whatever constant is handed over instead of rate x 1000 is a silent substitution
                ok, rule = False, 'R3'
                desc = 'the constant %d although a rate was given (an unrepresentable or any other rate is silently replaced)' % v[1]
            some_seen |= opt == 'Some'
            none_seen |= opt == 'None'
            chk.ob('C19.%s' % rule, 'main:drift-value:%s' % opt, ok, ef['site'][2],
                   '--max-drift-rate %s: thread_manager::run receives %s' % ('given' if opt == 'Some' else 'omitted', desc))
        if not runs and p.kind == 'return':
            # a refusal path: must be an Err return
            # (a path that ends start-up after looking at the rate itself: a failed checked_mul, try_from, range test ..)
            if conversion_failed(p.conds):
                is_err = p.value[0] == 'agg' and p.value[2] == 'Err'
                chk.ob('C19.R3', 'main:refusal-is-error-exit', is_err, p.where[2],
                       'unrepresentable rate: main returns %s' % fmt(p.value)[:60])
    chk.floor('C19.R1', 'paths reaching thread_manager::run', n_run, 2)
    chk.ob('C19.R2', 'main:both-option-cases', some_seen and none_seen, b.where(0),
           'paths with the option given: %s, omitted: %s' % (some_seen, none_seen), nontrivial=False)

    # ---- R4 identity flow to the record
    chain_ok = flow_chain(fb, chk)
    _ = chain_ok
    # ---- R5 "copied verbatim into every record": on every publishing path of the updater the record's drift field
    # is the updater's configured field, never assigned after construction (C08.C on this profile's MIR)
    if not getattr(chk, '_nested', False):
        from . import C08
        sub = type(chk)('C19', LEVEL, chk.tier)
        sub._nested = True
        sub._is_control = True

        class _Ctx:
            tier, repo = ctx.tier, ctx.repo

            def facts(self, profile=None):
                return ctx.facts(prof)

            def read(self, rel):
                return ctx.read(rel)
        C08.run(_Ctx(), sub)
        n5 = 0
        for o in sub.obs:
            if o['rule'] == 'C08.C' and o['nontrivial']:
                n5 += 1
                chk.ob('C19.R5', '%s:%s' % (o['rule'], o['key']), o['ok'], o['where'], o['detail'])
        chk.floor('C19.R5', 'drift-field obligations of the publishing paths', n5, 2)


def contains(v, needle):
    return any(x == needle for x in psi.walk(v))


def follow(fb, body, args, taint, trail, seen, depth=0):
    """follow the value `taint` from `body` (called with `args`) through workspace calls, helper functions
    and closures handed to std (thread::spawn) until a function returns a struct holding it unchanged in
    a field; returns (constructor body, field name, trail) or None"""
    if depth > 8 or body.path in seen:
        return None
    seen = seen | {body.path}
    # (trivial wrappers -- a newtype constructor, a `From` impl without calls -- are looked through)
    eng = common.mk_engine(fb, no_inline=lambda x: not (len(x.blocks) <= 2 and not list(x.calls())))
    # (a reference into the caller's frame means nothing in a fresh exploration -- worse, its frame number would alias
    # this body's own locals: it becomes a reference to an unknown place)
    args = [(('ref', (('S', ('sym', 'caller-place-%d' % i)), ())) if (a is not None and a[0] == 'ref' and a[1][0][0] == 'L') else a)
            for i, a in enumerate(args)]
    try:
        paths = eng.run(body, args=args)
    except psi.PathLimit:
        return None
    nexts = []

    def where_in(v, depth_=0):
        """dotted path of the field (of nested private structs / newtypes) that holds the value unchanged"""
        if v == taint:
            return ''
        if v[0] != 'agg' or v[2] is None or depth_ > 3 or v[1].startswith('std::'):
            return None
        adt = eng.find_adt(v[1]) or {}
        names = [f['name'] for f in adt.get('variants', [{}])[0].get('fields', [])]
        for nm, f in zip(names, v[3]):
            sub = where_in(f, depth_ + 1)
            if sub is not None:
                return nm + ('.' + sub if sub else '')
        return None
    for p in paths:
        if p.kind == 'return' and p.value is not None and p.value[0] == 'agg' and len(body.blocks) > 2:
            dotted = where_in(p.value)
            if dotted:
                return body, dotted, trail + [body.path]
        for ef in p.effects:
            if ef['kind'] != 'call' or ef.get('tracing'):
                continue
            hit = [i for i, a in enumerate(ef['args']) if contains(a, taint)]
            if not hit:
                continue
            nb = fb.body(ef['callee'])
            if nb is not None:
                nexts.append((nb, list(ef['args'])))
            else:
                # a closure handed to an external function (thread::spawn, Builder::spawn, ..): it will be called
                for a in ef['args']:
                    if a[0] == 'agg' and isinstance(a[1], str) and a[1].startswith('closure:') and contains(a, taint):
                        cb = fb.body(a[1][len('closure:'):])
                        if cb is not None:
                            env = a
                            if cb.local_ty(1).get('k') == 'ref':
                                env = ('ref', (('K0', id(a)), ()))
                            nexts.append((cb, [a]))
    done = set()
    for nb, a in nexts:
        key = (nb.path, tuple(a))
        if key in done:
            continue
        done.add(key)
        r = follow(fb, nb, a, taint, trail + [body.path], seen, depth + 1)
        if r is not None:
            return r
    return None


def flow_chain(fb, chk):
    tmb = common.thread_manager(fb)
    if tmb is None:
        chk.missing('C19.R4', 'thread manager')
        return False
    chk.saw(tmb)
    slot = common.manager_slot(fb, tmb, lambda ts: ts == 'u32')
    if slot is None:
        chk.missing('C19.R4', 'the u32 drift-rate parameter (or configuration field) of the thread manager')
        return False
    dix = slot[0] + 1
    psym = ('sym', tmb.debug_names.get(dix, 'arg%d' % dix))
    taint = psi.Engine(fb).project(psym, slot[1])
    args = [None] * tmb.argc
    args[dix - 1] = psym
    r = follow(fb, tmb, args, taint, [], frozenset())
    chk.ob('C19.R4', 'flow:manager->updater-constructor', r is not None, tmb.where(0),
           'the drift value passed to thread_manager::run reaches a constructor unchanged via %s' % (' -> '.join(x.split('::')[-1] for x in r[2]) if r else 'NO PATH FOUND'))
    if r is None:
        return False
    ctor, ctor_field, trail = r
    for path in trail:
        b = fb.body(path)
        if b is not None:
            chk.saw(b)
    chk.ob('C19.R4', 'flow:constructor-field', True, ctor.where(0), '%s stores the value unchanged in field `%s`' % (ctor.path.split('::')[-1], ctor_field))
    from .updater_model import UpdaterModel
    m = UpdaterModel(fb, chk, 'C19.R4')
    if m.ok:
        m.initial_state(chk)          # (sets the prefix under which the loop's own struct holds the constructed updater)
        pre_ = getattr(m, 'ctor_prefix', '')
        held = ctor_field if (pre_ and ctor_field.startswith(pre_)) else pre_ + ctor_field
        same = m.field_of.get(3) == held
        never = all(held not in i['stores'] for i in m.infos)
        chk.ob('C19.R4', 'flow:field->record', same and never, m.dispatch.where(0),
               'record.max_drift_ppb <- updater.%s on every publication; assigned after construction: %s' % (m.field_of.get(3), not never))
    return True
