"""C01 End-to-end containment -- claimed as composition/wiring only: provenance of every
published field across functions, the message channel and threads (W1), clock agreement
between daemon and client (W2), both clients evaluating the snapshot they took (W3), one
segment path (W4), one record offset/type (W5), plus the component clauses whose failure
breaks containment (I).  The inequality itself is NOT decided."""
from .. import psi, mir, arith
from ..psi import fmt, T
from ..summaries import payload
from . import common, wrappers_model
from .client_model import ClientModel
from .poller_model import PollerModel, mentions_query
from .updater_model import UpdaterModel
from .open_model import layout

LEVEL = 'other'

IMPORTS = {
    'C02': ('C02.S1', 'C02.S2', 'C02.S3'),
    'C05': ('C05.E1', 'C05.E2', 'C05.E3', 'C05.E4', 'C05.E5'),
    'C06': ('C06.D1',),
    'C07': ('C07.F1', 'C07.F2', 'C07.F3', 'C07.F4'),
    'C08': ('C08.A', 'C08.B'),
    'C09': ('C09.Q1',),
    'C12': ('C12.O1', 'C12.O2', 'C12.O3'),
}


def _shm_features(ctx):
    """feature names declared by the shared crate (its [features] table)"""
    import re
    txt = ctx.read('clock-bound-shm/Cargo.toml')
    m = re.search(r'^\[features\]\s*$(.*?)(^\[|\Z)', txt, re.S | re.M)
    names = set()
    if m:
        for ln in m.group(1).splitlines():
            mm = re.match(r'^\s*([A-Za-z0-9_-]+)\s*=', ln)
            if mm and mm.group(1) != 'default':
                names.add(mm.group(1))
    return names


def run(ctx, chk):
    fb = ctx.facts()
    chk.explanation = ('Composition clauses only. W1: each field of every published record resolves, across handlers, the message '
                       'channel and the thread hop, to its intended source (as_of <- the poller\'s pre-query monotonic read; bound <- '
                       'formula(report) + PHC; drift <- CLI value; status <- FSM; void_after <- as_of + 1000 s). W2: same monotonic '
                       'clock id on both sides, REALTIME for the centre. W3: both clients call now() on the snapshot they just took. '
                       'W4: one segment path. W5: one record offset and pointee type. I: re-evaluated component clauses of C02, C05, '
                       'C06, C07, C08, C09, C12. NOT decided: the containment inequality (needs real-valued reasoning about drift '
                       'and chrony\'s validity).')
    chk.not_decided = ['the containment inequality itself', 'validity of chronyd\'s reported values']
    um = UpdaterModel(fb, chk, 'C01.W1')
    pm = PollerModel(fb, chk, 'C01.W1')
    cm = ClientModel(fb, chk, 'C01.W2')
    # ---------------------------------------------------------------- W1 provenance
    if um.ok:
        msgs = um.msg_names
        for i in um.infos:
            if not i['records']:
                continue
            p = i['path']
            where = p.where[2]
            sync = i['applied'] == ['Synchronized']
            for ceb in i['records']:
                f = ceb[3]
                if sync:
                    chk.ob('C01.W1', 'record.as_of<-message.as_of', fmt(f[0]).endswith('ClockErrorBoundData).0.2'), where, 'as_of <- %s' % fmt(f[0])[-70:])
                    roots = arith.deps(f[2])
                    chk.ob('C01.W1', 'record.bound<-report+phc', bool(roots) and all('ClockErrorBoundData).0' in r for r in roots), where,
                           'bound depends on %s' % sorted(x[-40:] for x in roots))
                else:
                    ph = um.placeholder_record(i, f)       # no sample held yet (an Option that is None): constants, published Unknown
                    chk.ob('C01.W1', 'record.as_of<-held-sample', ph or um.updater_field(f[0]) == um.field_of.get(0), where, 'as_of <- %s' % fmt(f[0])[-40:])
                    chk.ob('C01.W1', 'record.bound<-held-sample', ph or um.updater_field(f[2]) == um.field_of.get(2), where, 'bound <- %s' % fmt(f[2])[-40:])
                chk.ob('C01.W1', 'record.drift<-configured', um.updater_field(f[3]) == um.field_of.get(3), where, 'drift <- %s' % fmt(f[3])[-40:])
                va = f[1]
                # computed from the published as_of, or a cached field kept equal to as_of + 1000 s (invariant: C08.B, imported below)
                chk.ob('C01.W1', 'record.void_after<-as_of', (va[0] == 'agg' and arith.mentions(va, T('field', f[0], 'tv_sec'))) or
                       um.updater_field(va) is not None or (not sync and um.placeholder_record(i, f)), where, 'void_after <- %s' % fmt(va)[-80:])
                st = fmt(f[5])
                kind, st_, from_step = um.published(chk, i, ceb)
                chk.ob('C01.W1', 'record.status<-fsm', (kind == 'fsm' and from_step) or (kind, st_) == ('const', 'Unknown'), where,
                       'status <- %s' % st[:80])
        chk.floor('C01.W1', 'publishing paths', sum(1 for i in um.infos if i['records']), 2)
    if pm.ok:
        eng = pm.engine
        dests = set()
        n_data = 0
        for info in pm.infos:
            msg = pm.message_of(info)
            if msg is None:
                continue
            # channel the message is sent to
            for ef in info['path'].effects:
                if ef['kind'] == 'call' and ef['callee'].endswith('HashMap::<K, V, S, A>::get'):
                    v = ef['args'][1]
                    if v[0] == 'ref':
                        v = eng.load(info['path'].state, v[1])
                    if v[0] == 'agg':
                        dests.add(v[2])
            if msg[0] == 'agg' and msg[2] == 'ClockErrorBoundData':
                n_data += 1
                tup = msg[3][0]
                tr, phc, asof = tup[3]
                reads = [(n, cid, ef) for n, cid, ef in info['reads'] if info['query'] and n < info['query'][0]]
                ok = bool(reads) and asof == payload(T('call', reads[-1][2]['callee'], reads[-1][0], *reads[-1][2]['args']), 'Ok')
                chk.ob('C01.W1', 'message.as_of<-pre-query-monotonic-read', ok, info['sends'][0][1]['site'][2], 'message as_of <- %s' % fmt(asof)[-60:])
                chk.ob('C01.W1', 'message.tracking<-chrony-reply', mentions_query(tr), info['sends'][0][1]['site'][2], 'message tracking <- %s' % fmt(tr)[-60:])
        chk.floor('C01.W1', 'data-message paths in the poll loop', n_data, 1)
        # the writer loop runs in the thread that owns the mailbox the poller sends to: C15.N2 pairing, re-evaluated
        from . import C15
        sub = type(chk)('C01', LEVEL, chk.tier)
        sub._nested = True
        C15.WRITER_ID[0] = None
        C15.run(ctx, sub)
        chk.ob('C01.W1', 'hop:poller-sends-to-writer-mailbox', C15.WRITER_ID[0] is not None and dests == {C15.WRITER_ID[0]}, pm.body.where(0),
               'poll outcomes are sent to channel(s) %s; the segment writer loop runs in the thread that owns the mailbox of %s' % (sorted(dests), C15.WRITER_ID[0]))
        for o in sub.obs:
            if o['key'].startswith(('spawn:mailbox-matches-id', 'spawn:id-matches-worker', 'spawn:context-moved-to-worker')):
                chk.ob('C01.W1', 'hop:%s' % o['key'], o['ok'], o['where'], o['detail'])
    # ---------------------------------------------------------------- W2 clock agreement
    if pm.ok and cm.ok:
        d_ids = {cid for info in pm.infos for n, cid, ef in info['reads']}
        c_mono = {cid for info in cm.infos for cid, ef in info['reads'][1:2]}
        c_real = {cid for info in cm.infos for cid, ef in info['reads'][0:1]}
        chk.ob('C01.W2', 'clock:daemon-and-client-same-monotonic-id', len(d_ids) == 1 and d_ids == c_mono and d_ids <= set(common.MONOTONIC_FAMILY), '',
               'daemon stamps as-of with clock id %s; client measures age with %s (%s)' % (sorted(d_ids), sorted(c_mono, key=str), common.MONOTONIC_FAMILY))
        chk.ob('C01.W2', 'clock:centre-is-realtime', c_real == {common.CLOCK_REALTIME}, '', 'client reads the interval centre from clock id %s' % sorted(c_real, key=str))
    # W2b: the daemon builds the shared crate with its `writer` feature, the client libraries without it (a whole-workspace
    # build unifies the features and hides this).  Every item of the shared crate that exists in both configurations must be
    # the same item: same evaluated constant, same MIR -- so that "the same clock id / layout / formula" really is the same
    # in the daemon binary and in the client libraries.
    try:
        shm_pkg = 'clock-bound-shm'
        feats = sorted(_shm_features(ctx))
        cfg_a = ctx.facts_for([shm_pkg])
        cfg_b = ctx.facts_for([shm_pkg], features=','.join(feats)) if feats else None
    except Exception as e:      # noqa
        cfg_a = cfg_b = None
        chk.ob('C01.W2', 'config:shared-crate-analysable-per-feature-set', False, 'clock-bound-shm/Cargo.toml', 'cannot build the shared crate per feature set: %s' % str(e)[:200])
    if cfg_a is not None and cfg_b is not None:
        def items(fbx):
            out = {}
            for c in fbx.crates:
                if c.name != common.SHM:
                    continue
                for k in c.consts:
                    out[('const', k['path'])] = {kk: vv for kk, vv in k.items() if kk not in ('span', 'ty', 'file', 'line')}
                for b in c.bodies:
                    out[('fn', b.path)] = mir.fmt_body(b)
            return out
        ia, ib = items(cfg_a), items(cfg_b)
        differing = sorted(k for k in ia if k in ib and ia[k] != ib[k])
        for k in differing[:6]:
            chk.ob('C01.W2', 'config:shared-item-differs:%s' % k[1].split('::')[-1], False, 'clock-bound-shm/src',
                   '%s %s is a different item with and without the feature(s) %s: the daemon (built with them) and the client '
                   'libraries (built without) do not run the same code / use the same value' % (k[0], k[1], feats))
        chk.ob('C01.W2', 'config:shared-items-identical-across-feature-sets', not differing, 'clock-bound-shm/src',
               '%d items of the shared crate exist with and without %s; %d differ' % (len([k for k in ia if k in ib]), feats, len(differing)))
        chk.analysed['call_sites'] += len(ia)
    # ---------------------------------------------------------------- W3 clients evaluate their own snapshot
    ws = wrappers_model.load(fb, chk, 'C01.W3')
    now_paths = {b.path for b in fb.find(crate=common.SHM, name='now', impl_self='ClockErrorBound')}     # (whatever module the impl sits in)
    for name, w in ws.items():
        n = 0
        for r in w.rows:
            p = r['path']
            calls = [(k, ef) for k, ef in enumerate(p.effects) if ef['kind'] == 'call' and not ef['tracing'] and ef['callee'].startswith(common.SHM)]
            snaps = [(k, ef) for k, ef in calls if ef['callee'].endswith('::snapshot')]
            nows = [(k, ef) for k, ef in calls if ef['callee'] in now_paths or ef['callee'].endswith('ClockErrorBound::now')]
            for k, ef in nows:
                n += 1
                arg = ef['args'][0]
                good = False
                if snaps:
                    sk, sef = snaps[-1]
                    want = payload(T('call', sef['callee'], sk, *sef['args']), 'Ok')
                    # the reference snapshot() returned, re-borrowed (`&*snap`) or handed on as it is (a combinator payload)
                    same = (arg[0] == 'ref' and arg[1][0][0] == 'S' and arg[1][0][1] == want and not arg[1][1]) or arg == want
                    owner = sef['args'][0]
                    own_reader = owner[0] == 'ref' and owner[1][0][0] == 'S' and bool(owner[1][1])     # a field of the client / context
                    good = same and sk < k and own_reader
                chk.ob('C01.W3', '%s:now-on-own-snapshot' % name, good, ef['site'][2], 'now() is evaluated on %s' % fmt(arg)[:80])
        chk.floor('C01.W3', '%s client now() call sites' % name, n, 1)
    # ---------------------------------------------------------------- W4 one path
    consts = {}
    for c in fb.crates:
        for k in c.consts:
            if k['name'] == 'CLOCKBOUND_SHM_DEFAULT_PATH' and 'str' in k:
                consts[c.name] = k['str']
    import re
    try:
        hdr = ctx.read('clock-bound-ffi/include/clockbound.h')
        m = re.search(r'#define\s+CLOCKBOUND_SHM_DEFAULT_PATH\s+"([^"]*)"', hdr)
        if m:
            consts['clockbound.h'] = m.group(1)
    except OSError:
        pass
    used0 = common.segment_paths_used(fb)
    if common.DAEMON in used0:
        consts.setdefault('clock_bound_d', used0[common.DAEMON])     # the constant the daemon really opens (whatever its name)
    chk.ob('C01.W4', 'path:one-default-path', len(set(consts.values())) == 1 and {'clock_bound_d', 'clock_bound_client', 'clockbound.h'} <= set(consts), '',
           'default segment path per component: %s' % consts)
    used = common.segment_paths_used(fb)
    chk.ob('C01.W4', 'path:components-use-it', len(used) == 2 and set(used.values()) == set(consts.values()) and len(set(consts.values())) == 1, '',
           'paths actually passed to ShmWriter::new / new_with_path: %s' % used)
    # ---------------------------------------------------------------- W5 one record offset / type
    hdrl = layout(fb, '::ShmHeader')
    offs = {}
    for b in fb.bodies(common.SHM):
        if b.name == 'new' and (b.impl_self or '').endswith(('ShmReader', 'ShmWriter')):
            side = 'reader' if b.impl_self.endswith('ShmReader') else 'writer'
            from .startup_model import is_reader_new, init_reader_open
            init_reader_open(fb)
            eng, qs = common.run_unrolled(fb, b, inline_depth=8, no_inline=(is_reader_new if side == 'writer' else None))
            for q in qs:
                if q.kind == 'return' and q.value[0] == 'agg' and q.value[2] == 'Ok':
                    for ef in q.effects:
                        if ef['kind'] == 'call' and common.ptr_advance_bytes(fb, ef) is not None:
                            offs[side] = common.ptr_advance_bytes(fb, ef)
    # what each side moves through its record pointer: every access is a whole record or whole fields of the one published
    # layout (so a whole-record copy on one side and a field-by-field copy on the other still agree on where each field is)
    from .seqlock_model import WriterModel, ReaderModel, record_coverage
    ptr_tys = {}
    for side, model, kind in (('ShmWriter', WriterModel, 'dwrite'), ('ShmReader', ReaderModel, 'dread')):
        mdl = model(fb, chk, 'C01.W5')
        if not mdl.ok:
            continue
        n_acc, bad = 0, []
        for p_, evs_ in zip(mdl.paths, mdl.evs):
            accs = [e for e in evs_ if e.kind == kind and e.field == 'ceb']
            if not accs:
                continue
            cov, unc, misal, unk = record_coverage(fb, p_, evs_, kind)
            n_acc += len(accs)
            bad += [e.site for e, lo, hi in misal] + [e.site for e in unk]
            chk.analysed['call_sites'] += len(accs)
        ptr_tys[side] = 'published layout' if n_acc and not bad else 'no record access found' if not n_acc else 'off-layout or unknown extent at %s' % sorted(set(bad))
    chk.ob('C01.W5', 'record:same-offset', hdrl is not None and offs.get('reader') == offs.get('writer') == hdrl['size'], '',
           'record pointer offsets %s (header size %s)' % (offs, hdrl['size'] if hdrl else None))
    chk.ob('C01.W5', 'record:same-pointee', len(ptr_tys) == 2 and set(ptr_tys.values()) == {'published layout'}, '',
           'record accesses of write() / snapshot() against the layout of ClockErrorBound: %s' % ptr_tys)
    # ---------------------------------------------------------------- I imports
    import importlib
    for pid, rules in IMPORTS.items():
        mod = importlib.import_module('cbv.rules.%s' % pid)
        sub = type(chk)('C01', LEVEL, chk.tier)
        sub._nested = True
        getattr(mod, 'run_rules', mod.run)(ctx, sub)
        n = 0
        for o in sub.obs:
            if o['rule'] in rules and o['nontrivial']:
                n += 1
                chk.ob('C01.I', '%s:%s' % (o['rule'], o['key']), o['ok'], o['where'], o['detail'])
        chk.floor('C01.I', 'imported obligations of %s' % pid, n, 1)
        chk.analysed['functions'] |= sub.analysed['functions']
        chk.analysed['paths'] += sub.analysed['paths']
