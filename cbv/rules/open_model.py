"""Model of opening a segment (ShmReader::new with its helpers inlined): every path is a
sequence of named checks with their outcome and a result.  Used by C16, C04, C01."""
from .. import psi, arith
from ..psi import fmt
from . import common


def layout_in(fb, crate_name, suffix):
    """(adt, crate) looked up in one crate's own tables (type indices are per crate)"""
    for c in fb.crates:
        if c.name != crate_name:
            continue
        for k, a in c.adts.items():
            if k.endswith(suffix) and 'size' in a:
                return a, c
    return None, None


def layout(fb, suffix):
    for c in fb.crates:
        for k, a in c.adts.items():
            if k.endswith(suffix) and 'size' in a:
                return a
    return None


HDR = {'magic': 'magic', 'segsize': 'segsize', 'version': 'version', 'generation': 'generation'}   # role -> field name, see OpenModel


MAGIC_PARTS = {}           # word index -> constant it is compared with, for word-by-word comparisons
MAGIC_COMPARED = []        # the constant words the open path compares the magic field with (filled by name_atom)


def magic_words(v):
    """the integer words of a constant the magic is compared with, or None"""
    while v[0] == 't' and v[1] == 'deref':
        v = v[2][0]
    if v[0] == 'ref' and v[1][0][0] == 'K' and not v[1][1]:
        raw = bytes.fromhex(v[1][0][1])          # a reference to a constant [u32; N]
        if raw and len(raw) % 4 == 0:
            return tuple(int.from_bytes(raw[i:i + 4], 'little') for i in range(0, len(raw), 4))
    if v[0] == 'agg' and v[3] and all(psi.is_int_const(x) for x in v[3]):
        return tuple(x[1] for x in v[3])
    # an iterator / element-wise walk over one constant array (`magic.iter()`): all of its words, when every element is visited
    ks = [y for y in psi.walk(v) if isinstance(y, tuple) and len(y) == 2 and y[0] == 'ref' and isinstance(y[1], tuple) and
          y[1] and isinstance(y[1][0], tuple) and y[1][0] and y[1][0][0] == 'K']
    if ks and len({y[1][0][1] for y in ks}) == 1:
        raw = bytes.fromhex(ks[0][1][0][1])
        if raw and len(raw) % 4 == 0:
            words = tuple(int.from_bytes(raw[i:i + 4], 'little') for i in range(0, len(raw), 4))
            idx = {y[1][1][0][1] for y in ks if y[1][1] and y[1][1][0][0] == 'f'}
            whole = any(not y[1][1] for y in ks)
            if whole or idx == set(range(len(words))):
                return words
    return None


_ARITH = ('Add', 'Sub', 'Mul', 'Div', 'Rem', 'BitAnd', 'BitOr', 'BitXor', 'Shl', 'Shr', 'wadd', 'wsub', 'Neg')


def peel_const(x):
    """x = L + d where d sums the integer constants added to / subtracted from L: (L, d)"""
    d = 0
    x = arith.strip_casts(x)
    while x[0] == 't' and x[1] in ('Add', 'Sub'):
        a, b = x[2]
        cb = arith.const_num(arith.strip_casts(b))
        if not isinstance(cb, int):
            break
        d += cb if x[1] == 'Add' else -cb
        x = arith.strip_casts(a)
    return x, d


def name_atom(term, hdr_size, full_size, lower=None, effects=None):
    """classify a condition term of the open path -> (atom name, 'passes when' truth) or None.
    `lower`: the largest k for which this path already knows `declared size >= k` (makes `size - k` exact)"""
    ft = fmt(term)
    if term[0] != 't':
        return None
    op = term[1]
    if op == 'Not':
        inner = name_atom(term[2][0], hdr_size, full_size, lower, effects)
        return (inner[0], not inner[1]) if inner is not None else None
    # the nix wrappers return Result: Err exactly when the libc call reports failure
    if op == 'discr' and term[2][0][0] == 't' and term[2][0][1] == 'call' and term[2][0][2][0].startswith('nix::'):
        last = term[2][0][2][0].split('::')[-1]
        atom = {'open': 'open<0', 'openat': 'open<0', 'read': 'read<0', 'mmap': 'mmap==MAP_FAILED'}.get(last)
        if atom:
            return (atom, False)
    cc = common.cmp_const_right(term)
    if cc is not None:
        cop, x, c = cc
        sx = fmt(x)
        derived_x = any(y[0] == 't' and y[1] in _ARITH for y in psi.walk(x))
        ug = common.unsigned_ge(cop, c)
        if ug is not None and not derived_x and 'read#' not in sx and 'open#' not in sx and 'mmap#' not in sx:
            k, truth = ug
            if ('.%s' % HDR['version']) in sx and 'load#' in sx and k == 1:
                return ('version>0', truth)
            if ('.%s' % HDR['generation']) in sx and 'load#' in sx and k == 1:
                return ('generation>0', truth)
            if HDR['segsize'] in sx or 'segsize' in sx:
                return ('segsize>=%d' % k, truth)
        if ug is not None and derived_x and 'read#' not in sx and 'open#' not in sx and 'mmap#' not in sx:
            # `size - h >= r` on a path that knows `size >= h` is the test `size >= h + r` on the declared size itself
            # (what `size.checked_sub(h)` followed by a comparison of the remainder spells)
            base, d = peel_const(x)
            sb = fmt(base)
            plain = not any(y[0] == 't' and y[1] in _ARITH for y in psi.walk(base))
            if plain and d < 0 and lower is not None and lower >= -d and (HDR['segsize'] in sb or 'segsize' in sb):
                return ('segsize>=%d' % (ug[0] - d), ug[1])
    # a syscall result tested for failure, in any spelling of `ret < 0` (ret <= -1, !(ret >= 0), ret == -1 ...)
    if cc is not None:
        cop, x, c = cc
        sx = fmt(x)
        if 'read#' in sx and 'mmap#' not in sx and isinstance(c, int) and c > 0:
            # the number of bytes read compared with a positive constant, in any spelling (`n < 16`, `!(n >= 16)`, `n <= 15`)
            ug2 = common.unsigned_ge(cop, c)
            if ug2 is not None:
                return ('read<header(%d)' % ug2[0], ug2[1])
        neg = {('lt', 0): False, ('le', -1): False, ('ge', 0): True, ('gt', -1): True, ('eq', -1): False, ('ne', -1): True}.get((cop, c))
        if neg is not None:
            for call, atom in (('open#', 'open<0'), ('read#', 'read<0')):
                others = [o for o in ('open#', 'read#', 'mmap#') if o != call]
                if call in sx and not any(o in sx for o in others if o != 'open#' or call != 'read#'):
                    if call == 'open#' and ('read#' in sx or 'mmap#' in sx):
                        continue
                    if call == 'read#' and 'mmap#' in sx:
                        continue
                    return (atom, neg)
    if op in ('Eq', 'Ne', 'eq', 'ne') and len(term[2]) == 2:
        # one word of the magic compared with a constant (`magic[0] == M[0] && magic[1] == M[1]`, in any order): each is
        # the magic check; together they must cover both documented words (collected in MAGIC_PARTS)
        for x, y in (term[2], term[2][::-1]):
            if x[0] == 't' and x[1] == 'field' and str(x[2][1]).isdigit() and fmt(x[2][0]).endswith('.%s' % HDR['magic']) and psi.is_int_const(y):
                MAGIC_PARTS[int(x[2][1])] = y[1]
                return ('magic==SHM_MAGIC', op in ('Eq', 'eq'))
        # the magic words compared as a whole (`==` on the pair, or word by word with any bit-trick spelling, which the
        # engine reduces to one equality): record what they are compared with
        for x, y in (term[2], term[2][::-1]):
            if fmt(x).endswith('.%s' % HDR['magic']):
                words = magic_words(y)
                if words is not None:
                    MAGIC_COMPARED.append(words)
                return ('magic==SHM_MAGIC', op in ('Eq', 'eq'))
    if op in ('Lt', 'Le', 'Gt', 'Ge', 'Eq', 'Ne'):
        a, b = term[2]
        ca, cb = arith.const_num(arith.strip_casts(a)), arith.const_num(arith.strip_casts(b))
        sa = fmt(a)
        if 'open#' in sa and 'read#' not in sa and 'mmap#' not in sa and op == 'Lt' and cb == 0:
            return ('open<0', False)
        sb_ = fmt(b)
        if ('mmap#' in sa or ('mmap#' in sb_ and ca is not None)) and op == 'Eq':
            return ('mmap==MAP_FAILED', False)
        if ('mmap#' in sa or ('mmap#' in sb_ and ca is not None)) and op == 'Ne':
            return ('mmap==MAP_FAILED', True)
        if 'read#' in sa and 'mmap#' not in sa and op == 'Lt' and cb == 0:
            return ('read<0', False)
        if 'read#' in sa and 'mmap#' not in sa and op == 'Lt' and cb is not None:
            return ('read<header(%d)' % cb, False)
        return None
    if op == 'call' and term[2][0].endswith(('::eq', '::ne')) and ('.%s' % HDR['magic']) in ft:
        n_ef = term[2][1]
        pts = (effects[n_ef].get('pointees') if effects is not None and isinstance(n_ef, int) and n_ef < len(effects) else None) or []
        for ai, y in enumerate(term[2][2:]):
            if ('.%s' % HDR['magic']) not in fmt(y):
                words = magic_words(y)
                if words is None and ai < len(pts) and pts[ai] is not None:
                    words = magic_words(pts[ai])          # the array was passed by value: what the reference pointed to at the call
                if words is not None:
                    MAGIC_COMPARED.append(words)
        return ('magic==SHM_MAGIC', term[2][0].endswith('::eq'))
    if op in ('eq',) and ('.%s' % HDR['magic']) in ft:
        return ('magic==SHM_MAGIC', True)
    if op in ('ne',) and ('.%s' % HDR['magic']) in ft:
        return ('magic==SHM_MAGIC', False)
    return None


def _signed_read_compare(term):
    """is the read(2) result compared as the signed value it is (no cast to an unsigned type on the way)?"""
    for x in psi.walk(term):
        if x[0] == 't' and x[1] == 'cast' and len(x[2]) >= 3 and isinstance(x[2][-1], str) and x[2][-1].startswith('u') and 'read#' in fmt(x[2][0]):
            return False
    return 'read#' in fmt(term)


def truth_of(op, val):
    if op == '!=' and set(val) == {0}:
        return True
    if op == '==' and val in (0, 1):
        return bool(val)
    return None


def err_kind(v):
    """('Syscall', origin) | ('SegmentNotInitialized',) | ('SegmentMalformed',) | None for an Err value"""
    x = v
    while x[0] == 't' and x[1] == 'conv':
        x = x[2][0]
    if x[0] == 'agg' and x[1].endswith('ShmError'):
        if x[2] == 'SyscallError':
            lits = common.c_string_literals(x)
            return ('Syscall', lits[-1].rstrip('\0') if lits else None)
        return (x[2],)
    return None


class OpenModel:
    def __init__(self, fb, chk, rule):
        self.ok = False
        cands = [b for b in fb.bodies(common.SHM) if b.name == 'new' and (b.impl_self or '').endswith('ShmReader')]
        if not cands:
            chk.missing(rule, 'ShmReader::new')
            return
        self.body = cands[0]
        chk.saw(self.body)
        hdr = layout(fb, '::ShmHeader')
        rec = layout(fb, '::ClockErrorBound')
        if not hdr or not rec:
            chk.missing(rule, 'layout of ShmHeader / ClockErrorBound')
            return
        self.hdr_size, self.rec_size = hdr['size'], rec['size']
        HDR.update(common.abi_names(fb)['hdr'])
        # (a validation written as a loop over a constant table of checks is unrolled: the table's length bounds it)
        self.engine, ps = common.run_unrolled(fb, self.body)
        self.paths = [p for p in ps if p.kind != 'unreachable']
        chk.analysed['paths'] += len(self.paths)
        for p in self.engine.inlined:
            chk.analysed['functions'].add(p)
        self.rows = []
        del MAGIC_COMPARED[:]
        MAGIC_PARTS.clear()
        for p in self.paths:
            atoms = []
            unknown = []
            signed_short = []
            lower = None
            for term, op, val, _ in p.conds:
                t = truth_of(op, val)
                a = name_atom(term, self.hdr_size, self.hdr_size + self.rec_size, lower, p.effects)
                if t is True and term[0] == 't' and term[1] in ('Eq', 'Gt') and len(term[2]) == 2 and psi.is_int_const(term[2][1]) and \
                        term[2][1][1] in (self.hdr_size, self.hdr_size + self.rec_size) and \
                        (HDR['segsize'] in fmt(term[2][0]) or 'segsize' in fmt(term[2][0])):
                    # an arm of a three-way `match size.cmp(&K)`: on `== K` and on `> K` the path knows `size >= K`
                    a = ('segsize>=%d' % term[2][1][1], True)
                if a is not None and t is not None and a[0].startswith('segsize>=') and t == a[1]:
                    lower = max(lower or 0, int(a[0][len('segsize>='):]))
                if a is None and term[0] == 't' and term[1] == 'call' and 'atomic' in term[2][0] and term[2][0].endswith('::load'):
                    # `match x.load() { 0 => .., _ => .. }` / `if x.load() == 0`: a switch on the loaded integer itself
                    k = val if op == '==' else (val[0] if len(val) == 1 else None)
                    if isinstance(k, int):
                        a = name_atom(psi.T('Eq', term, psi.C(k, 'u16')), self.hdr_size, self.hdr_size + self.rec_size)
                        t = (op == '==')
                if a is None or t is None:
                    unknown.append(psi.fmt_cond((term, op, val, None))[:100])
                    continue
                if a[0].startswith('read<header') and t != a[1] and _signed_read_compare(term):
                    # `ret < size` on the *signed* return value, taken before (or without) the `ret < 0` test: a failed read
                    # (-1) is "short" too and leaves through this exit
                    signed_short.append(psi.fmt_cond((term, op, val, None))[:100])
                atoms.append((a[0], t == a[1]))      # (name, passed?)
                if a[0].startswith('read<header') and t == a[1] and _signed_read_compare(term) and not any(x_ == 'read<0' for x_, _ in atoms):
                    atoms.append(('read<0', True))   # a *signed* `n >= 16` that holds says `n >= 0` too
            if any(a_ == 'read<0' for a_, _ in atoms):
                # the sign is tested on this very path (before or after the length): either -1 cannot be here, or this is
                # the exit for it
                signed_short = []
            if ('read<0', False) in atoms:
                # a failed read is trivially "short" as well when the length test is signed: the sign decides
                atoms = [(a_, p_) for a_, p_ in atoms if not (a_.startswith('read<header') and not p_)]
            res = None
            if p.kind == 'return' and p.value[0] == 'agg':
                res = ('Ok',) if p.value[2] == 'Ok' else err_kind(p.value[3][0])
            # pointer formation beyond the header
            adds = [ef for ef in p.effects if ef['kind'] == 'call' and ef['callee'].startswith('std::ptr::') and ef['callee'].endswith(common.PTR_ADVANCE)]
            self.fb = fb
            self.rows.append({'path': p, 'atoms': atoms, 'unknown': unknown, 'result': res, 'adds': adds, 'signed_short': signed_short})
        if MAGIC_PARTS and set(MAGIC_PARTS) == set(range(len(MAGIC_PARTS))):
            MAGIC_COMPARED.append(tuple(MAGIC_PARTS[k] for k in sorted(MAGIC_PARTS)))
        self.magic_compared = sorted(set(MAGIC_COMPARED))
        self.ok = True
