"""C04 Daemon death and restart: the writer's start-up is a short fixed effect sequence
(probe -> [wipe] -> map -> version store), a valid segment is never re-created, wipe lays the
file out as the validation expects, and write() handles an odd starting generation.
Necessary structural conditions; crash-point behaviour itself is not decided."""
from .. import psi, arith, mir
from ..psi import fmt
from . import common
from .open_model import layout
from .seqlock_model import classify_effects

LEVEL = 'other'

O_CREAT, O_TRUNC, O_EXCL = 0o100, 0o1000, 0o200
FILE_MUTATORS = ('File::create', 'OpenOptions::truncate', 'OpenOptions::create', 'OpenOptions::create_new', 'set_len', 'ftruncate',
                 'remove_file', 'fs::rename', 'unlink', 'fs::write', 'truncate', 'fs::remove_dir', 'posix_fallocate', 'fallocate')


def lossless_origin(v):
    """look through value-preserving wrappers (casts, Ok/Some payloads, try_into / try_from / map_err /
    ok_or.. / into / from / unwrap / expect) to the value a term was converted from"""
    passthrough = ('try_into', 'try_from', 'map_err', 'ok_or', 'ok_or_else', 'into', 'from', 'unwrap', 'expect', 'ok')
    while True:
        v = arith.strip_casts(v)
        if v[0] == 't' and v[1] == 'field' and v[2][0][0] == 't' and v[2][0][1] == 'as' and v[2][0][2][1] in ('Ok', 'Some'):
            v = v[2][0][2][0]
            continue
        if v[0] == 'agg' and v[2] in ('Ok', 'Some') and v[3]:
            v = v[3][0]
            continue
        if v[0] == 't' and v[1] == 'call' and v[2][0].split('::')[-1] in passthrough and len(v[2]) >= 3:
            v = v[2][2]
            continue
        return v


def helpers(fb):
    out = {}
    for b in fb.bodies(common.SHM):
        if (b.impl_self or '').endswith('ShmWriter') and b.defkind != 'Closure':
            out[b.name] = b
    return out


def wipe_sequence(fb, chk):
    hs = helpers(fb)
    w = hs.get('wipe')
    new = hs.get('new')
    if w is None or new is None:
        chk.missing('C04.T6', 'ShmWriter::wipe / ShmWriter::new')
        return None
    chk.saw(w)
    eng = common.mk_engine(fb)
    oks = [p for p in eng.run(w) if p.kind == 'return' and p.value[0] == 'agg' and p.value[2] == 'Ok']
    chk.analysed['paths'] += len(oks)
    if not oks:
        chk.missing('C04.T6', 'Ok path of wipe')
        return None
    p = max(oks, key=lambda x: len(x.effects))
    seq = []
    creates = []
    truncates = []
    for ef in p.effects:
        if ef['kind'] != 'call' or ef['tracing']:
            continue
        nm = ef['callee'].split('::')[-1]
        if nm in ('write_u8', 'write_u16', 'write_u32', 'write_u64', 'write_i32', 'write_i64'):
            v = ef['args'][1]
            core_v = lossless_origin(v)
            val = v[1] if psi.is_int_const(v) else ('segsize' if core_v == ('sym', 'segsize') else fmt(v)[:80])
            endian = [crate_ty for crate_ty in ((ef['fn'] or {}).get('targs') or [])]
            seq.append((int(nm.split('_')[1][1:]) // 8, val))
        elif nm == 'write_all':
            # the buffer: vec![elem; n] built earlier on this path
            desc = fmt(ef['args'][1])[:200]
            for e2 in p.effects:
                if e2['kind'] == 'call' and e2['callee'].endswith('from_elem') and len(e2['args']) >= 2:
                    desc = 'vec![%s; %s]' % (fmt(e2['args'][0]), fmt(e2['args'][1]))
            seq.append(('fill', desc))
        elif nm in ('create', 'open') or 'OpenOptions' in ef['callee']:
            creates.append(ef['callee'])
            if ef['callee'].endswith('File::create'):
                truncates.append('File::create (create + truncate)')
            if ef['callee'].endswith('OpenOptions::truncate') and len(ef['args']) > 1 and psi.is_int_const(ef['args'][1]) and ef['args'][1][1] == 1:
                truncates.append('OpenOptions::truncate(true)')
        elif nm in ('set_len', 'ftruncate'):
            truncates.append('%s(%s)' % (nm, fmt(ef['args'][-1])[:30]))
    # the constant new() passes as segsize
    segarg = None
    eng2 = common.mk_engine(fb, no_inline=lambda x: x.name in ('is_usable_segment', 'wipe', 'mmap_segment_at'))
    for q in eng2.run(new):
        for ef in q.effects:
            if ef['kind'] == 'call' and ef['callee'].endswith('::wipe') and psi.is_int_const(ef['args'][1]):
                segarg = ef['args'][1][1]
    return {'seq': seq, 'where': w.where(0), 'segsize_arg': segarg, 'creates': creates, 'truncates': truncates, 'path': p, 'body': w}


def check_new(fb, chk, rule_prefix='C04'):
    """T1/T3/T5 on ShmWriter::new (shared with C16.V4)"""
    hs = helpers(fb)
    new = hs.get('new')
    if new is None:
        chk.missing('%s' % rule_prefix, 'ShmWriter::new')
        return
    chk.saw(new)
    r1 = 'C04.T1' if rule_prefix == 'C04' else rule_prefix
    r3 = 'C04.T3' if rule_prefix == 'C04' else rule_prefix
    eng = common.mk_engine(fb, no_inline=lambda x: x.name in ('is_usable_segment', 'wipe', 'mmap_segment_at'))
    paths = [p for p in eng.run(new) if p.kind != 'unreachable']
    chk.analysed['paths'] += len(paths)
    n_wipe = n_nowipe = 0
    for p in paths:
        calls = [ef for ef in p.effects if ef['kind'] == 'call' and not ef['tracing']]
        names = [ef['callee'].split('::')[-1] for ef in calls]
        probe = [ef for ef in calls if ef['callee'].endswith('::is_usable_segment')]
        wipes = [ef for ef in calls if ef['callee'].endswith('::wipe')]
        # truth of "probe failed" on this path
        failed = None
        for term, op, val, _ in p.conds:
            if term[0] == 't' and term[1] == 'call' and term[2][0].split('::')[-1] in ('is_err', 'is_ok'):
                t = (op == '!=' and set(val) == {0}) or (op == '==' and val == 1)
                failed = t if term[2][0].endswith('is_err') else not t
                # the tested value is the probe's result
                tested = [ef for ef in calls if ef['callee'] == term[2][0]]
                src = tested[0]['pointees'][0] if tested and tested[0]['pointees'] else None
                chk.ob(r1, 'new:wipe-decided-by-the-probe', src is not None and src[0] == 't' and src[1] == 'call' and src[2][0].endswith('::is_usable_segment'),
                       tested[0]['site'][2] if tested else '', 'the wipe decision tests %s' % (fmt(src)[:80] if src else None))
            if term[0] == 't' and term[1] == 'discr' and term[2][0][0] == 't' and term[2][0][1] == 'call' and \
                    term[2][0][2][0].endswith('::is_usable_segment') and op == '==':
                failed = (val == 1)
            if term[0] == 't' and term[1] == 'Eq' and term[2][0][0] == 't' and term[2][0][1] == 'discr' and psi.is_int_const(term[2][1]):
                inner = term[2][0][2][0]
                if inner[0] == 't' and inner[1] == 'call' and inner[2][0].endswith('::is_usable_segment'):
                    t = (op == '!=' and set(val) == {0}) or (op == '==' and val == 1)
                    failed = t if term[2][1][1] == 1 else not t
                    chk.ob(r1, 'new:wipe-decided-by-the-probe', True, p.where[2], 'the wipe decision tests the result of is_usable_segment')
        if wipes:
            n_wipe += 1
            chk.ob(r1, 'new:wipe-only-when-unusable', failed is True and bool(probe) and probe[0] in calls and
                   calls.index(probe[0]) < calls.index(wipes[0]), wipes[0]['site'][2],
                   'wipe() reached on a path where the usability probe %s' % ('failed' if failed else 'DID NOT FAIL (a valid segment would be re-created)'))
        elif 'mmap_segment_at' in names:
            n_nowipe += 1
            chk.ob(r1, 'new:takeover-in-place-when-usable', failed is False, p.where[2],
                   'segment mapped without wipe on a path where the probe %s' % ('succeeded' if failed is False else 'failed or was not consulted'))
        if p.kind == 'return' and p.value[0] == 'agg' and p.value[2] == 'Ok':
            evs = classify_effects(p)
            stores = [e for e in evs if e.kind in ('gstore', 'vstore', 'astore', 'dwrite')]
            kinds = [e.kind for e in stores]
            ver = [e for e in stores if e.kind == 'vstore']
            ok3 = kinds == ['vstore'] and psi.is_int_const(ver[0].value) and ver[0].value[1] > 0
            chk.ob(r3, 'new:stores-only-a-nonzero-version', ok3, p.where[2],
                   'ShmWriter::new writes into the mapping: %s' % [(e.kind, fmt(e.value)[:20] if getattr(e, 'value', None) else None) for e in stores])
    chk.floor(r1, 'new() paths with wipe', n_wipe, 1)
    chk.floor(r1, 'new() paths without wipe', n_nowipe, 1)


def run(ctx, chk):
    fb = ctx.facts()
    chk.explanation = ('T1: wipe() is reached only on the error edge of the usability probe; T2: nothing else reachable from '
                       'ShmWriter::new creates/truncates/unlinks the file and the mapping open has no O_CREAT/O_TRUNC; T3: new() stores '
                       'only a non-zero version constant into the mapping; T4: write() from any odd start keeps it and completes to '
                       'start+1 (C11, all odd values); T5: the probe is the client\'s own open routine on the same path; T6: wipe writes '
                       'magic, size, version 0, generation 0 in header field order and zero-fills to the declared size; plus the '
                       'reader guard table for version 0 / generation 0 / odd (C03.G1). NOT decided: SIGBUS on truncated mappings, '
                       'page-cache visibility, absence of a second writer, behaviour at arbitrary crash points.')
    chk.not_decided = ['crash-point behaviour itself', 'SIGBUS on truncated mappings', 'second writer process']
    hs = helpers(fb)
    check_new(fb, chk)
    # ---- T5 probe = ShmReader::new on the same path
    probe = hs.get('is_usable_segment')
    if probe is None:
        chk.missing('C04.T5', 'usability probe')
    else:
        chk.saw(probe)
        eng = common.mk_engine(fb, no_inline=lambda x: x.name == 'new' and (x.impl_self or '').endswith('ShmReader'))
        hit = False
        for p in eng.run(probe):
            for ef in p.effects:
                if ef['kind'] == 'call' and ef['callee'].endswith('ShmReader::new'):
                    hit = True
                    from_path = 'path' in fmt(ef['args'][0]) or any('path' in fmt(e2['args'][0]) for e2 in p.effects if e2['kind'] == 'call' and e2['args'])
                    chk.ob('C04.T5', 'probe:is-the-client-open-routine', from_path, ef['site'][2],
                           'the probe calls ShmReader::new(%s)' % fmt(ef['args'][0])[:60])
            open_ok = any(t[0] == 't' and t[1] == 'discr' and t[2][0][0] == 't' and t[2][0][1] == 'call' and
                          t[2][0][2][0].endswith('ShmReader::new') and op == '==' and v == 0 for t, op, v, _ in p.conds)
            if open_ok and p.kind == 'return':
                chk.ob('C04.T5', 'probe:open-ok-implies-usable', p.value[0] == 'agg' and p.value[2] == 'Ok', p.where[2],
                       'on a path where ShmReader::new succeeded the probe returns %s%s' % (
                           fmt(p.value)[:50], '' if p.value[2] == 'Ok' else ' -- a segment clients can open would be wiped by a restarted daemon'))
            if p.kind == 'return' and p.value[0] == 'agg' and p.value[2] == 'Ok':
                opened = any(t[0] == 't' and t[1] == 'discr' and t[2][0][0] == 't' and t[2][0][1] == 'call' and
                             t[2][0][2][0].endswith('ShmReader::new') and op == '==' and v == 0 for t, op, v, _ in p.conds)
                chk.ob('C04.T5', 'probe:ok-iff-open-ok', opened, p.where[2], 'probe returns Ok only when ShmReader::new returned Ok: %s' % opened)
        if not hit:
            chk.ob('C04.T5', 'probe:is-the-client-open-routine', False, probe.where(0), 'the probe does not call ShmReader::new')
    # ---- T2 file mutators reachable from new() outside wipe
    new = hs.get('new')
    if new is not None:
        closure = {}
        work = [new]
        while work:
            b = work.pop()
            if b.path in closure or b.name == 'wipe':
                continue
            closure[b.path] = b
            for bb, t, fn in common.user_calls(b):
                nm = mir.callee_name(fn) if fn else ''
                nb = fb.body(nm)
                if nb is None and fn and fn.get('defkind') == 'Closure':
                    nb = fb.body(fn['path'])
                if nb is not None:
                    work.append(nb)
        n_ext = 0
        for path, b in closure.items():
            chk.saw(b)
            for bb, t, fn in common.user_calls(b):
                nm = mir.callee_name(fn) if fn else ''
                if fb.body(nm) is not None:
                    continue
                n_ext += 1
                last = nm.split('::')[-1]
                bad = [m for m in FILE_MUTATORS if (m in nm and '::' in m) or last == m]
                if bad:
                    chk.ob('C04.T2', 'new:file-mutator:%s' % nm.split('::')[-1], False, b.where(bb),
                           '%s reachable from ShmWriter::new outside wipe(): a usable segment could be emptied or re-created' % nm)
        chk.ob('C04.T2', 'new:no-file-mutator-outside-wipe', True, new.where(0), '%d external call sites inspected in %d functions' % (n_ext, len(closure)))
        chk.analysed['call_sites'] += n_ext
    mm = hs.get('mmap_segment_at')
    if mm is not None:
        chk.saw(mm)
        eng = common.mk_engine(fb)
        seen = False
        for p in eng.run(mm):
            for ef in p.effects:
                if ef['kind'] == 'call' and ef['callee'].split('::')[-1] in ('open', 'openat') and len(ef['args']) >= 2:
                    from .C02 import bits_of
                    fl = bits_of(ef['args'][1])
                    seen = True
                    chk.ob('C04.T2', 'map:open-flags-no-create-no-trunc', fl is not None and not fl & (O_CREAT | O_TRUNC), ef['site'][2],
                           'the mapping open uses flags %s (O_CREAT=0o100, O_TRUNC=0o1000 must be clear)' % (oct(fl) if fl is not None else fmt(ef['args'][1])[:40]))
        if not seen:
            chk.missing('C04.T2', 'open call of the mapping routine')
    # ---- T6 wipe layout
    info = wipe_sequence(fb, chk)
    hdr = layout(fb, 'shm_header::ShmHeader')
    if info is not None and hdr is not None:
        fields = sorted(hdr['variants'][0]['fields'], key=lambda f: f['offset'])
        want = []
        for f in fields:
            if f['name'] == 'magic':
                want += [(4, 'magic0'), (4, 'magic1')]
            else:
                want.append((f['size'], f['name']))
        seq = info['seq']
        typed = [s for s in seq if s[0] != 'fill']
        widths_ok = [w for w, _ in typed] == [w for w, _ in want]
        chk.ob('C04.T6', 'wipe:typed-writes-follow-header-layout', widths_ok, info['where'],
               'wipe writes widths %s; header fields by offset: %s' % ([w for w, _ in typed], want))
        byname = dict(zip([n for _, n in want], [v for _, v in typed])) if widths_ok else {}
        chk.ob('C04.T6', 'wipe:version-and-generation-zero', byname.get('version') == 0 and byname.get('generation') == 0, info['where'],
               'wipe writes version=%s generation=%s' % (byname.get('version'), byname.get('generation')))
        chk.ob('C04.T6', 'wipe:declared-size-is-argument', byname.get('segsize') == 'segsize', info['where'],
               'wipe declares segment size <- %s' % (byname.get('segsize'),))
        fills = [s for s in seq if s[0] == 'fill']
        fill_ok = len(fills) == 1 and fills[0][1] == 'vec![0; Sub(segsize, %d)]' % hdr['size'] and seq.index(fills[0]) == len(typed)
        chk.ob('C04.T6', 'wipe:zero-fill-to-declared-size', fill_ok, info['where'], 'body fill: %s' % (fills[0][1][:120] if fills else None))
        chk.ob('C04.T6', 'wipe:creates-the-file-itself', any('create' in c for c in info['creates']), info['where'], 'file opened by %s' % info['creates'])
        chk.ob('C04.T6', 'wipe:truncates-to-the-documented-size', bool(info['truncates']), info['where'],
               'wipe %s' % ('truncates via %s' % info['truncates'] if info['truncates'] else
                            'never truncates the file: a longer unusable file keeps its old length and trailing bytes instead of the documented layout'))
    # ---- T4 odd start (C11 evaluated on odd values), reader guard table (C03.G1), and T8: the probe
    # (= the open decision list, C16.V1-V3) rejects a file only for the documented reasons -- any
    # extra reason would make a restarted daemon wipe a segment its predecessor left valid
    from . import C11, C03, C16
    imports = () if getattr(chk, '_nested', False) else ((C11, ('C11.P1', 'C11.P2', 'C11.P3', 'C11.P4'), 'C04.T4'), (C03, ('C03.G1',), 'C04.T7'),
                            (C16, ('C16.V1', 'C16.V2', 'C16.V3'), 'C04.T8'))
    for mod, rules, tag in imports:
        sub = type(chk)('C04', LEVEL, chk.tier)
        sub._nested = True
        getattr(mod, 'run_rules', mod.run)(ctx, sub)
        for o in sub.obs:
            if o['rule'] in rules and o['nontrivial']:
                chk.ob(tag, '%s:%s' % (o['rule'], o['key']), o['ok'], o['where'], o['detail'])
