"""C04 Daemon death and restart: the writer's start-up is a short fixed effect sequence
(probe -> [wipe] -> map -> version store), a valid segment is never re-created, wipe lays the
file out as the validation expects, and write() handles an odd starting generation.
Necessary structural conditions; crash-point behaviour itself is not decided."""
from .. import psi, arith, mir
from ..psi import fmt
from . import common
from .open_model import layout
from .seqlock_model import classify_effects
from .startup_model import StartupModel, FileImage, truncates

LEVEL = 'other'

O_CREAT, O_TRUNC, O_EXCL = 0o100, 0o1000, 0o200
FILE_MUTATORS = ('File::create', 'OpenOptions::truncate', 'OpenOptions::create', 'OpenOptions::create_new', 'set_len', 'ftruncate',
                 'remove_file', 'fs::rename', 'unlink', 'fs::write', 'truncate', 'fs::remove_dir', 'posix_fallocate', 'fallocate')


def lossless_origin(v):
    """look through value-preserving wrappers (casts, Ok/Some payloads, try_into / try_from / map_err /
    ok_or.. / into / from / unwrap / expect) to the value a term was converted from"""
    passthrough = ('try_into', 'try_from', 'map_err', 'ok_or', 'ok_or_else', 'into', 'from', 'unwrap', 'expect', 'ok')
    while True:
        v = arith.strip_casts(v)
        if v[0] == 't' and v[1] == 'field' and v[2][0][0] == 't' and v[2][0][1] == 'as' and v[2][0][2][1] in ('Ok', 'Some'):
            v = v[2][0][2][0]
            continue
        if v[0] == 'agg' and v[2] in ('Ok', 'Some') and v[3]:
            v = v[3][0]
            continue
        if v[0] == 't' and v[1] == 'call' and v[2][0].split('::')[-1] in passthrough and len(v[2]) >= 3:
            v = v[2][2]
            continue
        if v[0] == 't' and v[1] == 'call' and 'NonZero' in v[2][0] and v[2][0].endswith(('::new', '::new_unchecked', '::get')) and len(v[2]) >= 3:
            v = v[2][2]
            continue
        return v


def path_sym(m):
    """the symbol of ShmWriter::new's path parameter"""
    return ('sym', m.body.debug_names.get(1, 'arg1'))


def from_path(m, sp, ef):
    """does a call's argument derive from ShmWriter::new's path parameter?  Follows the results of earlier calls on
    the path (CString::new(path.as_os_str().as_bytes()) ... .as_c_str()) through their arguments and pointees"""
    leaf = path_sym(m)
    work = list(ef['args']) + [x for x in (ef.get('pointees') or []) if x is not None]
    seen = set()
    for _ in range(200):
        if not work:
            break
        v = work.pop()
        if v in seen:
            continue
        seen.add(v)
        for x in psi.walk(v):
            if x == leaf:
                return True
            if x[0] == 't' and x[1] == 'call' and isinstance(x[2][1], int) and x[2][1] < len(sp.p.effects):
                e2 = sp.p.effects[x[2][1]]
                if e2['kind'] == 'call':
                    work += [y for y in (e2.get('pointees') or []) if y is not None]
    return False


def segment_size_of(fb):
    hdr, ceb = layout(fb, '::ShmHeader'), layout(fb, '::ClockErrorBound')
    if hdr is None or ceb is None:
        return None
    n = hdr['size'] + ceb['size']
    return n if n % 8 == 0 else n + (8 - n % 8)


def wipe_sequence(fb, chk, m=None):
    """what the start-up writes to the file it creates, on the Ok paths of ShmWriter::new that create it"""
    m = m or StartupModel(fb, chk, 'C04.T6')
    if not m.ok:
        return None
    oks = [sp for sp in m.paths if sp.ok and sp.creates]
    if not oks:
        chk.missing('C04.T6', 'Ok path of ShmWriter::new that creates the file')
        return None
    infos = []
    for sp in oks:
        img = FileImage(sp)
        mlen = None
        for n, ef in sp.maps:
            for a in ef['args']:
                o = lossless_origin(a)
                if psi.is_int_const(o) and o[1] > 0 and mlen is None and a[0] != 'c':
                    mlen = o[1]
        infos.append({'image': img, 'where': sp.creates[0][1]['site'][2], 'creates': [k for _, _, k in sp.creates],
                      'truncates': [k for _, _, k in sp.creates if truncates(k)], 'path': sp.p, 'sp': sp, 'map_len': mlen,
                      'segsize_arg': segment_size_of(fb)})
    first = infos[0]
    first['all'] = infos
    return first


def header_fields(fb):
    """[(offset, width, name)] of the header as rustc laid it out, the magic pair split in its two words"""
    hdr = layout(fb, '::ShmHeader')
    out = []
    for f in sorted(hdr['variants'][0]['fields'], key=lambda f: f['offset']):
        role = common.HDR_ROLE_AT.get(f['offset'], f['name'])      # roles by place in the published layout
        if role == 'magic':
            out += [(f['offset'], 4, 'magic0'), (f['offset'] + 4, 4, 'magic1')]
        else:
            out.append((f['offset'], f['size'], role))
    return out


def image_value(img, off, width):
    """integer constant (or the origin term) the image holds at a header field"""
    v = img.value_at(off, width)
    if v is None:
        return None
    o = lossless_origin(v)
    return o[1] if psi.is_int_const(o) else v[1] if psi.is_int_const(v) else fmt(v)[:80]


def check_new(fb, chk, rule_prefix='C04', m=None):
    """T1/T3 on ShmWriter::new (shared with C16.V4): file-mutating effects only after a failed probe"""
    m = m or StartupModel(fb, chk, rule_prefix)
    if not m.ok:
        return m
    r1 = 'C04.T1' if rule_prefix == 'C04' else rule_prefix
    r3 = 'C04.T3' if rule_prefix == 'C04' else rule_prefix
    n_wipe = n_nowipe = 0
    for sp in m.paths:
        p = sp.p
        if sp.creates:
            n_wipe += 1
            n, ef, kind = sp.creates[0]
            before = bool(sp.probes) and sp.probes[0][0] < n
            good = (sp.probe_result == 'err' and before) or sp.probe_result is None
            chk.ob(r1, 'new:wipe-only-when-unusable', good, ef['site'][2],
                   'the file is (re-)created by %s on a path where the usability probe (ShmReader::new) %s' % (kind, {
                       'err': 'failed', 'ok': 'DID NOT FAIL (a valid segment would be re-created)',
                       'undecided': 'was called but its result NOT CONSULTED (a valid segment would be re-created)',
                       None: 'could not be attempted (its argument could not be built)'}[sp.probe_result]),
                   nontrivial=sp.probe_result is not None)
        elif sp.maps:
            n_nowipe += 1
            chk.ob(r1, 'new:takeover-in-place-when-usable', sp.probe_result == 'ok', sp.maps[0][1]['site'][2],
                   'segment mapped without wipe on a path where the probe %s' % ('succeeded' if sp.probe_result == 'ok' else 'failed or was not consulted'))
        if sp.ok:
            evs = classify_effects(p)
            stores = [e for e in evs if e.kind in ('gstore', 'vstore', 'astore', 'dwrite')]
            kinds = [e.kind for e in stores]
            ver = [e for e in stores if e.kind == 'vstore']
            ok3 = kinds == ['vstore'] and psi.is_int_const(ver[0].value) and ver[0].value[1] > 0
            chk.ob(r3, 'new:stores-only-a-nonzero-version', ok3, p.where[2],
                   'ShmWriter::new writes into the mapping: %s' % [(e.kind, fmt(e.value)[:20] if getattr(e, 'value', None) else None) for e in stores])
            chk.ob(r1, 'new:ok-only-after-mapping', bool(sp.maps), p.where[2], 'Ok path maps the segment: %s' % bool(sp.maps), nontrivial=False)
    chk.floor(r1, 'new() paths with wipe', n_wipe, 1)
    chk.floor(r1, 'new() paths without wipe', n_nowipe, 1)
    return m


def run(ctx, chk):
    fb = ctx.facts()
    chk.explanation = ('T1: the file is created/truncated only on paths where the usability probe (ShmReader::new) failed; T2: every '
                       'file-mutating call site reachable from ShmWriter::new is one of those creation effects and the mapping open has no '
                       'O_CREAT/O_TRUNC; T3: new() stores '
                       'only a non-zero version constant into the mapping; T4: write() from any odd start keeps it and completes to '
                       'start+1 (C11, all odd values); T5: the probe is the client\'s own open routine on the same path; T6: wipe writes '
                       'magic, size, version 0, generation 0 in header field order and zero-fills to the declared size; plus the '
                       'reader guard table for version 0 / generation 0 / odd (C03.G1). NOT decided: SIGBUS on truncated mappings, '
                       'page-cache visibility, absence of a second writer, behaviour at arbitrary crash points.')
    chk.not_decided = ['crash-point behaviour itself', 'SIGBUS on truncated mappings', 'second writer process']
    m = check_new(fb, chk)
    if not m.ok:
        return
    # ---- T5 probe = ShmReader::new on the same path as the file that is created and mapped
    n_probe = 0
    seen_sites = set()
    for sp in m.paths:
        for n, ef in sp.probes:
            if ef['site'] in seen_sites:
                continue
            seen_sites.add(ef['site'])
            n_probe += 1
            chk.ob('C04.T5', 'probe:is-the-client-open-routine', from_path(m, sp, ef), ef['site'][2],
                   'the probe calls ShmReader::new(%s)' % fmt(ef['args'][0])[:60])
        for n, ef, kind in sp.creates[:1]:
            if ('create', ef['site']) not in seen_sites:
                seen_sites.add(('create', ef['site']))
                pe = ef
                if 'OpenOptions' in ef['callee']:
                    # a builder: the path is the argument of the `open` that ends the chain
                    later = [e2 for n2, e2 in sp.calls if n2 > n and e2['callee'].endswith('OpenOptions::open')]
                    pe = later[0] if later else ef
                shown = pe['args'][1] if pe is not ef and len(pe['args']) > 1 else pe['args'][0]
                chk.ob('C04.T5', 'create:same-path', from_path(m, sp, pe), ef['site'][2], '%s on %s' % (kind, fmt(shown)[:40]))
    if not n_probe:
        chk.missing('C04.T5', 'usability probe (a call to ShmReader::new reachable from ShmWriter::new)')
    # ---- T2 every file-mutating call site reachable from new() is an effect the path analysis saw (and so is
    # covered by T1); the open that precedes the mapping creates / truncates nothing
    accounted = {ef['site'][:2] for sp in m.paths for _, ef, _ in sp.creates}
    closure = m.reachable_bodies()
    n_ext = 0
    for path, b in closure.items():
        chk.saw(b)
        for bb, t, fn in common.user_calls(b):
            nm = mir.callee_name(fn) if fn else ''
            if fb.body(nm) is not None:
                continue
            n_ext += 1
            last = nm.split('::')[-1]
            bad = [mu for mu in FILE_MUTATORS if (mu in nm and '::' in mu) or last == mu]
            if bad and (b.path, bb) not in accounted:
                const_false = 'OpenOptions' in nm and t['args'] and len(t['args']) > 1 and t['args'][1].get('k') == 'const' and \
                    str(t['args'][1].get('int', t['args'][1].get('bits'))) == '0'
                if const_false:
                    continue
                chk.ob('C04.T2', 'new:file-mutator:%s' % nm.split('::')[-1], False, b.where(bb),
                       '%s is reachable from ShmWriter::new but on no analysed path: a usable segment could be emptied or re-created' % nm)
    chk.ob('C04.T2', 'new:no-file-mutator-outside-wipe', True, m.body.where(0), '%d external call sites inspected in %d functions' % (n_ext, len(closure)))
    chk.analysed['call_sites'] += n_ext
    seen = False
    done = set()
    for sp in m.paths:
        if not sp.maps:
            continue
        for n, ef in sp.calls:
            if n < sp.maps[0][0] and ef['callee'].split('::')[-1] in ('open', 'openat') and len(ef['args']) >= 2 and \
                    not ef['callee'].startswith('std::') and ef['site'] not in done:
                done.add(ef['site'])
                from .C02 import bits_of
                fl = bits_of(ef['args'][1])
                seen = True
                chk.ob('C04.T2', 'map:open-flags-no-create-no-trunc', fl is not None and not fl & (O_CREAT | O_TRUNC), ef['site'][2],
                       'the mapping open uses flags %s (O_CREAT=0o100, O_TRUNC=0o1000 must be clear)' % (oct(fl) if fl is not None else fmt(ef['args'][1])[:40]))
                chk.ob('C04.T5', 'map:same-path', from_path(m, sp, ef), ef['site'][2], 'the mapping opens %s' % fmt(ef['args'][0])[:40])
    if not seen:
        chk.missing('C04.T2', 'open call of the mapping routine')
    # ---- T6 wipe layout
    info = wipe_sequence(fb, chk, m)
    hdr = layout(fb, '::ShmHeader')
    if info is not None and hdr is not None:
        want = header_fields(fb)
        for inf in info['all']:
            img = inf['image']
            vals = {name: image_value(img, off, w) for off, w, name in want}
            for pr in img.problems:
                chk.ob('C04.T6', 'wipe:image-understood', False, inf['where'], pr)
            chk.ob('C04.T6', 'wipe:typed-writes-follow-header-layout', all(v is not None for v in vals.values()), inf['where'],
                   'file image written after creation: %s; header fields by offset: %s' % (img.describe()[:12], want))
            chk.ob('C04.T6', 'wipe:version-and-generation-zero', vals.get('version') == 0 and vals.get('generation') == 0, inf['where'],
                   'wipe writes version=%s generation=%s' % (vals.get('version'), vals.get('generation')))
            chk.ob('C04.T6', 'wipe:declared-size-is-argument', vals.get('segsize') is not None and vals.get('segsize') == inf['segsize_arg'] ==
                   inf['map_len'], inf['where'], 'wipe declares segment size %s; header + record rounded up to 8 = %s; length mapped afterwards = %s' % (
                       vals.get('segsize'), inf['segsize_arg'], inf['map_len']))
            chk.ob('C04.T6', 'wipe:zero-fill-to-declared-size', img.total is not None and img.total == vals.get('segsize') and img.zero_from(hdr['size']),
                   inf['where'], 'image length %s, declared size %s, bytes after the %d-byte header all zero: %s' % (
                       img.total, vals.get('segsize'), hdr['size'], img.zero_from(hdr['size'])))
            chk.ob('C04.T6', 'wipe:creates-the-file-itself', any('create' in c.lower() or 'flags' in c for c in inf['creates']), inf['where'],
                   'file opened by %s' % inf['creates'])
            chk.ob('C04.T6', 'wipe:truncates-to-the-documented-size', bool(inf['truncates']), inf['where'],
                   'wipe %s' % ('truncates via %s' % inf['truncates'] if inf['truncates'] else
                                'never truncates the file: a longer unusable file keeps its old length and trailing bytes instead of the documented layout'))
    # ---- T10 who may create / truncate / remove files in the daemon: only the repair chain of ShmWriter::new (T1 decides
    # path by path that it runs after a failed probe only). Anything else the daemon's start-up reaches that creates,
    # truncates, removes or renames a file -- a "writability check" in main, a clean-up on the way in -- can empty the very
    # segment a predecessor left valid, before the probe ever looks at it.
    if m.ok and not getattr(chk, '_nested', False):
        mb = common.daemon_main(fb)
        allowed = set(m.reachable_bodies())
        # (through private traits, method values and closures as well: everything ShmWriter::new can run)
        work_ = [m.body]
        while work_:
            b_ = work_.pop()
            for _, _, fn_ in common.user_calls(b_):
                for nb_ in (common.callee_bodies(fb, fn_) if fn_ else []):
                    if nb_.path not in allowed and nb_.crate.name in (common.SHM, common.DAEMON):
                        allowed.add(nb_.path)
                        work_.append(nb_)
            for d_ in b_.closures_built():
                nb_ = fb.body(d_)
                if nb_ is not None and nb_.path not in allowed:
                    allowed.add(nb_.path)
                    work_.append(nb_)
        MUT_LAST = ('create', 'create_new', 'truncate', 'set_len', 'remove_file', 'remove_dir_all', 'remove_dir', 'rename', 'copy',
                    'ftruncate', 'unlink', 'unlinkat', 'write', 'append')

        def mutating(nm):
            last = nm.split('::')[-1]
            if last not in MUT_LAST:
                return False
            if last in ('write', 'append'):
                return nm.endswith(('fs::write', 'OpenOptions::write', 'OpenOptions::append'))
            if last == 'copy':
                return nm.endswith('fs::copy')
            return 'fs::' in nm or 'File' in nm or 'OpenOptions' in nm or nm.startswith(('nix::', 'libc::'))
        n_sites = 0
        if mb is None:
            chk.missing('C04.T10', "the daemon binary's main")
        else:
            for ob, bb, t, fn in common.reachable_calls(fb, mb):
                n_sites += 1
                nm = mir.callee_name(fn)
                if not mutating(nm) and not mutating(fn.get('path') or ''):
                    continue
                owner = ob.path.split('::{closure')[0]
                inside = ob.path in allowed or owner in allowed
                chk.ob('C04.T10', 'files:mutated-only-by-the-repair-chain:%s' % nm.split('::')[-1], inside, ob.where(bb),
                       '%s calls %s %s' % (ob.path, nm, 'inside the repair chain of ShmWriter::new' if inside else
                                           '-- outside ShmWriter::new and its helpers: the daemon creates / truncates / removes a file '
                                           'without having probed the segment first'), nontrivial=not inside)
            chk.analysed['call_sites'] += n_sites
            chk.floor('C04.T10', "call sites reachable from the daemon's main", n_sites, 40)
    # ---- T4 odd start (C11 evaluated on odd values), reader guard table (C03.G1), and T8: the probe
    # (= the open decision list, C16.V1-V3) rejects a file only for the documented reasons -- any
    # extra reason would make a restarted daemon wipe a segment its predecessor left valid
    from . import C11, C03, C16
    from . import C02
    imports = () if getattr(chk, '_nested', False) else ((C11, ('C11.P1', 'C11.P2', 'C11.P3', 'C11.P4'), 'C04.T4'), (C03, ('C03.G1',), 'C04.T7'),
                            (C02, ('C02.S3',), 'C04.T7'),
                            # T9: the segment a stopped daemon leaves behind is what its last write()/new() made it: nothing
                            # else -- a Drop, a shutdown hook -- stores into the mapping (a header field cleared on the way
                            # out makes the next daemon judge a valid segment unusable and wipe it)
                            (C02, ('C02.S4',), 'C04.T9'),
                            (C16, ('C16.V1', 'C16.V2', 'C16.V3'), 'C04.T8'))
    for mod, rules, tag in imports:
        sub = type(chk)('C04', LEVEL, chk.tier)
        sub._nested = True
        getattr(mod, 'run_rules', mod.run)(ctx, sub)
        for o in sub.obs:
            if o['rule'] in rules and o['nontrivial']:
                chk.ob(tag, '%s:%s' % (o['rule'], o['key']), o['ok'], o['where'], o['detail'])
