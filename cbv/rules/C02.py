"""C02 A snapshot is never a mixture: conformance of writer and reader to the seqlock
recipe that is correct under the C11 model (Boehm 2012): fences, orderings, accept test,
caching, who-may-write.  Necessary conditions, decided on every path; not the behaviour."""
import os
import subprocess

from .. import psi, arith, mir, core
from ..psi import fmt
from . import common
from .seqlock_model import (record_coverage, is_record_read, read_terms, WriterModel, ReaderModel, REL_OK, ACQ_OK, classify_effects, DATA_WRITES, ATOMIC_WRITES,
                            atomic_kind)

LEVEL = 'other'


def parity_of(value, leaf, conds, same=()):
    """set of parities {0,1} (and whether 0 is possible) the term can take over all values of
    `leaf` allowed by the path's atoms on that leaf; `same`: further leaves known to be equal to it on this path.
    n == 0 means no value satisfies the path's own atoms: the path is infeasible"""
    par = set()
    zero = False
    n = 0
    leaves = (leaf,) + tuple(same)
    for g in range(65536):
        env = {l: g for l in leaves}
        ok = True
        for c in conds:
            if not any(arith.mentions(c[0], l) or c[0] == l for l in leaves):
                continue
            h = arith.cond_holds(c, env)
            if h is False:
                ok = False
                break
        if not ok:
            continue
        v = arith.eval_int(value, env)
        if v is None:
            return None, None, 0
        n += 1
        par.add(v & 1)
        zero |= (v == 0)
    return par, zero, n


def run_rules(ctx, chk):
    fb = ctx.facts()
    chk.explanation = ('N-clauses: writer = odd store -> release fence -> record copy -> release store of an even non-zero '
                       'value on every path (S1); reader = acquire load -> record copy -> acquire fence -> re-load, accepted only '
                       'if equal and even (S2); the cache is assigned only on acceptance from the same iteration and every Ok '
                       'returns the cache, never shared memory (S3); stores into the mapping only from write()/new(), reader maps '
                       'PROT_READ, both MAP_SHARED (S4); type-level witnesses (S5, thorough tier). NOT decided: kernel coherence of '
                       'MAP_SHARED mappings, formal UB of the racing non-atomic copy, interleaving-level behaviour.')
    chk.not_decided = ['page-cache coherence of MAP_SHARED file mappings', 'UB status of the racing copy',
                       'the behaviour itself (only conformance to the recipe)']
    chk.assumptions = ['Boehm 2012 seqlock recipe: relaxed/any odd store; fence(Release); data; store(Release) || '
                       'load(Acquire); data; fence(Acquire); load(any)']
    # ---------------------------------------------------------------- S1 writer
    w = WriterModel(fb, chk, 'C02.S1')
    if w.ok:
        n_feasible = 0
        for i, (p, evs) in enumerate(zip(w.paths, w.evs)):
            leaf = w.gen_leaf(i)
            if leaf is not None and parity_of(leaf, leaf, p.conds)[2] == 0:
                continue        # no start generation satisfies this path's own conditions: infeasible combination of branches
            n_feasible += 1
            dws = [e for e in evs if e.kind == 'dwrite']
            gss = [e for e in evs if e.kind == 'gstore']
            chk.ob('C02.S1', 'write:has-data-write', bool(dws), p.where[2], '%d record writes on this path' % len(dws), nontrivial=False)
            for d in dws:
                before = [e for e in gss if e.n < d.n]
                after = [e for e in gss if e.n > d.n]
                # odd store before
                odd_ok = False
                if before and leaf is not None:
                    par, zero, n = parity_of(before[-1].value, leaf, p.conds)
                    odd_ok = par == {1}
                chk.ob('C02.S1', 'write:odd-store-before-copy', odd_ok, d.site,
                       'the generation store preceding the record copy %s' % ('stores an odd value for every start value' if odd_ok
                                                                               else 'is missing or can store an even value'))
                # release fence between that store and the copy
                last = before[-1].n if before else -1
                fences = [e for e in evs if e.kind == 'fence' and last < e.n < d.n and e.order in REL_OK]
                weak = [e for e in evs if e.kind in ('cfence',) and last < e.n < d.n] + \
                       [e for e in evs if e.kind == 'fence' and last < e.n < d.n and e.order not in REL_OK]
                chk.ob('C02.S1', 'write:release-fence-before-copy', bool(fences), d.site,
                       'no atomic::fence(Release|AcqRel|SeqCst) between the odd generation store and the record copy%s: the copy may '
                       'become visible before the odd generation (store-store reordering, e.g. ARMv8 stlr; str)' %
                       (' (only %s, which does not order other threads\' view)' % [e.kind + ':' + str(e.order) for e in weak] if weak else '')
                       if not fences else 'fence(%s) at %s separates the odd store from the record copy' % (fences[0].order, fences[0].site))
                # final store: release, even non-zero
                fin_ok = False
                detail = 'no generation store after the record copy'
                if after and leaf is not None:
                    par, zero, n = parity_of(after[-1].value, leaf, p.conds)
                    fin_ok = par == {0} and not zero and after[-1].order in REL_OK[:1] + ('SeqCst',) and after[-1].op == 'store'
                    detail = 'final generation %s(%s): parity %s, zero possible %s' % (after[-1].op, after[-1].order, par, zero)
                chk.ob('C02.S1', 'write:release-store-of-even-after-copy', fin_ok, d.site, detail)
                chk.ob('C02.S1', 'write:no-copy-after-final-store', not [x for x in dws if after and x.n > after[-1].n], d.site,
                       'record writes after the final generation store: %d' % len([x for x in dws if after and x.n > after[-1].n]))
            # S6: what is published under one generation is the whole record: the writes between the two generation stores
            # cover every field (one whole-record copy, or field-by-field copies that leave nothing out)
            if dws:
                cov, unc, misal, unk = record_coverage(fb, p, evs, 'dwrite')
                chk.ob('C02.S6', 'write:record-fully-copied', not unc, dws[0].site,
                       'record fields written between the odd and the even generation store: %s%s' % (
                           cov, '' if not unc else '; NOT written: %s%s -- readers accept the new generation with the old %s' % (
                               unc, ' (%d write(s) of unknown extent)' % len(unk) if unk else '', '/'.join(unc))))
                chk.ob('C02.S6', 'write:accesses-follow-record-layout', not misal, dws[0].site,
                       'record writes that do not start and end on a field boundary of the published layout: %s' % [(e.site, lo, hi) for e, lo, hi in misal])
        chk.floor('C02.S1', 'writer paths', n_feasible, 1)

    # ---------------------------------------------------------------- S2 / S3 reader
    r = ReaderModel(fb, chk, 'C02.S2')
    if r.ok:
        n_accept = 0
        n_reads = 0
        for p, evs in zip(r.paths, r.evs):
            drs = [e for e in evs if e.kind == 'dread']
            gls = [e for e in evs if e.kind == 'gload']
            stores = r.self_stores(p)
            cache = r.returns_cache(p)
            for d in drs:
                n_reads += 1
                before = [e for e in gls if e.n < d.n]
                after = [e for e in gls if e.n > d.n]
                acq = bool(before) and (before[-1].order in ACQ_OK or
                                        any(e.kind == 'fence' and e.order in ACQ_OK and before[-1].n < e.n < d.n for e in evs))
                chk.ob('C02.S2', 'snapshot:acquire-load-before-copy', acq, d.site,
                       'record copy preceded by generation load(%s)' % (before[-1].order if before else None))
                if after:
                    nxt = after[0]
                    fences = [e for e in evs if e.kind == 'fence' and d.n < e.n < nxt.n and e.order in ACQ_OK]
                    weak = [e for e in evs if e.kind == 'cfence' and d.n < e.n < nxt.n]
                    chk.ob('C02.S2', 'snapshot:acquire-fence-after-copy', bool(fences), d.site,
                           'fence(%s) at %s separates the record copy from the generation re-load' % (fences[0].order, fences[0].site) if fences else
                           'no atomic::fence(Acquire|AcqRel|SeqCst) between the record copy and the generation re-load at %s%s: the copy\'s '
                           'loads may be satisfied after the re-load (load-load reordering), so an unchanged generation does not prove '
                           'an unmixed record' % (nxt.site, ' (compiler_fence only)' if weak else ''))
                else:
                    chk.ob('C02.S2', 'snapshot:reload-after-copy', False, d.site, 'record copy is not followed by a generation re-load')
            # acceptance: a path that assigns the cache
            cache_fields = [k for k, v in stores.items() if is_record_read(v)]
            if cache_fields:
                n_accept += 1
                cf = cache_fields[0]
                val = stores[cf]
                # same-iteration read: every part of the cached value was read from the segment on this iteration, and the
                # reads cover the whole record (one whole-record read, or field reads that leave nothing out)
                same = all(t_ in [d.term for d in drs] for t_ in read_terms(val))
                chk.ob('C02.S3', 'snapshot:cache-from-this-read', same, p.where[2], 'cache <- %s' % fmt(val)[:80])
                cov, unc, misal, unk = record_coverage(fb, p, [e for e in evs if e.kind != 'dread' or e.term in read_terms(val)], 'dread')
                chk.ob('C02.S6', 'snapshot:record-fully-copied', not unc, p.where[2],
                       'record fields read into the cache: %s%s' % (cov, '' if not unc else '; NOT read: %s -- the cached record keeps '
                                                                    'their old / default values under the new generation' % unc))
                chk.ob('C02.S6', 'snapshot:accesses-follow-record-layout', not misal, p.where[2],
                       'record reads that do not start and end on a field boundary of the published layout: %s' % [(e.site, lo, hi) for e, lo, hi in misal])
                # accepted on equality of the two loads, even
                eq_ok = False
                even_ok = False
                g1 = g2 = None
                for a, b in common.known_equal(p.conds):
                    if len(gls) >= 2:
                        terms = {e.term for e in gls}
                        if a in terms and b in terms and a != b:
                            eq_ok = True
                            g1, g2 = a, b
                if g1 is not None:
                    par, zero, n = parity_of(g1, g1, p.conds, same=(g2,))
                    even_ok = par == {0} and not zero
                chk.ob('C02.S2', 'snapshot:accept-iff-equal', eq_ok, p.where[2],
                       'acceptance path carries the atom first_gen == second_gen: %s' % eq_ok)
                chk.ob('C02.S2', 'snapshot:accept-only-even-nonzero', even_ok, p.where[2],
                       'accepted generation is even and non-zero on this path: %s' % even_ok)
                chk.ob('C02.S3', 'snapshot:accept-returns-cache', cache == cf, p.where[2], 'acceptance returns &self.%s' % cache)
            elif p.kind == 'return' and p.value[0] == 'agg' and p.value[2] == 'Ok':
                chk.ob('C02.S3', 'snapshot:ok-returns-cache-field', cache is not None and not cache.startswith('<'), p.where[2],
                       'Ok result is %s' % (('&self.%s' % cache) if cache else fmt(p.value)[:80]))
                chk.ob('C02.S3', 'snapshot:cache-untouched-without-accept', not [k for k in stores if r.is_cache_field(k)], p.where[2],
                       'cache fields assigned on a non-accepting path: %s' % sorted(k for k in stores if r.is_cache_field(k)))
        # S2 over two iterations: on EVERY acceptance -- also one reached on a retry -- the record copy that is cached lies
        # between the two generation loads that are compared: first load, copy, acquire fence, second load. A copy kept
        # from an earlier iteration and validated against generations loaded after it proves nothing (seed W1).
        r2 = ReaderModel(fb, chk, 'C02.S2', unroll=2)
        n_br = 0
        if r2.ok:
            for p, evs in zip(r2.paths, r2.evs):
                stores = r2.self_stores(p)
                cf = [k for k, v in stores.items() if is_record_read(v) and r2.is_cache_field(k)]
                if not cf:
                    continue
                val = stores[cf[0]]
                gl = {e.term: e for e in evs if e.kind == 'gload'}
                rd = {e.term: e for e in evs if e.kind == 'dread'}
                pair = None
                for a, b in common.known_equal(p.conds):
                    if a in gl and b in gl and a != b:
                        pair = sorted((gl[a], gl[b]), key=lambda e: e.n)
                reads = [rd[t_] for t_ in read_terms(val) if t_ in rd]
                ok_b = False
                detail = 'acceptance without two compared generation loads'
                if pair and reads and len(reads) == len(read_terms(val)):
                    g1, g2 = pair
                    fenced = all(any(e.kind == 'fence' and e.order in ACQ_OK and x.n < e.n < g2.n for e in evs) for x in reads)
                    ok_b = all(g1.n < x.n < g2.n for x in reads) and fenced
                    # the opening load orders the copy after it: an acquire load, or an acquire fence between it and the copy.
                    # (On a retry the opening value is the closing load of the pass before: relaxing *that* load leaves the next
                    # copy free to be satisfied before it.)
                    first_read = min(x.n for x in reads)
                    opened = g1.order in ACQ_OK or any(e.kind == 'fence' and e.order in ACQ_OK and g1.n < e.n < first_read for e in evs)
                    chk.ob('C02.S2', 'snapshot:opening-load-orders-the-copy', opened, p.where[2],
                           'the generation load that opens the accepted pass (%s, ordering %s) %s' % (g1.site, g1.order,
                           'is an acquire load / is followed by an acquire fence before the copy' if opened else
                           'is neither an acquire load nor followed by an acquire fence before the record copy at %s' % sorted({x.site for x in reads})))
                    detail = ('generation load at %s, record copy at %s, generation load at %s (effect order %s)' % (
                        g1.site, sorted({x.site for x in reads}), g2.site, [g1.n] + sorted(x.n for x in reads) + [g2.n])) + \
                        ('' if ok_b else ' -- the cached copy was not taken between the two compared loads (with an acquire fence '
                         'before the second): the equality of the generations does not cover it')
                n_br += 1
                chk.ob('C02.S2', 'snapshot:accepted-copy-between-compared-loads', ok_b, p.where[2], detail)
            chk.floor('C02.S2', 'acceptance paths over two iterations', n_br, 1)
        # the cache snapshot() falls back on starts out as the reader's empty initial record: the constructor may not fill
        # it (or the cached generation) from the mapping, where an update can be in flight
        rnew = [b for b in fb.bodies(common.SHM) if b.name == 'new' and (b.impl_self or '').endswith('ShmReader') and b.defkind != 'Closure']
        for b in rnew:
            chk.saw(b)
            eng_n, qs_n = common.run_unrolled(fb, b, inline_depth=8)
            n_ok = 0
            for q in qs_n:
                if not (q.kind == 'return' and q.value[0] == 'agg' and q.value[2] == 'Ok' and q.value[3] and q.value[3][0][0] == 'agg'):
                    continue
                n_ok += 1

                def leaves(v, out):
                    if v[0] == 'agg' and v[2] is not None and not v[1].startswith('std::marker'):
                        adt = eng_n.find_adt(v[1], b.crate) or {}
                        flds = adt.get('variants', [{}])[0].get('fields', []) if adt.get('kind') == 'struct' else []
                        names = [f['name'] for f in flds]
                        if v[1].endswith('ClockErrorBound'):
                            out.append(('record', v))
                        elif names and len(names) == len(v[3]) and v[1].startswith(common.SHM):
                            for f_, fv in zip(flds, v[3]):
                                fty = b.crate.types[f_['ty']]['s']
                                if fty.endswith('ClockErrorBound') and not fty.startswith('*'):
                                    out.append(('record', fv))
                                elif fv[0] == 'agg':
                                    leaves(fv, out)
                                elif fty == 'u16':
                                    out.append((f_['name'], fv))      # a cached generation
                    elif v[0] != 'agg':
                        out.append(('?', v))
                    return out
                for nm_, fv in leaves(q.value[3][0], []):
                    derived = any(x[0] == 't' and x[1] in ('call', 'deref') for x in psi.walk(fv)) or any(x[0] == 'sym' for x in psi.walk(fv))
                    if nm_ == 'record' or (fv[0] == 'c' or derived):
                        chk.ob('C02.S3', 'new:cache-starts-empty', not derived, q.where[2],
                               'ShmReader::new initialises its %s with %s' % ('cached record' if nm_ == 'record' else 'field ' + nm_, fmt(fv)[:100]) +
                               ('' if not derived else ' -- read from the segment without the generation check, served later by the cache exits of snapshot()'))
            chk.floor('C02.S3', 'Ok paths of ShmReader::new', n_ok, 1)
        # loop invariant: whatever the retry loop carries as the reference generation into the next
        # iteration is even (otherwise a copy taken while an update is in flight can be accepted)
        from . import C03
        sub = type(chk)('C02', LEVEL, chk.tier)
        sub._nested = True
        C03.run_rules(ctx, sub)
        for o in sub.obs:
            if o['rule'] == 'C03.G4':
                chk.ob('C02.S2', 'snapshot:loop-carried-reference-generation-even', o['ok'], o['where'], o['detail'])
        chk.floor('C02.S2', 'record reads', n_reads, 1)
        chk.floor('C02.S2', 'accept sites', n_accept, 1)
        chk.floor('C02.S2', 'reader paths', len(r.paths), 2)

    # ---------------------------------------------------------------- S4 who may write into the mapping
    allowed = {}
    if w.ok:
        allowed[w.body.path] = {'gstore', 'dwrite'}
    for b in fb.bodies(common.SHM):
        if b.name == 'new' and (b.impl_self or '').endswith('ShmWriter'):
            allowed[b.path] = {'vstore'}
    n_sites = 0
    from .seqlock_model import mapping_store_sites
    shm_bodies = [b for b in fb.bodies(common.SHM)]
    for b in shm_bodies:
        if b.defkind == 'Closure':
            continue
        for i, blk in enumerate(b.blocks):
            for s in blk['stmts']:
                if s['k'] == 'assign' and any(e['k'] == 'deref' for e in s['p']['proj']):
                    t0 = b.local_ty(s['p']['l'])
                    if t0.get('k') == 'ptr':
                        # a plain assignment through a raw pointer is a data write like `ptr.write(..)`: allowed exactly where
                        # those are (the publish routine, on the record); classified with the other stores below
                        chk.saw(b)
                        in_write = w.ok and b.path == w.body.path
                        chk.ob('C02.S4', 'raw-place-store:%s' % b.path.split('::')[-1], in_write or common.only_reached_from(fb, b, {w.body.path} if w.ok else set()),
                               b.where(i), 'direct store through a raw pointer in %s' % b.path.split('::')[-1])
    # every store is classified where its pointer's provenance is known (a helper storing through its own parameter is
    # classified in the functions it is inlined into) and attributed to the function whose body contains the call site
    for kind, site, owner, ev in mapping_store_sites(fb, shm_bodies):
        ob_ = fb.body(owner)
        if ob_ is not None:
            chk.saw(ob_)
        n_sites += 1
        if kind == 'dwrite' and ev.field not in ('ceb', 'generation', 'version', 'mapping'):
            # a write through a pointer that is not one of the mapping pointers (e.g. MaybeUninit buffers)
            continue
        roots = {r for r, kinds in allowed.items() if kind in kinds}
        fn_owner = owner.split('::{closure')[0]
        ok = common.only_reached_from(fb, fn_owner, roots)
        chk.ob('C02.S4', 'mapping-write:%s:%s' % (fn_owner.split('::')[-1], kind), ok, site,
               '%s writes into the mapping (%s)%s' % (fn_owner, kind, '' if ok else
                                                     ' -- only write(), ShmWriter::new() and helpers called from nowhere else may'))
    chk.floor('C02.S4', 'mapping write sites', n_sites, 3)
    # no store-like access at all in the client crates
    for crate in (common.CLIENT, common.FFI):
        for b in fb.bodies(crate):
            for bb, t, fn in common.user_calls(b):
                if fn and atomic_kind(mir.callee_name(fn)) in ATOMIC_WRITES:
                    chk.ob('C02.S4', 'client-atomic-write:%s' % b.path.split('::')[-1], False, b.where(bb),
                           'client-side crate performs an atomic write')
    mmap_flags(fb, chk)
    if ctx.tier == 'thorough':
        witnesses(chk)


def mmap_flags(fb, chk):
    """reader maps PROT_READ only; both map MAP_SHARED"""
    PROT_READ, PROT_WRITE, MAP_SHARED, MAP_PRIVATE = 1, 2, 1, 2
    found = 0
    # which side a mapping belongs to: the constructor that reaches it (the writer's probe of the reader's open routine
    # does not make the reader's mapping a writer mapping)
    from .startup_model import init_reader_open, is_reader_new as is_rnew
    init_reader_open(fb)
    reader_sites, writer_sites = set(), set()
    for b0 in fb.bodies(common.SHM):
        if b0.name == 'new' and b0.defkind != 'Closure' and (b0.impl_self or '').endswith(('ShmReader', 'ShmWriter')):
            side = reader_sites if b0.impl_self.endswith('ShmReader') else writer_sites
            for ob_, bb_, t_, fn_ in common.reachable_calls(fb, b0, stop=None if side is reader_sites else is_rnew):
                if fn_.get('name') == 'mmap':
                    side.add((ob_.path, bb_))
    for b in fb.bodies(common.SHM):
        for bb, t, fn in common.user_calls(b):
            if not fn or fn.get('name') != 'mmap':
                continue
            found += 1
            eng = common.mk_engine(fb, no_inline=lambda x: True)
            prot = flags = None
            for p in eng.run(b):
                for ef in p.effects:
                    if ef['kind'] == 'call' and ef['callee'].endswith('::mmap') and ef['site'][1] == bb:
                        a = ef['args']
                        prot, flags = bits_of(a[2]), bits_of(a[3])
            is_reader = (b.path, bb) in reader_sites and (b.path, bb) not in writer_sites
            if (b.path, bb) not in reader_sites and (b.path, bb) not in writer_sites:
                continue        # a mapping neither constructor reaches
            if is_reader:
                chk.ob('C02.S4', 'mmap:reader-prot-read-only', prot == PROT_READ, b.where(bb), 'reader maps with prot bits %s' % prot)
            else:
                chk.ob('C02.S4', 'mmap:writer-prot', prot is not None and prot & PROT_WRITE and prot & PROT_READ, b.where(bb),
                       'writer maps with prot bits %s' % prot)
            chk.ob('C02.S4', 'mmap:%s-shared' % ('reader' if is_reader else 'writer'),
                   flags is not None and flags & MAP_SHARED and not flags & MAP_PRIVATE, b.where(bb), 'map flags bits %s' % flags)
    chk.floor('C02.S4', 'mmap call sites', found, 2)


def bits_of(v):
    """integer bits of a libc constant or a bitflags value (possibly built with `|`)"""
    if psi.is_int_const(v):
        return v[1]
    if v[0] == 'agg':
        for f in v[3]:
            b = bits_of(f)
            if b is not None:
                return b
        return None
    if v[0] == 't' and v[1] == 'call' and ('BitOr' in v[2][0] or 'bitor' in v[2][0] or 'union' in v[2][0]):
        xs = [bits_of(a) for a in v[2][2:]]
        if all(x is not None for x in xs):
            r = 0
            for x in xs:
                r |= x
            return r
    if v[0] == 'c' and isinstance(v[1], tuple) and v[1][0] == 'b':
        return int.from_bytes(bytes.fromhex(v[1][1]), 'little')
    return None


def witnesses(chk):
    """type-level witnesses: compile_fail doc-tests with compiling twins (nightly --doc)"""
    wdir = os.path.join(core.VERIF, 'witness')
    if not os.path.isdir(wdir):
        chk.missing('C02.S5', 'witness crate')
        return
    lock = os.path.join(core.REPO, 'Cargo.lock')
    env = dict(os.environ, CARGO_NET_OFFLINE='true', CARGO_TARGET_DIR=os.path.join(core.WORK, 'target-witness'),
               CBV_REPO_SHM=os.path.join(core.REPO, 'clock-bound-shm'))
    r = subprocess.run(['bash', os.path.join(wdir, 'run.sh'), core.REPO], cwd=wdir, env=env, stdout=subprocess.PIPE,
                       stderr=subprocess.STDOUT, text=True)
    out = r.stdout
    import re
    res = re.findall(r'test (\S+) - (\S+) \(line \d+\)( - compile fail| - compile)? \.\.\. (\w+)', out)
    for f, item, cf, verdict in res:
        is_cf = cf.strip() == '- compile fail'
        chk.ob('C02.S5', 'witness:%s%s' % (item, ':compile_fail' if is_cf else ':twin'), verdict == 'ok', 'witness/src/lib.rs',
               '%s %s: %s' % (item, 'must not compile' if is_cf else 'must compile', verdict))
    chk.floor('C02.S5', 'witness doc-tests', len(res), 4)
    if r.returncode != 0 and not res:
        chk.ob('C02.S5', 'witness:run', False, 'witness/', out[-600:])


CONTROLS = [('C02.S1', 'write:release-fence-before-copy'), ('C02.S1', 'write:release-store-of-even-after-copy'), ('C02.S2', 'snapshot:acquire-fence-after-copy'), ('C02.S2', 'snapshot:loop-carried-reference-generation-even')]


def run(ctx, chk):
    """the rules on /repo, then the positive controls: the same rules must fire on fixtures/shm_broken"""
    import sys
    from .. import core
    run_rules(ctx, chk)
    if not getattr(chk, '_is_control', False) and not isinstance(ctx, core.FixtureCtx) and not chk.suffix:
        core.run_controls(chk, sys.modules[__name__], 'shm_broken', CONTROLS)
