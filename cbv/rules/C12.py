"""C12 Clock read ordering: on every path of one poll-loop iteration the monotonic read
precedes the chrony query and is the value shipped as as-of; on every path of the client's
now() the REALTIME read precedes the monotonic read and each feeds its own role."""
from .. import psi, mir
from ..psi import fmt
from ..summaries import payload
from . import common
from .client_model import ClientModel
from .poller_model import PollerModel, is_chrony_query

LEVEL = 'proof'


def contains(v, needle):
    return any(x == needle for x in psi.walk(v))


def run(ctx, chk):
    fb = ctx.facts()
    chk.explanation = ('Effect order on all paths (PSI) plus CFG dominance / loop membership: monotonic read before '
                       'the chrony query inside the poll loop and shipped as as-of; REALTIME read before monotonic '
                       'read in now(), each feeding its role in the bound computation.')
    chk.assumptions = ['a chrony query is a call to a method named get_tracking of the poller trait or to '
                       'chrony_candm::blocking_query*']
    # ---------------------------------------------------------------- O1 / O3 daemon
    pm = PollerModel(fb, chk, 'C12.O1')
    if pm.ok:
        b = pm.body
        n_q = 0
        for info in pm.infos:
            if info['query'] is None:
                continue
            n_q += 1
            qn, qef = info['query']
            before = [(n, cid, ef) for n, cid, ef in info['reads'] if n < qn and cid in common.MONOTONIC_FAMILY]
            chk.ob('C12.O1', 'poll:monotonic-read-before-query', bool(before), qef['site'][2],
                   'a path reaches the chrony query at %s without a prior monotonic clock read' % qef['site'][2]
                   if not before else 'monotonic read at %s precedes the chrony query at %s' %
                   (before[-1][2]['site'][2], qef['site'][2]))
            for n, cid, ef in before[-1:]:
                site = ef['site']
                inl = site[0] == b.path and pm.in_loop(site[1])
                if not inl:
                    # the read is made by a helper called (inlined) from inside the loop on this path
                    for e2 in info['path'].effects[:n]:
                        if e2['kind'] == 'inline' and e2['site'][0] == b.path and pm.in_loop(e2['site'][1]):
                            hb = fb.body(e2['callee'])
                            if hb is not None and (e2['callee'] == site[0] or common.reaches_call(
                                    fb, hb, lambda nm, tgt=site[0]: nm == tgt)):
                                inl = True
                chk.ob('C12.O1', 'poll:read-inside-loop', inl, site[2],
                       'the monotonic read %s the poll loop' % ('is inside' if inl else 'is hoisted out of'))
            # O3: as-of shipped in the data message
            msg = pm.message_of(info)
            if msg is not None and msg[0] == 'agg' and msg[2] == 'ClockErrorBoundData':
                tup = msg[3][0]
                asof = tup[3][-1] if tup[0] == 'agg' and tup[3] else None
                good = False
                detail = 'as-of component is %s' % (fmt(asof)[:160] if asof else None)
                if asof is not None and before:
                    n, cid, ef = before[-1]
                    leaf = payload(psi.T('call', ef['callee'], n, *ef['args']), 'Ok')
                    good = asof == leaf
                    # any clock read after the query flowing into as-of is the classic mistake
                    for n2, cid2, ef2 in info['reads']:
                        if n2 > qn and contains(asof, psi.T('call', ef2['callee'], n2, *ef2['args'])):
                            good = False
                            detail += ' (taken from a clock read AFTER the query at %s)' % ef2['site'][2]
                chk.ob('C12.O3', 'poll:as-of-is-pre-query-read', good, info['sends'][0][1]['site'][2], detail)
                # O4: the report that as-of is attached to is the reply to *that* query -- the one issued after the read on
                # this iteration. A report carried over from an earlier iteration (held back, cached, re-sent) was requested
                # before this iteration's clock read, so its as-of would post-date its request.
                rep = tup[3][0] if tup[0] == 'agg' and tup[3] else None
                qterm = psi.T('call', qef['callee'], qn, *qef['args'])
                from_query = rep is not None and contains(rep, qterm)
                def loop_syms_outside_query(v):
                    # (the receiver of the query itself may be loop-carried -- the poller object held in a closure's
                    # environment: what matters is data that does not come from this iteration's reply)
                    if v == qterm:
                        return False
                    if v[0] == 'sym':
                        return str(v[1]).startswith('loop:')
                    if v[0] == 't':
                        return any(loop_syms_outside_query(a) for a in v[2] if isinstance(a, tuple) and a and a[0] in ('t', 'sym', 'agg', 'ref'))
                    if v[0] == 'agg':
                        return any(loop_syms_outside_query(a) for a in v[3])
                    return False
                stale = rep is not None and loop_syms_outside_query(rep)
                chk.ob('C12.O4', 'poll:report-is-the-reply-to-this-query', from_query and not stale, info['sends'][0][1]['site'][2],
                       'the report shipped with this as-of is %s%s' % (fmt(rep)[:120] if rep is not None else None,
                           '' if from_query and not stale else ' -- not the reply to the query that followed this iteration\'s clock read: '
                           'the as-of does not precede the request that produced the report'))
        chk.floor('C12.O1', 'paths through the chrony query', n_q, 1)
        # CFG form: a clock read (direct, or a call that reaches one) dominates every call that reaches the chrony query;
        # a single call that reaches both is checked inside its callee
        n_q = [0]

        def is_read(nm):
            return common.is_clock_read(nm)

        def cfg_ok(body, depth=0, param_runs_query=False):
            reads, queries = [], []
            for bb, t, fn in common.user_calls(body):
                if not fn:
                    continue
                nm = mir.callee_name(fn)
                nbs = common.callee_bodies(fb, fn)      # (a trait method on a type parameter: every workspace impl)
                nb = nbs[0] if len(nbs) == 1 else None
                if is_read(nm) or (nbs and all(is_read(x.path) or common.reaches_call(fb, x, is_read) for x in nbs)):
                    reads.append((bb, nb, False))
                # a closure that runs the query, handed to a helper: the helper's call of its callable parameter is the query
                via_closure = any(common.reaches_call(fb, x, is_chrony_query) for x in common.closure_args(fb, body, t))
                if is_chrony_query(fn['path']) or is_chrony_query(nm) or any(common.reaches_call(fb, x, is_chrony_query) for x in nbs) or via_closure or \
                        (param_runs_query and fn['path'] in ('std::ops::FnOnce::call_once', 'std::ops::FnMut::call_mut', 'std::ops::Fn::call') and fb.body(nm) is None):
                    queries.append((bb, nb, via_closure))
            chk.analysed['call_sites'] += len(reads) + len(queries)
            ok_all = True
            for q, qb, via in queries:
                n_q[0] += 1
                dom = [r for r, _, _ in reads if r != q and body.dominates(r, q)]
                if dom:
                    continue
                if any(r == q for r, _, _ in reads) and qb is not None and depth < 4:
                    ok_in, qs_in = cfg_ok(qb, depth + 1, param_runs_query=via)
                    if ok_in and (qs_in or not via):
                        continue
                ok_all = False
                chk.ob('C12.O1', 'poll:cfg-read-dominates-query', False, body.where(q), 'no clock read dominates the chrony query in %s' % body.path)
            return ok_all, queries
        ok_cfg, qs = cfg_ok(b)
        if ok_cfg and qs:
            chk.ob('C12.O1', 'poll:cfg-read-dominates-query', True, b.where(qs[0][0]),
                   'in the poll loop (and the helpers that contain both) a clock read dominates every call that reaches the chrony query')
        if not qs:
            chk.missing('C12.O1', 'chrony query call site in the poll loop')

    client_entry_order(fb, chk)
    # ---- O6 the instant that is *published* with a report's bound is the one the poller read before asking for that report:
    # the writer takes as-of from the message, not from anything newer it can lay hands on (a shared "latest stamp", its own
    # clock read) -- C08.A's statement, without which the ordering established above is lost between the two threads
    from . import C08
    n6 = common.import_obligations(ctx, chk, C08, 'C12', LEVEL, lambda o: o['rule'] == 'C08.A' and o['key'].startswith('advance:as-of-from-message'), 'C12.O6')
    if not getattr(chk, '_nested', False):
        chk.floor('C12.O6', 'synchronised paths of the writer checked for taking as-of from the message (imported)', n6, 1)
    # ---------------------------------------------------------------- O2 client
    cm = ClientModel(fb, chk, 'C12.O2')
    if cm.ok:
        n2 = 0
        for info in cm.infos:
            reads = info['reads']
            if len(reads) < 2:
                continue
            n2 += 1
            ids = [cid for cid, _ in reads]
            first_real = ids[0] == common.CLOCK_REALTIME
            later_mono = all(c in common.MONOTONIC_FAMILY for c in ids[1:])
            chk.ob('C12.O2', 'now:realtime-read-first', first_real and later_mono, reads[0][1]['site'][2],
                   'clock ids read in order %s (0 = CLOCK_REALTIME, %s = monotonic family)' %
                   (ids, sorted(common.MONOTONIC_FAMILY)))
            p = info['path']
            if p.kind == 'return' and p.value[0] == 'agg' and p.value[2] == 'Ok' and info['real'] and info['mono']:
                tup = p.value[3][0]
                e, l = tup[3][0], tup[3][1]
                uses_real = contains(e, info['real']) and contains(l, info['real'])
                # the monotonic reading must not be the centre, the realtime reading must not be the age
                chk.ob('C12.O2', 'now:roles', uses_real and not _centre_is(e, info['mono']), p.where[2],
                       'interval centre uses the REALTIME reading: %s' % uses_real)
        chk.floor('C12.O2', 'paths of now() with two clock reads', n2, 1)


def client_entry_order(fb, chk):
    """O5: both client entry points take the snapshot of the segment first and read the clocks afterwards: a delay between a
    clock read and a *later* snapshot lets the call pick up a record published after the clock was read, whose age is then
    counted from its own as-of -- the delay shrinks the interval instead of widening it"""
    from . import wrappers_model
    ws = wrappers_model.load(fb, chk, 'C12.O5')
    n = 0
    for name, w in ws.items():
        for r in w.rows:
            p = r['path']
            calls = [(k, ef) for k, ef in enumerate(p.effects) if ef['kind'] == 'call' and not ef['tracing']]
            snaps = [k for k, ef in calls if ef['callee'].startswith(common.SHM) and ef['callee'].endswith('::snapshot')]
            reads = [(k, ef) for k, ef in calls if common.is_clock_read(ef['callee']) or ef['callee'] in common.CLOCK_READERS]
            if not snaps:
                continue
            n += 1
            early = [(k, ef) for k, ef in reads if k < snaps[0]]
            chk.ob('C12.O5', '%s:clocks-read-after-the-snapshot' % name, not early, (early[0][1] if early else p.effects[snaps[0]])['site'][2],
                   'the %s client entry point %s' % (name, 'takes its snapshot before any clock read' if not early else
                   'reads a clock (%s) BEFORE taking the snapshot: a record published in between is aged from its own as-of' % early[0][1]['callee'].split('::')[-1]))
    chk.floor('C12.O5', 'client entry paths with a snapshot', n, 2)


def _centre_is(v, leaf):
    """is `leaf` the first operand (the centre) of the outermost ts_add/ts_sub?"""
    for x in psi.walk(v):
        if x[0] == 't' and x[1] in ('ts_add', 'ts_sub'):
            return any(y == leaf for y in psi.walk(x[2][0]))
    return False
