"""C11 Generation protocol: the transfer function generation-before -> (value stored before
the copy, value stored after the copy) is extracted from ShmWrite::write by PSI and evaluated
for all 65 536 start values; who-may-store the generation is a crate-wide call-site rule."""
from .. import psi, arith, mir
from ..psi import fmt
from . import common
from .seqlock_model import WriterModel, ATOMIC_WRITES, atomic_kind, classify_effects, target_field

LEVEL = 'proof'
WRAP_TO = 2      # docs/PROTOCOL.md: "Upon rolling over the generation is not set to 0 but it is set to 2."


def doc_wrap_value(ctx):
    import re
    try:
        txt = ctx.read('docs/PROTOCOL.md')
    except OSError:
        return None
    m = re.search(r'rolling over the generation is not set to 0 but it is set to (\d+)', txt)
    return int(m.group(1)) if m else None


def run_rules(ctx, chk):
    fb = ctx.facts()
    chk.explanation = ('Effect sequence of every path of ShmWrite::write (P4) and exhaustive evaluation of the extracted '
                       'stored-value terms and path atoms over all 65 536 generation values an update can start from '
                       '(P1-P3, including wrap and odd start); crate-wide rule that nothing else stores the generation (P5).')
    chk.exhaustive = True
    chk.assumptions = ['single writer (property statement)', 'u16::wrapping_add is addition modulo 2^16 (summary)']
    w = WriterModel(fb, chk, 'C11.P4')
    if not w.ok:
        return
    where0 = w.body.where(0)
    doc = doc_wrap_value(ctx)
    chk.ob('C11.P2', 'doc:wrap-value', doc == WRAP_TO, 'docs/PROTOCOL.md', 'PROTOCOL.md says the generation wraps to %s' % doc, nontrivial=False)
    # ---- P4 effect shape per path
    shapes = []
    for p, evs in zip(w.paths, w.evs):
        if p.kind != 'return':
            chk.ob('C11.P4', 'write:path-kind', False, p.where[2], 'write() has a path of kind %s' % p.kind)
            continue
        seq = [e.kind for e in evs if e.kind in ('gstore', 'dwrite', 'gload', 'vstore', 'astore')]
        core = [k for k in seq if k in ('gstore', 'dwrite')]
        ok = len(core) >= 3 and core[0] == 'gstore' and core[-1] == 'gstore' and core.count('gstore') == 2 and \
            all(k == 'dwrite' for k in core[1:-1])
        chk.ob('C11.P4', 'write:store-copy-store', ok, p.where[2], 'effect order on this path: %s' % seq)
        chk.ob('C11.P4', 'write:starts-from-loaded-generation', seq and seq[0] == 'gload', p.where[2],
               'first shared access is %s' % (seq[0] if seq else None))
        for e in evs:
            if e.kind == 'dwrite':
                chk.ob('C11.P4', 'write:copy-targets-record', e.field == 'ceb', e.site, 'data write through %s' % fmt(e.ef['args'][0])[:60])
        shapes.append(ok)
    chk.floor('C11.P4', 'paths of write()', len(w.paths), 1)
    # ---- P1..P3 exhaustive
    bad = {}
    covered = 0
    classes = {}
    for g in range(65536):
        enabled = []
        for i, (p, evs) in enumerate(zip(w.paths, w.evs)):
            leaf = w.gen_leaf(i)
            if leaf is None:
                continue
            env = {leaf: g}
            ok = True
            for c in p.conds:
                if not arith.mentions(c[0], leaf):
                    continue
                h = arith.cond_holds(c, env)
                if h is None:
                    bad.setdefault('uneval', (g, fmt(c[0])[:100]))
                    ok = False
                    break
                if not h:
                    ok = False
                    break
            if ok:
                enabled.append((i, env))
        if len(enabled) != 1:
            bad.setdefault('paths', (g, 'start value enables %d paths' % len(enabled)))
            continue
        covered += 1
        i, env = enabled[0]
        stores = [e for e in w.evs[i] if e.kind == 'gstore']
        if len(stores) != 2:
            continue
        # what the generation word holds after each write: the operand for a plain store / swap, the read-modify-write
        # result for the fetch_* family (fetch_max(v) leaves max(old, v), fetch_or(v) old | v, ...), `old` being what the
        # word held before (the start value, then the first write's result: write() is the only writer, C11.P5)
        def after(op, old, a):
            if a is None or old is None:
                return None
            f = {'store': lambda: a, 'swap': lambda: a, 'fetch_max': lambda: max(old, a), 'fetch_min': lambda: min(old, a),
                 'fetch_or': lambda: old | a, 'fetch_and': lambda: old & a, 'fetch_xor': lambda: old ^ a,
                 'fetch_add': lambda: (old + a) & 0xffff, 'fetch_sub': lambda: (old - a) & 0xffff,
                 'fetch_nand': lambda: ~(old & a) & 0xffff}.get(op)
            return f() if f else None
        v1 = after(stores[0].op, g, arith.eval_int(stores[0].value, env))
        v2 = after(stores[1].op, v1, arith.eval_int(stores[1].value, env))
        if v1 is None or v2 is None:
            bad.setdefault('uneval', (g, 'stored value not evaluable: %s / %s' % (fmt(stores[0].value)[:60], fmt(stores[1].value)[:60])))
            continue
        cls = 'zero' if g == 0 else 'odd' if g & 1 else 'even'
        classes.setdefault(cls, 0)
        classes[cls] += 1
        exp1 = g if g & 1 else (g + 1) & 0xffff
        exp2 = (exp1 + 1) & 0xffff or WRAP_TO
        if v1 & 1 != 1:
            bad.setdefault('P1', (g, 'start %d: value stored before the copy is %d (not odd)' % (g, v1)))
        if v1 != exp1:
            bad.setdefault('P1v', (g, 'start %d: value stored before the copy is %d, protocol says %d' % (g, v1, exp1)))
        if v2 & 1 or v2 == 0:
            bad.setdefault('P2', (g, 'start %d: value stored after the copy is %d (must be even and non-zero)' % (g, v2)))
        if v2 != exp2:
            bad.setdefault('P2v', (g, 'start %d: value stored after the copy is %d, protocol says %d' % (g, v2, exp2)))
        if v2 == g:
            bad.setdefault('P3', (g, 'start %d: generation after the update equals the one before' % g))
    chk.analysed['call_sites'] += 65536
    chk.ob('C11.P1', 'all-65536:odd-during-update', 'P1' not in bad and 'P1v' not in bad and 'uneval' not in bad and 'paths' not in bad, where0,
           (bad.get('P1') or bad.get('P1v') or bad.get('uneval') or bad.get('paths') or (0, 'for every start value the first store is odd (g+1 if g even, g if g odd)'))[1])
    chk.ob('C11.P2', 'all-65536:even-nonzero-after', 'P2' not in bad and 'P2v' not in bad, where0,
           (bad.get('P2') or bad.get('P2v') or (0, 'for every start value the last store is even, non-zero; 65534/65535 wrap to %d' % WRAP_TO))[1])
    chk.ob('C11.P3', 'all-65536:value-changes', 'P3' not in bad, where0,
           (bad.get('P3') or (0, 'for every start value the completed generation differs from the start value'))[1])
    chk.ob('C11.P1', 'all-65536:covered', covered == 65536, where0, '%d of 65536 start values decided (%s)' % (covered, classes), nontrivial=False)
    chk.tables['start_classes'] = classes

    # ---- P7 the protocol is the same in the build that ships: nothing with an effect sits inside a `debug_assert!` of the
    # shm crate (an odd-generation store written as `debug_assert!(gen.compare_exchange(..).is_ok())` exists in debug builds
    # only: the release writer copies the record under an even generation)
    shm_bodies = list(fb.bodies(common.SHM))
    hz = common.debug_only_effects(fb, shm_bodies)
    chk.analysed['functions'] |= {b.path for b in shm_bodies if any(mir.is_from_macro(blk['tspan'], names=common.DEBUG_ONLY_MACROS) for blk in b.blocks)}
    chk.ob('C11.P7', 'debug-assertions-are-free-of-effects', not hz, hz[0][2] if hz else where0,
           'calls with an effect inside a debug_assert! of the shm crate: %s' % ([(b_.path.split('::')[-1], w_, n_.split('::')[-1]) for b_, _, w_, n_ in hz][:3] or 'none'))
    # ---- P5 who may store the generation / version
    n_sites = 0
    writers = {}
    seen = set()
    from .seqlock_model import mapping_store_sites
    bodies = [b for b in fb.bodies() if not (b.crate.kind == 'bin' and b.crate.name == 'clockbound_client_rust_example')]
    for kind, site, owner, ev in mapping_store_sites(fb, bodies, kinds=('gstore', 'vstore', 'astore')):
        owner = owner.split('::{closure')[0]
        if site in seen:
            continue
        seen.add(site)
        n_sites += 1
        writers.setdefault(owner, []).append((kind, site, fmt(ev.value)[:40] if ev.value else None))
    allowed_gen = {w.body.path}
    for path, lst in writers.items():
        for kind, site, val in lst:
            if kind == 'gstore':
                chk.ob('C11.P5', 'generation-store-in:%s' % path.split('::')[-1], common.only_reached_from(fb, path, allowed_gen), site,
                       '%s stores the generation (%s)' % (path, val))
            elif kind == 'astore':
                chk.ob('C11.P5', 'unclassified-atomic-store-in:%s' % path.split('::')[-1], False, site,
                       '%s performs an atomic store to an unrecognised target' % path)
    chk.analysed['call_sites'] += n_sites
    chk.floor('C11.P5', 'atomic store sites inspected', n_sites, 2)
    # ---- P6: "never returns to 0 ... when an update starts from an odd value left behind by a crashed writer":
    # a restarted writer must take such a segment over in place, i.e. the usability probe is exactly the
    # client open routine and that routine does not look at the generation's parity (C04.T1/T5/T8)
    from .. import core as _core
    if not isinstance(ctx, _core.FixtureCtx) and not getattr(chk, '_nested', False):
        from . import C04
        sub = type(chk)('C11', LEVEL, chk.tier)
        sub._nested = True
        getattr(C04, 'run_rules', C04.run)(ctx, sub)
        n6 = 0
        for o in sub.obs:
            if o['rule'] in ('C04.T1', 'C04.T5', 'C04.T8', 'C04.T3') and o['nontrivial']:
                n6 += 1
                chk.ob('C11.P6', '%s:%s' % (o['rule'], o['key']), o['ok'], o['where'], o['detail'])
        chk.floor('C11.P6', 'restart/takeover obligations', n6, 5)
    chk.tables['atomic_writers'] = {k: v for k, v in writers.items()}


CONTROLS = [('C11.P2', 'all-65536:even-nonzero-after')]


def run(ctx, chk):
    """the rules on /repo, then the positive controls: the same rules must fire on fixtures/shm_broken"""
    import sys
    from .. import core
    run_rules(ctx, chk)
    if not getattr(chk, '_is_control', False) and not isinstance(ctx, core.FixtureCtx) and not chk.suffix:
        core.run_controls(chk, sys.modules[__name__], 'shm_broken', CONTROLS)
