"""C18 Reading never blocks or spins forever: the retry loop of snapshot() has a ranking
variable, there is no other cycle on the client call paths (CFG or call graph), and those
paths call nothing that can block."""
from .. import psi, mir
from ..psi import fmt
from . import common, wrappers_model

LEVEL = 'proof'

DENY = ('std::thread::', 'std::sync::mpsc', 'std::sync::Mutex', 'std::sync::Condvar', 'std::sync::RwLock', 'std::sync::Barrier',
        'std::sync::Once', 'std::fs::', 'std::io::', 'std::net::', 'std::process::', 'std::os::', 'std::hint::spin_loop',
        'std::sync::poison', 'parking', 'futex', 'nix::', 'libc::')
LIBC_OK = ('clock_gettime', '__errno_location')
ALLOW_PREFIX = ('std::', 'errno::', '<', 'clock_bound_shm::', 'clock_bound_client::', 'clockbound::')


def closure_of(fb, entries):
    closure = {}
    edges = {}
    work = list(entries)
    while work:
        b = work.pop()
        if b.path in closure:
            continue
        closure[b.path] = b
        edges[b.path] = set()
        for bb, t, fn in common.user_calls(b):
            nm = mir.callee_name(fn) if fn else None
            nb = fb.body(nm) if nm else None
            if nb is None and fn and nm == '<T as std::convert::Into<U>>::into' and len(fn.get('targs') or []) >= 2:
                nb = common.mk_engine(fb).find_from_impl(b.crate, fn['targs'][0], fn['targs'][1])
            if nb is not None:
                edges[b.path].add(nb.path)
                work.append(nb)
    return closure, edges


def ranking(b, head, tail):
    """(ok, description): the natural loop (tail -> head) is controlled by a counter with a
    constant positive start, tested `> k` (k >= 0) at the head, decremented by a positive
    constant on every path to the back-edge and assigned nowhere else in the loop"""
    loop = b.natural_loop(tail, head)
    ht = b.blocks[head]['term']
    if ht['k'] != 'switch':
        return False, 'loop head bb%d does not end in a conditional exit' % head
    d = ht['discr']
    if d.get('k') not in ('copy', 'move') or d['p']['proj']:
        return False, 'loop condition is not a plain local'
    dl = d['p']['l']
    cmp_stmt = None
    for s in b.blocks[head]['stmts']:
        if s['k'] == 'assign' and s['p']['l'] == dl and not s['p']['proj'] and s['r']['k'] == 'bin':
            cmp_stmt = s['r']
    if cmp_stmt is None or cmp_stmt['op'] not in ('Gt', 'Ge', 'Ne', 'Lt', 'Le'):
        return False, 'loop condition is not a counter comparison'
    # which operand is the counter (a copy of a local), which the constant
    def src_local(o):
        if o.get('k') in ('copy', 'move') and not o['p']['proj']:
            l = o['p']['l']
            for s in b.blocks[head]['stmts']:
                if s['k'] == 'assign' and s['p']['l'] == l and not s['p']['proj'] and s['r']['k'] == 'use' and \
                        s['r']['op'].get('k') in ('copy', 'move') and not s['r']['op']['p']['proj']:
                    return s['r']['op']['p']['l']
            return l
        return None
    l, r = cmp_stmt['l'], cmp_stmt['r']
    ctr = src_local(l)
    k = int(r['int']) if r.get('k') == 'const' and 'int' in r else (int(r['bits']) if r.get('k') == 'const' and 'bits' in r else None)
    if ctr is None or k is None or cmp_stmt['op'] not in ('Gt', 'Ge', 'Ne') or k < 0:
        return False, 'loop condition is not `counter > const` (op %s)' % cmp_stmt['op']
    # stay-in-loop edge must be the "true" edge
    inside = [tgt for _, tgt in b.succ_edges(head) if tgt in loop and tgt != head]
    true_tgt = ht['otherwise']
    if true_tgt not in loop:
        return False, 'the loop is left when the counter test is true'
    # assignments to ctr
    decs = set()
    others = []
    init = None
    for i, blk in enumerate(b.blocks):
        if blk['cleanup']:
            continue
        for s in blk['stmts']:
            if s['k'] != 'assign' or s['p']['l'] != ctr or s['p']['proj']:
                continue
            rv = s['r']
            is_dec = False
            if rv['k'] == 'bin' and rv['op'] in ('Sub', 'SubUnchecked') and src_local(rv['l']) == ctr and rv['r'].get('k') == 'const' and int(rv['r'].get('int', 0)) > 0:
                is_dec = True
            if rv['k'] == 'use' and rv['op'].get('k') in ('copy', 'move') and rv['op']['p']['proj'] and rv['op']['p']['proj'][0].get('i') == 0:
                # move of the .0 of a SubWithOverflow(ctr, c) tuple
                tl = rv['op']['p']['l']
                for blk2 in b.blocks:
                    for s2 in blk2['stmts']:
                        if s2['k'] == 'assign' and s2['p']['l'] == tl and not s2['p']['proj'] and s2['r']['k'] == 'bin' and \
                                s2['r']['op'] == 'SubWithOverflow' and src_local(s2['r']['l']) == ctr and \
                                s2['r']['r'].get('k') == 'const' and int(s2['r']['r'].get('int', 0)) > 0:
                            is_dec = True
            if i in loop:
                if is_dec:
                    decs.add(i)
                else:
                    others.append(i)
            else:
                if rv['k'] == 'use' and rv['op'].get('k') == 'const' and 'int' in rv['op'] and b.dominates(i, head):
                    init = int(rv['op']['int'])
                elif i in b.reachable(0):
                    others.append(i)
        t = blk['term']
        if t['k'] == 'call' and t['dest']['l'] == ctr and i in loop:
            others.append(i)
    if init is None or init <= 0:
        return False, 'counter _%d has no constant positive initial value dominating the loop' % ctr
    if others:
        return False, 'counter _%d is also assigned at %s' % (ctr, [b.where(i) for i in others])
    if not decs:
        return False, 'counter _%d is never decremented inside the loop' % ctr
    # every path head -> tail inside the loop passes a decrement
    avoid = set(decs)
    reach = set()
    st = [s for s in b.succs(head) if s in loop]
    while st:
        x = st.pop()
        if x in reach or x in avoid or x not in loop:
            continue
        reach.add(x)
        if x == tail:
            continue
        st.extend(b.succs(x))
    if tail in reach and tail not in decs:
        return False, 'a path through the loop body reaches the back-edge without decrementing _%d' % ctr
    return True, 'counter _%d starts at %d, loop continues while > %d, decremented at %s on every path to the back-edge' % (
        ctr, init, k, sorted(b.where(i) for i in decs))


def run_rules(ctx, chk):
    fb = ctx.facts()
    chk.explanation = ('B1: the only loop on the client call paths (in snapshot()) has a ranking variable. B2: no other CFG '
                       'cycle and no call-graph cycle in the closure of ClockBoundClient::now / clockbound_now. B3: every external '
                       'callee of that closure is non-blocking (deny-list of blocking families, libc limited to clock_gettime). '
                       'B4: the in-flight / re-initialising exits serve the cache (C03.G1 re-evaluated).')
    chk.assumptions = ['atomic loads, fences, volatile reads and clock_gettime(2) via the vDSO do not block']
    from .. import core as _core
    if isinstance(ctx, _core.FixtureCtx):
        for b in fb.bodies(common.SHM):
            if b.name == 'snapshot':
                for tail, head in b.back_edges():
                    ok, why = ranking(b, head, tail)
                    chk.ob('C18.B1', 'loop:%s:ranking' % b.name, ok, b.where(head), why)
        return
    ws = wrappers_model.load(fb, chk, 'C18.B2')
    entries = [w.body for w in ws.values()]
    closure, edges = closure_of(fb, entries)
    chk.tables['closure'] = sorted(closure)
    loops = []
    for path, b in sorted(closure.items()):
        chk.saw(b)
        for tail, head in b.back_edges():
            loops.append((b, tail, head))
    chk.floor('C18.B1', 'functions on the client call paths', len(closure), 6)
    for b, tail, head in loops:
        ok, why = ranking(b, head, tail)
        chk.ob('C18.B1', 'loop:%s:ranking' % b.path.split('::')[-1], ok, b.where(head), why)
    snap_loops = [x for x in loops if x[0].name == 'snapshot']
    chk.ob('C18.B2', 'loops:only-the-retry-loop', len(loops) == len(snap_loops) and len(snap_loops) <= 1, '',
           'loops on the client call paths: %s' % [(b.path.split('::')[-1], b.where(h)) for b, t, h in loops])
    # call-graph acyclicity
    color = {}
    cyc = []

    def dfs(u, stack):
        color[u] = 1
        for v in edges.get(u, ()):
            if color.get(v) == 1:
                cyc.append(stack + [u, v])
            elif v not in color:
                dfs(v, stack + [u])
        color[u] = 2
    for e in entries:
        if e.path not in color:
            dfs(e.path, [])
    chk.ob('C18.B2', 'call-graph:acyclic', not cyc, '', 'call-graph cycles: %s' % cyc[:2])
    # B3 external callees
    ext = {}
    for path, b in closure.items():
        for bb, t, fn in common.user_calls(b):
            nm = mir.callee_name(fn) if fn else 'indirect'
            if fb.body(nm) is not None:
                continue
            ext.setdefault(nm, []).append(b.where(bb))
        for i, blk in enumerate(b.blocks):
            if blk['term']['k'] == 'call' and blk['term']['func'].get('fn') is None:
                ext.setdefault('indirect call', []).append(b.where(i))
    chk.analysed['call_sites'] += sum(len(v) for v in ext.values())
    for nm, sites in sorted(ext.items()):
        bad = None
        if nm == 'indirect call':
            bad = 'indirect call (cannot be bounded)'
        elif nm.startswith('libc::') or '::libc::' in nm:
            if nm.split('::')[-1] not in LIBC_OK:
                bad = 'libc call other than clock_gettime'
        elif 'nix::sys::time::' in nm and not any(d in nm for d in DENY if d not in ('libc::', 'nix::')):
            bad = None      # TimeSpec arithmetic / conversions: pure
        elif any(d in nm for d in DENY if d not in ('libc::',)):
            bad = 'member of a blocking family'
        elif not nm.startswith(ALLOW_PREFIX):
            bad = 'callee outside the known non-blocking namespaces'
        chk.ob('C18.B3', 'callee:%s' % nm[:90], bad is None, sites[0],
               '%s is %s (%d site(s))' % (nm, 'non-blocking' if bad is None else bad, len(sites)))
    chk.floor('C18.B3', 'external callees classified', len(ext), 5)
    chk.tables['external_callees'] = sorted(ext)
    # B4 import
    from . import C03
    sub = type(chk)('C18', LEVEL, chk.tier)
    sub._nested = True
    C03.run_rules(ctx, sub)
    for o in sub.obs:
        if o['rule'] == 'C03.G1':
            chk.ob('C18.B4', o['key'], o['ok'], o['where'], o['detail'], o['nontrivial'])


CONTROLS = [('C18.B1', 'loop:snapshot:ranking')]


def run(ctx, chk):
    """the rules on /repo, then the positive controls: the same rules must fire on fixtures/shm_broken"""
    import sys
    from .. import core
    run_rules(ctx, chk)
    if not getattr(chk, '_is_control', False) and not isinstance(ctx, core.FixtureCtx) and not chk.suffix:
        core.run_controls(chk, sys.modules[__name__], 'shm_broken', CONTROLS)
