"""C18 Reading never blocks or spins forever: the retry loop of snapshot() has a ranking
variable, there is no other cycle on the client call paths (CFG or call graph), and those
paths call nothing that can block."""
from .. import psi, mir
from ..psi import fmt
from . import common, wrappers_model

LEVEL = 'proof'

DENY = ('std::thread::', 'std::sync::mpsc', 'std::sync::Mutex', 'std::sync::Condvar', 'std::sync::RwLock', 'std::sync::Barrier',
        'std::sync::Once', 'std::fs::', 'std::io::', 'std::net::', 'std::process::', 'std::os::', 'std::hint::spin_loop',
        'std::sync::poison', 'parking', 'futex', 'nix::', 'libc::')
LIBC_OK = ('clock_gettime', '__errno_location')
OPEN_OK = ('open', 'openat', 'open64', 'read', 'pread', 'mmap', 'mmap64', 'munmap', 'close', 'fstat', 'fstat64')
ALLOW_PREFIX = ('std::', 'errno::', '<', 'clock_bound_shm::', 'clock_bound_client::', 'clockbound::')


def closure_of(fb, entries):
    closure = {}
    edges = {}
    work = list(entries)
    while work:
        b = work.pop()
        if b.path in closure:
            continue
        closure[b.path] = b
        edges[b.path] = set()
        for bb, t, fn in common.user_calls(b):
            nm = mir.callee_name(fn) if fn else None
            nb = fb.body(nm) if nm else None
            if nb is None and fn and nm == '<T as std::convert::Into<U>>::into' and len(fn.get('targs') or []) >= 2:
                nb = common.mk_engine(fb).find_from_impl(b.crate, fn['targs'][0], fn['targs'][1])
            if nb is not None:
                edges[b.path].add(nb.path)
                work.append(nb)
    return closure, edges


def _src_local(b, bb, o):
    """the local an operand is a (chain of) copy of, following copies assigned in block bb"""
    if o.get('k') not in ('copy', 'move') or o['p']['proj']:
        return None
    l = o['p']['l']
    for _ in range(4):
        nxt = None
        for s in b.blocks[bb]['stmts']:
            if s['k'] == 'assign' and s['p']['l'] == l and not s['p']['proj'] and s['r']['k'] == 'use' and \
                    s['r']['op'].get('k') in ('copy', 'move') and not s['r']['op']['p']['proj']:
                nxt = s['r']['op']['p']['l']
        if nxt is None:
            break
        l = nxt
    return l


def _const_of(o):
    if o.get('k') == 'const':
        if 'int' in o:
            return int(o['int'])
        if 'bits' in o:
            return int(o['bits'])
    return None


RANK_FB = [None]


def ranking_info(b, head, tail):
    """(ok, description, info): the natural loop (tail -> head) is controlled by a counter: a test
    evaluated on every iteration leaves the loop once the counter reaches its bound, the counter
    starts at a positive constant, is decremented by a positive constant on every path to the
    back-edge and assigned nowhere else in the loop"""
    loop = b.natural_loop(tail, head)
    tests = []
    for i in sorted(loop):
        t = b.blocks[i]['term']
        if t['k'] != 'switch' or not (b.dominates(i, tail) or i == tail):
            continue
        succs = b.succ_edges(i)
        if not any(tgt not in loop for _, tgt in succs) or not any(tgt in loop for _, tgt in succs):
            continue
        d = t['discr']
        if d.get('k') not in ('copy', 'move') or d['p']['proj']:
            continue
        dl = d['p']['l']
        cmp_stmt = None
        for s in b.blocks[i]['stmts']:
            if s['k'] == 'assign' and s['p']['l'] == dl and not s['p']['proj'] and s['r']['k'] == 'bin':
                cmp_stmt = s['r']
        if cmp_stmt is None or cmp_stmt['op'] not in ('Gt', 'Ge', 'Ne', 'Eq', 'Lt', 'Le'):
            continue
        op = cmp_stmt['op']
        ctr, k = _src_local(b, i, cmp_stmt['l']), _const_of(cmp_stmt['r'])
        if ctr is None or k is None:
            # constant on the left: flip
            ctr, k = _src_local(b, i, cmp_stmt['r']), _const_of(cmp_stmt['l'])
            op = {'Gt': 'Lt', 'Ge': 'Le', 'Lt': 'Gt', 'Le': 'Ge', 'Eq': 'Eq', 'Ne': 'Ne'}[op]
        if ctr is None or k is None:
            continue
        stay_when_true = t['otherwise'] in loop
        # normalise to "stays while ctr > m" (m >= 0) or "stays while ctr != 0"
        kind = None
        if stay_when_true and op == 'Gt' and k >= 0:
            kind = ('gt', k)
        elif stay_when_true and op == 'Ge' and k >= 1:
            kind = ('gt', k - 1)
        elif not stay_when_true and op == 'Le' and k >= 0:
            kind = ('gt', k)
        elif not stay_when_true and op == 'Lt' and k >= 1:
            kind = ('gt', k - 1)
        elif stay_when_true and op == 'Ne' and k == 0:
            kind = ('ne0', 0)
        elif not stay_when_true and op == 'Eq' and k == 0:
            kind = ('ne0', 0)
        if kind:
            tests.append((i, ctr, kind))
    if not tests:
        return False, 'no exit test `counter > const` / `counter != 0` is evaluated on every iteration of the loop at %s' % b.where(head), None
    last_why = ''
    for test_bb, ctr, kind in tests:
        decs = set()
        dec_by = set()
        dec_amt = {}
        others = []
        init = None
        for i, blk in enumerate(b.blocks):
            if blk['cleanup']:
                continue
            for s in blk['stmts']:
                if s['k'] != 'assign' or s['p']['l'] != ctr or s['p']['proj']:
                    continue
                rv = s['r']
                is_dec = False
                if rv['k'] == 'bin' and rv['op'] in ('Sub', 'SubUnchecked') and _src_local(b, i, rv['l']) == ctr and (_const_of(rv['r']) or 0) > 0:
                    is_dec = True
                    dec_by.add(_const_of(rv['r']))
                if rv['k'] == 'use' and rv['op'].get('k') in ('copy', 'move') and rv['op']['p']['proj'] and rv['op']['p']['proj'][0].get('i') == 0:
                    tl = rv['op']['p']['l']
                    for j, blk2 in enumerate(b.blocks):
                        for s2 in blk2['stmts']:
                            if s2['k'] == 'assign' and s2['p']['l'] == tl and not s2['p']['proj'] and s2['r']['k'] == 'bin' and \
                                    s2['r']['op'] == 'SubWithOverflow' and _src_local(b, j, s2['r']['l']) == ctr and (_const_of(s2['r']['r']) or 0) > 0:
                                is_dec = True
                                dec_by.add(_const_of(s2['r']['r']))
                if i in loop:
                    (decs.add(i) if is_dec else others.append(i))
                    if is_dec:
                        amt = _const_of(rv['r']) if rv['k'] == 'bin' else None
                        if amt is None:
                            amt = max(dec_by)
                        dec_amt[i] = dec_amt.get(i, 0) + amt
                else:
                    if rv['k'] == 'use' and _const_of(rv['op']) is not None and b.dominates(i, head):
                        init = _const_of(rv['op'])
                    elif i in b.reachable(0):
                        others.append(i)
            t = blk['term']
            if t['k'] == 'call' and t['dest']['l'] == ctr and i in loop:
                others.append(i)
        if init is None and 1 <= ctr <= b.argc and RANK_FB[0] is not None and not [x for x in others if x not in loop]:
            # the budget is a parameter: every caller passes a positive constant
            fb_ = RANK_FB[0]
            vals = []
            for cb in fb_.bodies():
                for bb_, t_, fn_ in cb.calls():
                    if fn_ and b.path in {mir.callee_name(fn_), fn_['path']} and len(t_['args']) >= ctr:
                        a_ = t_['args'][ctr - 1]
                        c_ = _const_of(a_)
                        if c_ is None and a_.get('k') in ('copy', 'move') and not a_['p']['proj']:
                            # a local assigned once from a constant
                            defs = [s2['r'] for blk2 in cb.blocks for s2 in blk2['stmts']
                                    if s2['k'] == 'assign' and s2['p']['l'] == a_['p']['l'] and not s2['p']['proj']]
                            if len(defs) == 1 and defs[0]['k'] == 'use':
                                c_ = _const_of(defs[0]['op'])
                        vals.append(c_)
            if vals and all(v is not None and v > 0 for v in vals):
                init = max(vals)
        if init is None or init <= 0:
            last_why = 'counter _%d has no constant positive initial value dominating the loop' % ctr
            continue
        if others:
            last_why = 'counter _%d is also assigned at %s' % (ctr, [b.where(i) for i in others])
            continue
        if not decs:
            last_why = 'counter _%d is never decremented inside the loop' % ctr
            continue
        if kind[0] == 'ne0' and dec_by != {1}:
            last_why = 'loop runs while _%d != 0 but the counter is decremented by %s (can step over 0)' % (ctr, sorted(dec_by))
            continue
        reach = set()
        st = [s_ for s_ in b.succs(head) if s_ in loop]
        while st:
            x = st.pop()
            if x in reach or x in decs or x not in loop:
                continue
            reach.add(x)
            if x == tail:
                continue
            st.extend(b.succs(x))
        if (tail in reach and tail not in decs) or (head == tail and head not in decs and not decs):
            last_why = 'a path through the loop body reaches the back-edge without decrementing _%d' % ctr
            continue
        # an unsigned counter must not be taken below zero: it would wrap to a huge value (release) or panic (debug). Once the
        # test `ctr > k` has passed the counter is at least k + 1, so one trip round the loop may take at most k + 1 off it.
        cty = b.crate.types[b.locals[ctr]['ty']] if ctr < len(b.locals) else {}
        if (kind[0] == 'gt' and cty.get('k') == 'uint') or kind[0] == 'ne0':
            best = {}

            def longest(x, seen):
                if x in best:
                    return best[x]
                tot = 0
                if x != tail:
                    nxt = [y for y in b.succs(x) if y in loop and y != head and y not in seen]
                    tot = max([longest(y, seen | {y}) for y in nxt] or [0])
                best[x] = dec_amt.get(x, 0) + tot
                return best[x]
            worst = longest(head, {head})
            if kind[0] == 'ne0' and worst != 1:
                last_why = ('loop runs while _%d != 0 but one trip round it can take %d off the counter: it steps over zero and '
                            'the loop does not end' % (ctr, worst))
                continue
            if kind[0] == 'gt' and worst > kind[1] + 1:
                last_why = ('unsigned counter _%d can be decremented by %d on one trip round the loop although the exit test only '
                            'guarantees it is at least %d: it steps over zero and wraps (the loop then runs ~2^%d more times) or '
                            'panics on overflow' % (ctr, worst, kind[1] + 1, cty.get('bits', 32)))
                continue
        desc = 'counter _%d starts at %d, the loop is left unless %s (tested at %s on every iteration), decremented by %s at %s on every path to the back-edge' % (
            ctr, init, ('_%d > %d' % (ctr, kind[1])) if kind[0] == 'gt' else ('_%d != 0' % ctr), b.where(test_bb), sorted(dec_by),
            sorted(b.where(i) for i in decs))
        return True, desc, {'ctr': ctr, 'init': init, 'decs': decs, 'dec_by': dec_by, 'kind': kind}
    return False, last_why, None


def up_counter_info(b, head, tail):
    """third accepted loop shape: a counter that counts UP to a constant: `while n < K { ..; n += c }` -- a test evaluated on
    every iteration leaves the loop once the counter reaches K, the counter starts at a constant, is incremented by a
    positive constant on every path to the back-edge and assigned nowhere else in the loop"""
    loop = b.natural_loop(tail, head)
    tests = []
    for i in sorted(loop):
        t = b.blocks[i]['term']
        if t['k'] != 'switch' or not (b.dominates(i, tail) or i == tail):
            continue
        succs = b.succ_edges(i)
        if not any(tgt not in loop for _, tgt in succs) or not any(tgt in loop for _, tgt in succs):
            continue
        d = t['discr']
        if d.get('k') not in ('copy', 'move') or d['p']['proj']:
            continue
        cmp_stmt = None
        for s in b.blocks[i]['stmts']:
            if s['k'] == 'assign' and s['p']['l'] == d['p']['l'] and not s['p']['proj'] and s['r']['k'] == 'bin':
                cmp_stmt = s['r']
        if cmp_stmt is None or cmp_stmt['op'] not in ('Gt', 'Ge', 'Lt', 'Le'):
            continue
        op = cmp_stmt['op']
        ctr, k = _src_local(b, i, cmp_stmt['l']), _const_of(cmp_stmt['r'])
        if ctr is None or k is None:
            ctr, k = _src_local(b, i, cmp_stmt['r']), _const_of(cmp_stmt['l'])
            op = {'Gt': 'Lt', 'Ge': 'Le', 'Lt': 'Gt', 'Le': 'Ge'}[op]
        if ctr is None or k is None:
            continue
        stay_when_true = t['otherwise'] in loop
        bound = None          # the loop stays while ctr < bound
        if stay_when_true and op == 'Lt':
            bound = k
        elif stay_when_true and op == 'Le':
            bound = k + 1
        elif not stay_when_true and op == 'Ge':
            bound = k
        elif not stay_when_true and op == 'Gt':
            bound = k + 1
        if bound is not None:
            tests.append((i, ctr, bound))
    last_why = 'no exit test `counter < const` is evaluated on every iteration'
    for test_bb, ctr, bound in tests:
        incs, inc_by, others, init = set(), set(), [], None
        for i, blk in enumerate(b.blocks):
            if blk['cleanup']:
                continue
            for s in blk['stmts']:
                if s['k'] != 'assign' or s['p']['l'] != ctr or s['p']['proj']:
                    continue
                rv = s['r']
                is_inc = False
                if rv['k'] == 'bin' and rv['op'] in ('Add', 'AddUnchecked') and _src_local(b, i, rv['l']) == ctr and (_const_of(rv['r']) or 0) > 0:
                    is_inc = True
                    inc_by.add(_const_of(rv['r']))
                if rv['k'] == 'use' and rv['op'].get('k') in ('copy', 'move') and rv['op']['p']['proj'] and rv['op']['p']['proj'][0].get('i') == 0:
                    tl = rv['op']['p']['l']
                    for j, blk2 in enumerate(b.blocks):
                        for s2 in blk2['stmts']:
                            if s2['k'] == 'assign' and s2['p']['l'] == tl and not s2['p']['proj'] and s2['r']['k'] == 'bin' and \
                                    s2['r']['op'] == 'AddWithOverflow' and _src_local(b, j, s2['r']['l']) == ctr and (_const_of(s2['r']['r']) or 0) > 0:
                                is_inc = True
                                inc_by.add(_const_of(s2['r']['r']))
                if i in loop:
                    (incs.add(i) if is_inc else others.append(i))
                else:
                    if rv['k'] == 'use' and _const_of(rv['op']) is not None and b.dominates(i, head):
                        init = _const_of(rv['op'])
                    elif i in b.reachable(0):
                        others.append(i)
            t = blk['term']
            if t['k'] == 'call' and t['dest']['l'] == ctr and i in loop:
                others.append(i)
        if init is None or init < 0 or init >= bound:
            last_why = 'counter _%d has no constant initial value below the bound dominating the loop' % ctr
            continue
        if others:
            last_why = 'counter _%d is also assigned at %s' % (ctr, [b.where(i) for i in others])
            continue
        if not incs:
            last_why = 'counter _%d is never incremented inside the loop' % ctr
            continue
        reach = set()
        st = [s_ for s_ in b.succs(head) if s_ in loop]
        while st:
            x = st.pop()
            if x in reach or x in incs or x not in loop:
                continue
            reach.add(x)
            if x == tail:
                continue
            st.extend(b.succs(x))
        if (tail in reach and tail not in incs) or (head == tail and head not in incs):
            last_why = 'a path through the loop body reaches the back-edge without incrementing _%d' % ctr
            continue
        desc = 'counter _%d starts at %d, the loop is left unless _%d < %d (tested at %s on every iteration), incremented by %s at %s on every path to the back-edge' % (
            ctr, init, ctr, bound, b.where(test_bb), sorted(inc_by), sorted(b.where(i) for i in incs))
        return True, desc, {'ctr': ctr, 'init': max(0, bound - init), 'decs': incs, 'dec_by': inc_by, 'kind': ('up', bound), 'bound': bound}
    return False, last_why, None


def _defs_of(b, l):
    """all whole-local definitions of l: (block, kind, payload)"""
    out = []
    for j, blk in enumerate(b.blocks):
        if blk['cleanup']:
            continue
        for s in blk['stmts']:
            if s['k'] == 'assign' and s['p']['l'] == l and not s['p']['proj']:
                out.append((j, 'assign', s['r']))
        t = blk['term']
        if t['k'] == 'call' and t['dest']['l'] == l and not t['dest']['proj']:
            out.append((j, 'call', t))
    return out


def _origin(b, l):
    """follow single-definition temporaries (`_a = &mut _b`, `_a = &mut *_b`, `_a = move _b`) to the local that
    holds the value; stops at a call result, an aggregate or a multiply-assigned local"""
    for _ in range(8):
        d = _defs_of(b, l)
        if len(d) != 1 or d[0][1] != 'assign':
            return l
        r = d[0][2]
        if r['k'] == 'ref' and all(x.get('k') == 'deref' for x in r['p']['proj']):
            l = r['p']['l']
        elif r['k'] == 'use' and r['op'].get('k') in ('copy', 'move') and not r['op']['p']['proj']:
            l = r['op']['p']['l']
        else:
            return l
    return l


def range_loop_info(b, head, tail):
    """second accepted loop shape: `for _ in <const>..<const>`: every iteration calls Range::next on an
    iterator that is defined once, before the loop, from a range with constant bounds, and leaves the
    loop when it is exhausted"""
    loop = b.natural_loop(tail, head)
    for i in sorted(loop):
        t = b.blocks[i]['term']
        if t['k'] != 'call' or not t['func'].get('fn'):
            continue
        nm = mir.callee_name(t['func']['fn'])
        if not (nm.endswith('::next') and 'Range' in nm) or not (b.dominates(i, tail) or i == tail):
            continue
        a0 = t['args'][0]
        if a0.get('k') not in ('copy', 'move') or a0['p']['proj']:
            continue
        it = _origin(b, a0['p']['l'])
        d = _defs_of(b, it)
        # the iterator local itself is defined once, outside the loop
        if len(d) != 1 or d[0][0] in loop or not b.dominates(d[0][0], head):
            continue
        if d[0][1] != 'call' or not d[0][2]['func'].get('fn') or \
                not mir.callee_name(d[0][2]['func']['fn']).endswith('::into_iter'):
            continue
        a = d[0][2]['args'][0]
        if a.get('k') not in ('copy', 'move') or a['p']['proj']:
            continue
        src = _origin(b, a['p']['l'])
        bounds = None
        for _, kind, r in _defs_of(b, src):
            if kind == 'assign' and r['k'] == 'agg' and (r.get('adt') or '').endswith('::Range') and len(r['ops']) == 2:
                lo, hi = _const_of(r['ops'][0]), _const_of(r['ops'][1])
                if lo is not None and hi is not None:
                    bounds = (lo, hi)
        if bounds is None:
            continue
        # no other use of the iterator in the loop than this next() (a second next() only shortens it; a
        # re-assignment would be a second definition and was excluded above)
        nxt = t['target']
        st = b.blocks[nxt]['term'] if nxt is not None else None
        if st is None or st['k'] != 'switch' or not any(tgt not in loop for tgt in b.succs(nxt)):
            continue
        return True, 'bounded `for` loop over the constant range %d..%d (Range::next at %s drives every iteration)' % (
            bounds[0], bounds[1], b.where(i)), {'ctr': None, 'init': max(0, bounds[1] - bounds[0]), 'decs': set(),
                                               'dec_by': {1}, 'kind': ('range', 0)}
    return False, '', None


def array_loop_info(b, head, tail):
    """fourth accepted loop shape: `for x in <array>` / `for x in <array>.iter()`: every iteration calls next() on an iterator
    defined once, before the loop, from a value whose type is a fixed-length array `[T; N]`, and leaves when it is exhausted"""
    import re
    loop = b.natural_loop(tail, head)
    for i in sorted(loop):
        t = b.blocks[i]['term']
        if t['k'] != 'call' or not t['func'].get('fn'):
            continue
        nm = mir.callee_name(t['func']['fn'])
        if not (nm.endswith('::next') and ('std::array::' in nm or 'std::slice::Iter' in nm)) or not (b.dominates(i, tail) or i == tail):
            continue
        a0 = t['args'][0]
        if a0.get('k') not in ('copy', 'move') or a0['p']['proj']:
            continue
        it = _origin(b, a0['p']['l'])
        d = _defs_of(b, it)
        if len(d) != 1 or d[0][0] in loop or not b.dominates(d[0][0], head):
            continue
        if d[0][1] != 'call' or not d[0][2]['func'].get('fn') or \
                mir.callee_name(d[0][2]['func']['fn']).split('::')[-1] not in ('into_iter', 'iter'):
            continue
        a = d[0][2]['args'][0]
        # an array iterator carries the length in its type: IntoIter<T, N>
        mt = re.search(r'^std::array::(?:iter::)?IntoIter<.*, (\d+)>$', b.tystr(b.locals[it]['ty']))
        if not mt and a.get('k') not in ('copy', 'move'):
            continue
        if not mt:
            ty = b.tystr(a['p']['ty']) if 'ty' in a['p'] else b.tystr(b.locals[a['p']['l']]['ty'])
            mt = re.search(r'\[.*; (\d+)\]$', ty.lstrip('&').replace('mut ', '').strip())
        if not mt:
            # `.iter()` on `&[T]` obtained from an array local by unsizing: look one definition back
            src = _origin(b, a['p']['l'])
            ty2 = b.tystr(b.locals[src]['ty'])
            mt = re.search(r'\[.*; (\d+)\]$', ty2.lstrip('&').replace('mut ', '').strip())
        if not mt:
            continue
        nxt = t['target']
        st = b.blocks[nxt]['term'] if nxt is not None else None
        if st is None or st['k'] != 'switch' or not any(tgt not in loop for tgt in b.succs(nxt)):
            continue
        n = int(mt.group(1))
        return True, 'bounded `for` loop over an array of %d elements (next() at %s drives every iteration)' % (n, b.where(i)), \
            {'ctr': None, 'init': n, 'decs': set(), 'dec_by': {1}, 'kind': ('array', 0)}
    return False, '', None


def ranking(b, head, tail):
    ok, why, _ = ranking_info(b, head, tail)
    if not ok:
        ok4, why4, _ = array_loop_info(b, head, tail)
        if ok4:
            return True, why4
        ok2, why2, _ = range_loop_info(b, head, tail)
        if ok2:
            return True, why2
        ok3, why3, _ = up_counter_info(b, head, tail)
        if ok3:
            return True, why3
    return ok, why


def run_rules(ctx, chk):
    fb = ctx.facts()
    RANK_FB[0] = fb
    chk.explanation = ('B1: the only loop on the client call paths (in snapshot()) has a ranking variable. B2: no other CFG '
                       'cycle and no call-graph cycle in the closure of ClockBoundClient::now / clockbound_now. B3: every external '
                       'callee of that closure is non-blocking (deny-list of blocking families, libc limited to clock_gettime). '
                       'B4: the in-flight / re-initialising exits serve the cache (C03.G1 re-evaluated).')
    chk.assumptions = ['atomic loads, fences, volatile reads and clock_gettime(2) via the vDSO do not block']
    from .. import core as _core
    if isinstance(ctx, _core.FixtureCtx):
        for b in fb.bodies(common.SHM):
            if b.name == 'snapshot':
                for tail, head in b.back_edges():
                    ok, why = ranking(b, head, tail)
                    chk.ob('C18.B1', 'loop:%s:ranking' % b.name, ok, b.where(head), why)
        return
    ws = wrappers_model.load(fb, chk, 'C18.B2')
    entries = [w.body for w in ws.values()]
    closure, edges = closure_of(fb, entries)
    chk.tables['closure'] = sorted(closure)
    loops = []
    for path, b in sorted(closure.items()):
        chk.saw(b)
        for tail, head in b.back_edges():
            loops.append((b, tail, head))
    chk.floor('C18.B1', 'functions on the client call paths', len(closure), 3)
    for b, tail, head in loops:
        ok, why = ranking(b, head, tail)
        chk.ob('C18.B1', 'loop:%s:ranking' % b.path.split('::')[-1], ok, b.where(head), why)
    ranked = [x for x in loops if ranking(x[0], x[2], x[1])[0]]
    chk.ob('C18.B2', 'loops:only-the-retry-loop', len(loops) == len(ranked) and len(loops) <= 1, '',
           'loops on the client call paths: %s (each must have a ranking function; the design has exactly one retry loop)' %
           [(b.path.split('::')[-1], b.where(h)) for b, t, h in loops])
    # call-graph acyclicity
    color = {}
    cyc = []

    def dfs(u, stack):
        color[u] = 1
        for v in edges.get(u, ()):
            if color.get(v) == 1:
                cyc.append(stack + [u, v])
            elif v not in color:
                dfs(v, stack + [u])
        color[u] = 2
    for e in entries:
        if e.path not in color:
            dfs(e.path, [])
    chk.ob('C18.B2', 'call-graph:acyclic', not cyc, '', 'call-graph cycles: %s' % cyc[:2])
    # B3 external callees
    ext = {}
    for path, b in closure.items():
        for bb, t, fn in common.user_calls(b):
            nm = mir.callee_name(fn) if fn else 'indirect'
            if fb.body(nm) is not None:
                continue
            ext.setdefault(nm, []).append(b.where(bb))
        for i, blk in enumerate(b.blocks):
            if blk['term']['k'] == 'call' and blk['term']['func'].get('fn') is None:
                ext.setdefault('indirect call', []).append(b.where(i))
    chk.analysed['call_sites'] += sum(len(v) for v in ext.values())
    for nm, sites in sorted(ext.items()):
        bad = None
        if nm == 'indirect call':
            bad = 'indirect call (cannot be bounded)'
        elif nm.startswith('libc::') or '::libc::' in nm:
            if nm.split('::')[-1] not in LIBC_OK:
                bad = 'libc call other than clock_gettime'
        elif ('nix::sys::time::' in nm or nm.startswith('nix::time::')) and not any(d in nm for d in DENY if d not in ('libc::', 'nix::')):
            bad = None      # TimeSpec arithmetic / conversions: pure; nix::time::clock_gettime = the libc call
        elif any(d in nm for d in DENY if d not in ('libc::',)):
            bad = 'member of a blocking family'
        elif not nm.startswith(ALLOW_PREFIX):
            bad = 'callee outside the known non-blocking namespaces'
        chk.ob('C18.B3', 'callee:%s' % nm[:90], bad is None, sites[0],
               '%s is %s (%d site(s))' % (nm, 'non-blocking' if bad is None else bad, len(sites)))
    chk.floor('C18.B3', 'external callees classified', len(ext), 3)
    chk.tables['external_callees'] = sorted(ext)
    # B5: the other client calls (opening and closing a session) are bounded as well: every loop they can reach has a
    # ranking function, their call graph is acyclic and what they call outside the workspace is file access on the segment
    # (open/read/mmap/close), never a member of a blocking family
    opens = [b for b in fb.bodies(common.CLIENT) if b.defkind != 'Closure' and (b.impl_self or '').endswith('ClockBoundClient')
             and b.name in ('new', 'new_with_path')] + \
            [b for b in fb.bodies(common.FFI) if b.name in ('clockbound_open', 'clockbound_close')]
    chk.floor('C18.B5', 'open / close entry points of the two client libraries', len(opens), 3)
    clo2, edges2 = closure_of(fb, opens)
    n_loops2 = 0
    for path, b in sorted(clo2.items()):
        if path in closure:
            continue
        chk.saw(b)
        for tail, head in b.back_edges():
            n_loops2 += 1
            ok, why = ranking(b, head, tail)
            chk.ob('C18.B5', 'open:loop:%s:ranking' % b.path.split('::')[-1], ok, b.where(head),
                   why if ok else why + ' -- a client that opens a segment in this state never returns')
    chk.ob('C18.B5', 'open:loops-all-ranked', True, '', '%d loop(s) on the open / close paths (%d functions beyond the now() closure)' % (
        n_loops2, len([x for x in clo2 if x not in closure])), nontrivial=False)
    color.clear()
    del cyc[:]
    edges = edges2
    for e in opens:
        if e.path not in color:
            dfs(e.path, [])
    chk.ob('C18.B5', 'open:call-graph-acyclic', not cyc, '', 'call-graph cycles: %s' % cyc[:2])
    for path, b in sorted(clo2.items()):
        if path in closure:
            continue
        for bb, t, fn in common.user_calls(b):
            nm = mir.callee_name(fn) if fn else 'indirect'
            if fb.body(nm) is not None:
                continue
            last = nm.split('::')[-1]
            fam = [d for d in DENY if d in nm and d not in ('libc::', 'nix::', 'std::fs::', 'std::io::', 'std::os::')]
            bad = None
            if fam:
                bad = 'member of a blocking family (%s)' % fam[0]
            elif (nm.startswith('libc::') or '::libc::' in nm) and last not in LIBC_OK + OPEN_OK:
                bad = 'libc call other than opening / reading / mapping / closing the segment file'
            elif nm.startswith('nix::') and not ('nix::sys::time::' in nm or nm.startswith('nix::time::') or nm.startswith(('nix::errno', 'nix::fcntl::OFlag', 'nix::sys::stat::Mode', 'nix::sys::mman::ProtFlags', 'nix::sys::mman::MapFlags'))
                                                 or last in OPEN_OK):
                bad = 'nix call other than opening / reading / mapping / closing the segment file'
            if bad is not None:
                chk.ob('C18.B5', 'open:callee:%s' % nm[:90], False, b.where(bb), '%s is a %s' % (nm, bad))
    # B4 import
    from . import C03
    sub = type(chk)('C18', LEVEL, chk.tier)
    sub._nested = True
    C03.run_rules(ctx, sub)
    for o in sub.obs:
        if o['rule'] == 'C03.G1':
            chk.ob('C18.B4', o['key'], o['ok'], o['where'], o['detail'], o['nontrivial'])


CONTROLS = [('C18.B1', 'loop:snapshot:ranking')]


def run(ctx, chk):
    """the rules on /repo, then the positive controls: the same rules must fire on fixtures/shm_broken"""
    import sys
    from .. import core
    run_rules(ctx, chk)
    if not getattr(chk, '_is_control', False) and not isinstance(ctx, core.FixtureCtx) and not chk.suffix:
        core.run_controls(chk, sys.modules[__name__], 'shm_broken', CONTROLS)
