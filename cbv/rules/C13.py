"""C13 Chronyd outages and PHC read failures degrade status on schedule: message table of
one poll-loop iteration (PSI), grace-period atom and constants, start-up instant, where the
'last good answer' instant is refreshed."""
from .. import psi, arith, mir
from ..psi import fmt, T
from . import common
from .poller_model import PollerModel, is_chrony_query, is_grace_query, mentions_query

LEVEL = 'other'
GRACE_NS = 5_000_000_000


def poller_impl(fb):
    """bodies of the shipped ChronyOperations implementor"""
    from . import poller_model
    poller_model.init_names(fb)
    out = {}
    # a method the trait provides and the shipped implementor does not override is the implementor's method
    bodies = list(fb.bodies(common.DAEMON))
    overridden = {(b.impl_trait.split('<')[0], b.name) for b in bodies if b.impl_trait}
    for b in bodies:
        if b.defkind == 'Closure' or (b.impl_trait or '').startswith('std::'):
            continue
        if not b.impl_trait and not (b.provided_of and (b.provided_of, b.name) not in overridden):
            continue
        if b.name in poller_model.QUERY_METHODS and common.reaches_call(fb, b, lambda n: n.startswith('chrony_candm::') and 'blocking_query' in n):
            out['get_tracking'] = b
        elif b.name in poller_model.GRACE_METHODS and common.reaches_call(
                fb, b, lambda n: n.endswith(('Instant::elapsed', 'Instant::now', 'Instant::duration_since'))):
            out['is_within_grace_period'] = b
        elif b.name in poller_model.GRACE_METHODS and b.argc == 1 and b.tystr(b.locals[0]['ty']) == 'bool':
            # the method the loop asks, although it consults no clock: P2 says what it computes instead
            out.setdefault('is_within_grace_period:no-clock', b)
    if 'is_within_grace_period' not in out and 'is_within_grace_period:no-clock' in out:
        out['is_within_grace_period'] = out['is_within_grace_period:no-clock']
    return out


def check_default_instant(fb, chk, rule):
    """P1 / C09.Q2: Default for the poller puts the last-good-answer instant >= grace in the past"""
    impl = poller_impl(fb)
    self_ty = impl['get_tracking'].impl_self if 'get_tracking' in impl else None
    dflt = [b for b in fb.bodies(common.DAEMON) if b.name == 'default' and self_ty and (b.impl_self or '').split('<')[0] == self_ty.split('<')[0]]
    if not dflt:
        chk.missing(rule, 'Default impl of the poller')
        return
    b = dflt[0]
    chk.saw(b)
    eng = common.mk_engine(fb)
    ps = [p for p in eng.run(b) if p.kind == 'return']
    ok = False
    detail = 'default() = %s' % (fmt(ps[0].value)[:200] if ps else None)
    for p in ps:
        for x in psi.walk(p.value):
            if x[0] == 't' and x[1] == 'instant_checked_sub':
                base, d = x[2]
                l = common.lin_time(d)
                is_now = base[0] == 't' and base[1] == 'call' and base[2][0].endswith('Instant::now')
                if l is not None and not l.terms and is_now:
                    ok = l.const >= GRACE_NS
                    detail = 'initial instant = Instant::now() - %d ns (grace period %d ns)' % (l.const, GRACE_NS)
    chk.ob(rule, 'poller:starts-outside-grace', ok, b.where(0), detail)


def ctor_constant_of_field(fb, method, v):
    """`v` is a read of a (nested) field of `*self` inside `method`: the value Default::default() of that type gives the
    field, when no function of the daemon assigns that field afterwards; else None"""
    names = []
    x = v
    while x[0] == 't' and x[1] == 'field':
        names.append(str(x[2][1]))
        x = x[2][0]
    if not names or not (x[0] == 't' and x[1] == 'deref' and x[2][0][0] == 'sym'):
        return None
    names.reverse()
    dflt = [b for b in fb.bodies(common.DAEMON) if b.name == 'default' and (b.impl_self or '').split('<')[0] == (method.impl_self or '').split('<')[0]]
    if not dflt:
        return None
    eng = common.mk_engine(fb)
    vals = set()
    for p in eng.run(dflt[0]):
        if p.kind != 'return':
            continue
        val = p.value
        for nm in names:
            if val[0] != 'agg':
                return None
            adt = eng.find_adt(val[1]) or {}
            fns = [f['name'] for f in adt.get('variants', [{}])[0].get('fields', [])]
            if nm not in fns:
                return None
            val = val[3][fns.index(nm)]
        vals.add(val)
    if len(vals) != 1:
        return None
    # never assigned outside constructors: no MIR statement of the daemon assigns a field with that name through a reference
    leaf = names[-1]
    for b in fb.bodies(common.DAEMON):
        for blk in b.blocks:
            for st_ in blk['stmts']:
                if st_['k'] == 'assign' and st_['p']['proj'] and st_['p']['proj'][-1].get('k') == 'field' and \
                        str(st_['p']['proj'][-1].get('name')) == leaf and any(e['k'] == 'deref' for e in st_['p']['proj']):
                    return None
    return vals.pop()


def _is_file_read(name):
    last = name.split('::')[-1]
    return ('File' in name and last in ('open', 'read_to_string', 'read_to_end', 'read', 'read_exact')) or \
        name.endswith(('fs::read_to_string', 'fs::read')) or (last in ('read_to_string', 'read_to_end') and 'io::Read' in name)


def _is_id_test(term):
    """an equality test between the reference id of the chrony reply (a `.ref_id` read of the query result) and something
    that is not derived from the reply: the PHC match test, whatever the configured side is called"""
    from .poller_model import mentions_query
    if not (term[0] == 't' and term[1] in ('Eq', 'eq', 'Ne', 'ne') and len(term[2]) == 2):
        return False
    a, b = term[2]
    if mentions_query(a) == mentions_query(b):
        return False
    rep = a if mentions_query(a) else b
    return fmt(rep).rstrip(')').endswith('ref_id')


def _cfg_of(v):
    """the Option the configured side of the match test is read from: X in `as(X, Some).0 ... .field`"""
    for x in psi.walk(v):
        if x[0] == 't' and x[1] == 'as' and len(x[2]) == 2 and x[2][1] == 'Some':
            return x[2][0]
    # a configuration kept in an enum of its own (`ReferenceErrorBound::Phc { refid, path }`): the value that is downcast
    for x in psi.walk(v):
        if x[0] == 't' and x[1] == 'as' and len(x[2]) == 2:
            return x[2][0]
    return None


def _cfg_key(v):
    """the configuration term modulo borrows (`&x`, `*x`)"""
    return fmt(v).replace('*', '').replace('&', '').replace('(', '').replace(')', '')


def run(ctx, chk):
    fb = ctx.facts()
    chk.explanation = ('P1: the poller\'s initial instant is now - c, c >= 5 s. P2: is_within_grace_period() is '
                       'elapsed(last good answer) < 5 s. P3: that instant is assigned only on the reply-is-Tracking arm. '
                       'P4: message table of one loop iteration over reply x (PHC configured and ref-id equal) x sysfs read x '
                       'grace. P5: the PHC bound is attached iff configured ref-id == reported ref-id. NOT decided: real timing.')
    chk.not_decided = ['wall-clock behaviour of Instant::elapsed (R clause)']
    check_default_instant(fb, chk, 'C13.P1')
    impl = poller_impl(fb)
    # ---- P2
    g = impl.get('is_within_grace_period')
    if g is None:
        chk.missing('C13.P2', 'is_within_grace_period of the shipped poller')
    else:
        chk.saw(g)
        ps = [p for p in common.mk_engine(fb).run(g) if p.kind == 'return']
        # decision table of the method over E = elapsed(time of the last good answer): the set of E for which it answers
        # "within the grace period" must be exactly E < 5 s, however the comparison is spelled (`E < G`, `!(E >= G)`,
        # `G.checked_sub(E)` leaving something, a match on `E.cmp(&G)` ...)
        ok = False
        detail = fmt(ps[0].value)[:160] if ps else 'no path'
        leafs = set()
        for p in ps:
            for x in list(psi.walk(p.value)) + [y for c in p.conds for y in psi.walk(c[0])]:
                if x[0] == 't' and x[1] == 'instant_elapsed' and fmt(x[2][0]).startswith('*self.'):
                    leafs.add(x)
        if len(leafs) == 1:
            E = leafs.pop()

            def subst(v):
                """a period kept in a field of the poller is its constructor constant (when nothing assigns it later)"""
                if v == E or not isinstance(v, tuple) or not v:
                    return v
                if v[0] == 't' and v[1] == 'field' and fmt(v).startswith('*self.'):
                    cv = ctor_constant_of_field(fb, g, v)
                    return cv if cv is not None else v
                if v[0] == 't':
                    return ('t', v[1], tuple(subst(x) if isinstance(x, tuple) and x and x[0] in ('t', 'agg') else x for x in v[2]))
                return v
            true_iv, bad = [], False
            for p in ps:
                atoms = []
                for c in p.conds:
                    atoms += common.time_atoms((subst(c[0]), c[1], c[2], c[3]))
                val = p.value
                if psi.is_int_const(val):
                    res = bool(val[1])
                else:
                    a1 = common.time_atom((subst(val), '==', 1, None))
                    if a1 is None:
                        bad = True
                        continue
                    atoms.append(a1)
                    res = True
                lo, hi, rest = common.interval_of(atoms, {E: 1})
                if res and lo <= hi:
                    true_iv.append((max(lo, 0), hi))
            true_iv.sort()
            if not bad and true_iv:
                lo, hi = true_iv[0]
                for l2, h2 in true_iv[1:]:
                    if l2 <= hi + 1:
                        hi = max(hi, h2)
                    else:
                        bad = True
                ok = not bad and lo == 0 and hi in (GRACE_NS - 1, GRACE_NS)
                detail = 'within grace <=> elapsed(%s) in [%s, %s] ns (property: less than %d ns)' % (fmt(E[2][0]), lo, hi, GRACE_NS)
        chk.ob('C13.P2', 'grace:elapsed-lt-5s', ok, g.where(0), detail)
    # ---- P3
    t = impl.get('get_tracking')
    if t is None:
        chk.missing('C13.P3', 'get_tracking of the shipped poller')
    else:
        chk.saw(t)
        eng = common.mk_engine(fb)
        n_some = 0
        for p in eng.run(t):
            if p.kind != 'return':
                continue
            stores = [k for k in p.state.store if k[0][0] == 'S' and k[1]]
            is_some = p.value[0] == 'agg' and p.value[2] == 'Some'
            n_some += is_some
            tracking_arm = any(fmt(c[0]).endswith('.body)') and c[1] == '==' for c in p.conds) and \
                'Tracking' in fmt(p.value)
            chk.ob('C13.P3', 'instant:refreshed-iff-tracking-reply:%s' % ('Some' if is_some else 'None'),
                   bool(stores) == is_some and (not is_some or tracking_arm), p.where[2],
                   'returns %s, assigns %s' % (p.value[2] if p.value[0] == 'agg' else fmt(p.value)[:40],
                                               [psi.fmt_place(k) for k in stores]))
            for k in stores:
                v = p.state.store[k]
                chk.ob('C13.P3', 'instant:refreshed-with-now', v[0] == 't' and v[1] == 'call' and v[2][0].endswith('Instant::now'),
                       p.where[2], '%s <- %s' % (psi.fmt_place(k), fmt(v)[:60]))
        chk.floor('C13.P3', 'get_tracking Some paths', n_some, 1)
    # ---- P4 / P5 message table
    pm = PollerModel(fb, chk, 'C13.P4')
    if not pm.ok:
        return
    # ---- P11: a poll outcome is decided and sent whatever the log level: nothing evaluated as an argument of a log macro
    # in the poller's code can panic (the outcome would never be sent) or does part of the work
    common.log_hazard_obligations(fb, chk, 'C13.P11', [pm.body], 'the chrony polling thread')
    # ---- P12 the first poll happens right away: from the thread's entry point to the poll loop nothing waits -- no loop, no
    # sleep, no read of a mailbox, no wait for chronyd to show up. ("right after daemon start, with no answer ever
    # received, the outcome is Unknown-class immediately": a start-up that waits for chronyd publishes nothing at all.)
    WAITS = ('sleep', 'sleep_ms', 'sleep_until', 'park', 'park_timeout', 'recv', 'recv_timeout', 'recv_deadline', 'wait', 'wait_timeout',
             'wait_while', 'join', 'yield_now', 'spin_loop', 'read_line', 'accept', 'connect')
    cm = common.callers_map(fb)
    chain, cur, seen_c = [], pm.body, set()
    while cur is not None and cur.path not in seen_c and len(chain) < 6:
        seen_c.add(cur.path)
        ups = sorted(cm.get(cur.path, ()))
        ups = [fb.body(u) for u in ups if fb.body(u) is not None and fb.body(u).crate.name == common.DAEMON]
        if len(ups) != 1:
            break
        chain.append((ups[0], cur))
        if ups[0].defkind == 'Closure':
            break
        cur = ups[0]
    late = []
    for caller, callee in chain:
        sites = [bb for bb, t, fn in caller.calls() if fn and (mir.callee_name(fn) == callee.path or fn.get('path') == callee.path)]
        for site in sites:
            for tail, head in caller.back_edges():
                loop_ = caller.natural_loop(tail, head)
                # (a loop that only computes -- fills a table, parses options -- does not wait; one that sleeps, reads a
                # mailbox or probes the file system / the network between its rounds does)
                waits_in_loop = any(fn_ and (mir.callee_name(fn_).split('::')[-1] in WAITS + ('exists', 'try_exists', 'metadata', 'symlink_metadata', 'is_file', 'is_dir') or
                                             any(common.reaches_call(fb, nb_, lambda n_: n_.split('::')[-1] in WAITS) for nb_ in common.callee_bodies(fb, fn_)))
                                    for bb_, t_, fn_ in common.user_calls(caller) if bb_ in loop_)
                if site in caller.reachable(head) and site not in loop_ and waits_in_loop:
                    late.append('%s loops at %s before it calls %s' % (caller.path.split('::')[-1], caller.where(head), callee.path.split('::')[-1]))
            for bb, t, fn in common.user_calls(caller):
                nm = mir.callee_name(fn) if fn else ''
                if bb != site and nm.split('::')[-1] in WAITS and not nm.startswith(('std::fmt', 'tracing')) and site in caller.reachable(bb):
                    late.append('%s calls %s at %s before it calls %s' % (caller.path.split('::')[-1], nm.split('::')[-1], caller.where(bb), callee.path.split('::')[-1]))
    chk.ob('C13.P12', 'start:poll-loop-entered-without-waiting', not late, pm.body.where(0),
           'between the polling thread\'s entry point and its loop (%s): %s' % (
               ' <- '.join(c.path.split('::')[-1] for c, _ in chain) or 'no caller chain found', sorted(set(late))[:3] or 'nothing waits'))
    chk.floor('C13.P12', 'functions between the thread entry and the poll loop', len(chain), 1)
    rows = {}
    # the PHC configuration: the Option whose payload is compared with the reply's reference id on some path of the loop
    cfg_keys = set()
    for info in pm.infos:
        for term, _, _, _ in info['path'].conds:
            if _is_id_test(term):
                a, b2 = term[2]
                x = _cfg_of(b2 if mentions_query(a) else a)
                if x is not None:
                    cfg_keys.add(_cfg_key(x))
    chk.ob('C13.P5', 'phc:configuration-is-one-option', len(cfg_keys) == 1, pm.body.where(0),
           'the reference id of a report is compared with a field of %s' % (sorted(cfg_keys) or 'NOTHING'))
    for info in pm.infos:
        if info['query'] is None:
            continue
        p = info['path']
        gq = [n for n, name, ef in info['calls'] if is_grace_query(name)]
        if gq:
            qn0 = info['query'][0]
            chk.ob('C13.P6', 'grace:decided-after-the-query', all(n > qn0 for n in gq), p.where[2],
                   'is_within_grace_period() evaluated %s the chrony query on this path (the FreeRunning/Unknown decision must use the '
                   'age of the last good answer when the silence is reported, not before a query that can take seconds)' %
                   ('after' if all(n > qn0 for n in gq) else 'BEFORE'))
        msg = pm.message_of(info)
        if msg is None and p.kind == 'panic':
            continue        # the mailbox lookup failed and the thread panics: nothing to classify
        if msg is None:
            # every path through the query must send something
            chk.ob('C13.P4', 'poll:every-outcome-sends', False, p.where[2], 'a path through the chrony query sends no message')
            continue
        qn, qef = info['query']
        qterm = T('call', qef['callee'], qn, *qef['args'])
        reply = None
        phc_cfg = None
        ids_equal = None
        sysfs = None
        for term, op, val, _ in p.conds:
            if term == T('discr', qterm):
                reply = 'tracking' if ((op == '==' and val == 1) or (op == '!=' and 0 in val)) else 'none'
            if term[0] == 't' and term[1] == 'discr' and _cfg_key(term[2][0]) in cfg_keys:
                phc_cfg = (op == '==' and val == 1) or (op == '!=' and 0 in val)
            if _is_id_test(term):
                phc_cfg = True          # the ids are compared on this path: a PHC is configured here, however that is encoded
            if _is_id_test(term):
                truth = (op == '!=' and set(val) == {0}) or (op == '==' and val == 1)
                ids_equal = truth if term[1] in ('Eq', 'eq') else not truth
                # P5: both sides are the configured and the reported id
                a, b2 = term[2]
                rep, cfg = (a, b2) if mentions_query(a) else (b2, a)
                sides = sorted([fmt(a), fmt(b2)])
                good = fmt(rep).endswith('ref_id') and _cfg_of(cfg) is not None and not mentions_query(cfg) and \
                    not any(x[0] == 't' and x[1] == 'call' for x in psi.walk(cfg))
                chk.ob('C13.P5', 'phc:match-atom', good and term[1] in ('Eq', 'eq'), p.where[2],
                       'PHC match test is %s(%s, %s)' % (term[1], sides[0][-40:], sides[1][-40:]))
        # sysfs read outcome: any Err discriminant of an io call between query and send, or the Ok data path
        io_err = False
        for term, op, val, _ in p.conds:
            if term[0] == 't' and term[1] == 'discr' and op == '==' and val == 1:
                inner = term[2][0]
                if inner[0] == 't' and inner[1] == 'call' and ('File::open' in inner[2][0] or 'read_to_string' in inner[2][0]):
                    io_err = True
        use_phc = bool(phc_cfg) and bool(ids_equal)
        if reply == 'tracking' and use_phc:
            sysfs = 'err' if io_err else 'ok'
        kind = msg[2] if msg[0] == 'agg' else fmt(msg)[:40]
        payload_phc = None
        if kind == 'ClockErrorBoundData':
            tup = msg[3][0]
            payload_phc = tup[3][1]
            tr = tup[3][0]
            chk.ob('C13.P4', 'data:tracking-is-the-reply', fmt(tr).endswith('Some).0') and mentions_query(tr), p.where[2],
                   'data message carries %s' % fmt(tr)[-60:])
            # P9: the PHC error bound attached to a report is read from the device *for that report*: the value comes from a
            # file read made after the query on this iteration, not from anything carried over from an earlier one
            if use_phc and not (psi.is_int_const(payload_phc) and payload_phc[1] == 0):
                reads = [n for n, name, ef in info['calls'] if n > qn and _is_file_read(name)]
                derived = [y for y in psi.walk(payload_phc) if y[0] == 't' and y[1] == 'call' and isinstance(y[2][1], int) and y[2][1] > min(reads or [qn])]
                chk.ob('C13.P9', 'data:phc-bound-read-for-this-report', bool(reads) and bool(derived), p.where[2],
                       'PHC error bound sent with the report is %s; file reads after the query on this path: %d%s' % (
                           fmt(payload_phc)[:70], len(reads), '' if reads and derived else
                           ' -- the value is not read from the device for this report (a value kept from an earlier poll is not the '
                           "PHC's error bound when this report was made)"))
            # P10: what is attached as the PHC error bound is the attribute itself: the whole file, parsed as a decimal, taken
            # only when the parse succeeded (a bounded read can cut the text short; `unwrap_or(_default)` turns an unreadable
            # value into a number, i.e. uses the report as a measurement although its PHC error bound could not be read)
            if use_phc and not (psi.is_int_const(payload_phc) and payload_phc[1] == 0):
                parses = [y for y in psi.walk(payload_phc) if y[0] == 't' and y[1] == 'call' and
                          y[2][0].split('::')[-1] in ('parse', 'from_str', 'from_str_radix')]
                ok_take = False
                how = fmt(payload_phc)[:90]
                if len(parses) == 1:
                    x = payload_phc
                    while x[0] == 't' and x[1] in ('cast', 'conv') and x[2]:
                        x = x[2][0]
                    if x[0] == 't' and x[1] == 'call' and x[2][0].split('::')[-1] in ('expect', 'unwrap') and len(x[2]) > 2 and x[2][2] == parses[0]:
                        ok_take = True
                    if x[0] == 't' and x[1] == 'field' and x[2][0][0] == 't' and x[2][0][1] == 'as' and x[2][0][2][0] == parses[0] and x[2][0][2][1] == 'Ok':
                        ok_take = True
                chk.ob('C13.P10', 'data:phc-bound-taken-only-from-a-successful-parse', ok_take, p.where[2],
                       'PHC error bound attached to the report: %s%s' % (how, '' if ok_take else
                       ' -- not the checked result of one parse of the attribute: an unreadable value would still be used'))
                pn = parses[0][2][1] if parses and isinstance(parses[0][2][1], int) else None
                whole = [n for n, name, ef in info['calls'] if pn is not None and qn < n < pn and
                         (name.endswith(('fs::read_to_string', 'fs::read')) or name.split('::')[-1] in ('read_to_string', 'read_to_end', 'read_line', 'lines'))]
                bounded = [(n, name) for n, name, ef in info['calls'] if pn is not None and qn < n < pn and
                           name.split('::')[-1] in ('read', 'read_exact', 'pread', 'read_at', 'read_exact_at', 'read_vectored', 'take') and
                           ('io::Read' in name or name.startswith(('libc::', 'nix::')) or 'File' in name)]
                chk.ob('C13.P10', 'data:phc-attribute-read-whole', bool(whole) and not bounded, p.where[2],
                       'the parsed text comes from %s%s' % ([info['calls'][0][1]] and [nm for n_, nm, e_ in info['calls'] if n_ in whole] or 'no whole-file read',
                       '' if whole and not bounded else ' (bounded reads: %s) -- a value longer than the buffer is cut short and parsed as a smaller number' % [nm for _, nm in bounded]))
        key = (reply, use_phc if reply == 'tracking' else None, sysfs, info['grace'] if (reply == 'none' or sysfs == 'err') else None)
        rows.setdefault(key, set()).add((kind, 'zero' if (payload_phc is not None and psi.is_int_const(payload_phc) and payload_phc[1] == 0)
                                         else 'read' if payload_phc is not None else None))
    oracle = {
        ('none', None, None, True): ('ChronyNotRespondingGracePeriod', None),
        ('none', None, None, False): ('ChronyNotResponding', None),
        ('tracking', False, None, None): ('ClockErrorBoundData', 'zero'),
        ('tracking', True, 'ok', None): ('ClockErrorBoundData', 'read'),
        ('tracking', True, 'err', True): ('PhcErrorBoundRetrievalFailedGracePeriod', None),
        ('tracking', True, 'err', False): ('PhcErrorBoundRetrievalFailed', None),
    }
    where0 = pm.body.where(0)
    for key, want in oracle.items():
        got = rows.get(key)
        chk.ob('C13.P4', 'row:reply=%s/phc=%s/sysfs=%s/grace=%s' % key, got == {want}, where0,
               'poll outcome %s sends %s (oracle %s)' % (key, sorted(got, key=str) if got else None, want))
    extra = set(rows) - set(oracle)
    chk.ob('C13.P4', 'rows:no-unexpected', not extra, where0, 'unexpected outcome classes: %s' % sorted(extra, key=str), nontrivial=False)
    chk.tables['messages'] = {str(k): sorted(map(str, v)) for k, v in rows.items()}

    # ---- P7: configuration reaches the poller: when both PHC options are given main hands the manager Some(PhcInfo) built
    # from them or refuses to start; it never silently runs without the PHC term
    mb = common.daemon_main(fb)
    tmb = common.thread_manager(fb)
    if mb is None or tmb is None:
        chk.missing('C13.P7', 'main of the daemon / thread manager')
    else:
        chk.saw(mb)
        slot7 = common.manager_slot(fb, tmb, lambda ts: 'PhcInfo' in ts and ts.startswith('std::option::Option<'))
        if slot7 is None:
            chk.missing('C13.P7', 'PHC configuration parameter of the thread manager')
        else:
            ix, proj7 = slot7
            cfg7 = set(common.slot_types(fb, tmb, slot7))
            e7 = common.mk_engine(fb, no_inline=lambda x: x.crate.kind != 'bin' and x.tystr(x.locals[0]['ty']) not in cfg7)
            n7 = 0
            for p in e7.run(mb):
                if p.kind == 'unreachable':
                    continue
                opts = {}
                for term, op, val, _ in p.conds:
                    if term[0] == 't' and term[1] == 'discr' and term[2][0][0] == 't' and term[2][0][1] == 'field' and 'phc' in str(term[2][0][2][1]):
                        some = (op == '==' and val == 1) or (op == '!=' and 0 in val)
                        opts[str(term[2][0][2][1])] = some
                for ef in p.effects:
                    if ef['kind'] == 'call' and ef['callee'] == tmb.path:
                        n7 += 1
                        v = e7.project(ef['args'][ix], proj7)
                        both = len(opts) >= 2 and all(opts.values())
                        if both:
                            ok7 = v[0] == 'agg' and v[2] == 'Some' and v[3] and v[3][0][0] == 'agg' and 'PhcInfo' in v[3][0][1]
                            chk.ob('C13.P7', 'main:phc-options-reach-the-poller', ok7, ef['site'][2],
                                   'both PHC options given: the manager receives %s' % fmt(v)[:90] +
                                   ('' if ok7 else ' -- the daemon runs without the PHC error bound although it was configured'))
                        else:
                            chk.ob('C13.P7', 'main:no-phc-without-options', v[0] == 'agg' and v[2] == 'None', ef['site'][2],
                                   'PHC options %s: the manager receives %s' % (opts, fmt(v)[:60]), nontrivial=False)
            chk.floor('C13.P7', 'main paths reaching the manager', n7, 2)
    # ---- P8: the reference id given on the command line is packed verbatim: the conversion (&str -> Result<u32, _>) reads the
    # bytes of its argument itself, not of a trimmed / re-cased / otherwise derived string
    convs = [b for b in fb.bodies(common.DAEMON) if b.defkind != 'Closure' and b.argc == 1 and b.tystr(b.locals[1]['ty']) == '&str' and
             b.tystr(b.locals[0]['ty']).startswith('std::result::Result<u32')]
    for b in convs:
        chk.saw(b)
        pn = ('sym', b.debug_names.get(1, 'arg1'))
        n8 = 0
        eng8 = common.mk_engine(fb)
        for p in eng8.run(b):
            for ef in p.effects:
                if ef['kind'] == 'call' and ef['callee'].startswith('std::str::') and ef['callee'].split('::')[-1] in ('bytes', 'as_bytes', 'chars', 'char_indices'):
                    n8 += 1     # (helpers the conversion delegates to are inlined)
                    a0 = ef['args'][0]
                    src = a0 if a0[0] != 'ref' else eng8.load(p.state, a0[1])
                    verbatim = a0 == pn or src == pn or (a0[0] == 'ref' and a0[1][0][0] == 'S' and a0[1][0][1] == pn and not a0[1][1])
                    chk.ob('C13.P8', 'refid:packed-verbatim', verbatim, ef['site'][2],
                           'the reference id conversion reads the characters of %s%s' % (fmt(a0)[:60], '' if verbatim else
                           ' -- not of its argument: ids that differ only by the transformation no longer match what chronyd reports'))
            # every successful exit is the packing of the characters: an exit that returns a *parsed number* (`EC20` read as
            # hexadecimal) gives some names a value chronyd never reports for them
            if p.kind == 'return' and p.value[0] == 'agg' and p.value[2] == 'Ok':
                parsed = sorted({x[2][0].split('::')[-1] for x in psi.walk(p.value) if x[0] == 't' and x[1] == 'call' and
                                 x[2][0].split('::')[-1] in ('from_str_radix', 'parse', 'from_str', 'from_str_radix_unchecked')})
                read_chars = any(ef['kind'] == 'call' and ef['callee'].startswith('std::str::') and
                                 ef['callee'].split('::')[-1] in ('bytes', 'as_bytes', 'chars', 'char_indices') for ef in p.effects)
                chk.ob('C13.P8', 'refid:every-ok-exit-packs-the-characters', read_chars and not parsed, p.where[2],
                       'an Ok exit of the reference-id conversion %s' % ('packs the characters it read' if read_chars and not parsed else
                       'returns %s' % ('a number parsed by %s' % parsed if parsed else 'a value built without reading the characters')))
        chk.floor('C13.P8', 'character reads in the reference-id conversion', n8, 1)
