"""C07 Published bound formula: the term stored as the bound on the synchronised path is
decomposed into its linear form and checked against |offset| + dispersion + delay/2 (+PHC),
x 1e9, ceil."""
from .. import psi, arith, mir
from ..psi import fmt
from . import common
from .updater_model import UpdaterModel

LEVEL = 'other'

WANT = {'root_delay': 0.5e9, 'root_dispersion': 1e9, 'current_correction': 1e9}
ABS_FORMS = ('abs',)


def field_name(v):
    v = arith.strip_casts(v)
    if v[0] == 't' and v[1] == 'field':
        return v[2][1]
    return None


def is_abs_of(v, name):
    """v is a magnitude of the field `name`: abs(x), max(x, -x), copysign-free forms"""
    v = arith.strip_casts(v)
    if v[0] == 't' and v[1] == 'abs' and field_name(v[2][0]) == name:
        return True
    if v[0] == 't' and v[1] == 'fmax':
        a, b = arith.strip_casts(v[2][0]), arith.strip_casts(v[2][1])
        for x, y in ((a, b), (b, a)):
            if field_name(x) == name and y[0] == 't' and y[1] == 'Neg' and field_name(y[2][0]) == name:
                return True
    return False


def path_sign_of(p, leaf):
    """'neg' / 'nonneg' when the path's conditions fix the sign of `leaf` (compared with zero, or its sign bit tested)"""
    for term, op, val, _ in p.conds:
        truth = True if (op == '==' and val == 1) or (op == '!=' and set(val) == {0}) else False if (op == '==' and val == 0) else None
        if truth is None or term[0] != 't':
            continue
        if term[1] == 'sign_neg' and arith.strip_casts(term[2][0]) == leaf:
            return 'neg' if truth else 'nonneg'
        if term[1] in ('Lt', 'lt', 'Ge', 'ge') and len(term[2]) == 2 and arith.strip_casts(term[2][0]) == leaf and arith.const_num(term[2][1]) == 0:
            neg = truth if term[1] in ('Lt', 'lt') else not truth
            return 'neg' if neg else 'nonneg'
        if term[1] in ('Gt', 'gt', 'Le', 'le') and len(term[2]) == 2 and arith.strip_casts(term[2][1]) == leaf and arith.const_num(term[2][0]) == 0:
            neg = truth if term[1] in ('Gt', 'gt') else not truth
            return 'neg' if neg else 'nonneg'
    return None


def run(ctx, chk):
    fb = ctx.facts()
    chk.explanation = ('Linear form of the value assigned to the updater\'s bound on the synchronised path: coefficients of '
                       'root_delay / root_dispersion / |current_correction| are 0.5e9 / 1e9 / 1e9 (F1, F5), the offset leaf '
                       'is under a magnitude operator so the result is non-negative for any sign (F2), the integer is the '
                       'ceil of the sum (F3), the PHC error bound is added with coefficient +1 after rounding (F4). '
                       'NOT decided: f64 rounding of the sum before ceil (< 1 ns).')
    chk.not_decided = ['f64 rounding before ceil']
    chk.assumptions = ['root_delay, root_dispersion >= 0 as chrony reports them']
    m = UpdaterModel(fb, chk, 'C07.F1')
    if not m.ok:
        return
    bound_field = m.field_of.get(2)
    if bound_field is None:
        chk.missing('C07.F1', 'updater field feeding ClockErrorBound.bound_nsec')
        return
    sync = [i for i in m.infos if i['msg_name'] == 'ClockErrorBoundData' and bound_field in i['stores']]
    chk.floor('C07.F1', 'paths that store a new bound', len(sync), 1)
    # ---- F6 precision: the sum is formed in double precision. A single-precision value anywhere between the chrony reply
    # and the rounding (a helper returning f32, an `as f32`, an f32 addition) rounds to nearest with a 24-bit mantissa: the
    # published bound can come out *below* the documented sum, by tens to hundreds of ns for delays of seconds. (The linear
    # form above does not see it: widening conversions are exact.)
    n_float, narrow = common.single_precision_sites(fb, m.dispatch, (common.DAEMON,))
    chk.analysed['call_sites'] += n_float
    chk.ob('C07.F6', 'bound:computed-in-double-precision', not narrow, narrow[0][2] if narrow else m.dispatch.where(0),
           'single-precision values on the way from the report to the bound: %s' % (
               [(a.split('::')[-1], w) for a, _, w in narrow][:4] or 'none (%d float assignments seen, all f64)' % n_float))
    chk.floor('C07.F6', 'float assignments on the bound chain', n_float, 3)
    # ---- F7 the formula is applied to what chronyd answered: the poller ships the reply of its query as it is (C13.P4). A
    # "correction" applied to the report on the way (to the signed offset, say) changes the bound before the formula sees it.
    from . import C13
    n7 = common.import_obligations(ctx, chk, C13, 'C07', LEVEL, lambda o: o['rule'] == 'C13.P4' and o['key'].startswith('data:tracking-is-the-reply'), 'C07.F7')
    if not getattr(chk, '_nested', False):
        chk.floor('C07.F7', 'data paths of the poller checked for shipping the reply unaltered (imported)', n7, 1)
    for i in sync:
        where = i['path'].where[2]
        v = i['stores'][bound_field]
        payload = i['payload']
        parts = arith.summands(v)
        # F4: PHC term = message payload component .1, coefficient +1
        phc = [(s, t) for s, t in parts if fmt(t).endswith('ClockErrorBoundData).0.1')]
        rest = [(s, t) for s, t in parts if not fmt(t).endswith('ClockErrorBoundData).0.1')]
        chk.ob('C07.F4', 'bound:phc-added-once', len(phc) == 1 and phc[0][0] == 1, where,
               'PHC error bound (message component .1) enters the stored bound %d time(s) with sign %s' %
               (len(phc), [s for s, _ in phc]))
        if len(rest) != 1 or rest[0][0] != 1:
            chk.ob('C07.F1', 'bound:one-rounded-term', False, where,
                   'expected one rounded chrony term, found %s' % [(s, fmt(t)[:80]) for s, t in rest])
            continue
        r = rest[0][1]
        # F3: cast(ceil(x), FloatToInt, i64)
        ok3 = r[0] == 't' and r[1] == 'cast' and r[2][1] == 'FloatToInt' and r[2][2] == 'i64' and \
            r[2][0][0] == 't' and r[2][0][1] == 'ceil'
        chk.ob('C07.F3', 'bound:ceil-then-i64', ok3, where,
               'rounding is %s' % (fmt(r)[:60] if not ok3 else 'ceil(..) as i64'))
        inner = r
        while inner[0] == 't' and inner[1] in ('cast', 'ceil', 'floor', 'round', 'trunc'):
            inner = inner[2][0]
        terms = arith.expand(inner)
        got = {}
        abs_ok = None
        others = []
        for c, f in terms:
            if len(f) != 1:
                others.append((c, [fmt(x)[:60] for x in f]))
                continue
            leaf = arith.strip_casts(f[0])
            nm = field_name(leaf)
            if nm in WANT and nm != 'current_correction':
                got[nm] = got.get(nm, 0) + c
            elif nm == 'current_correction':
                # the signed offset itself: a magnitude all the same when this path is the branch of a sign test that
                # makes it one (`if x < 0 { -x } else { x }`, `if x.is_sign_negative() { -x } else { x }`)
                sign = path_sign_of(i['path'], leaf)
                if sign is not None and ((sign == 'neg' and c < 0) or (sign == 'nonneg' and c > 0)):
                    got[nm] = got.get(nm, 0) + abs(c)
                    abs_ok = True if abs_ok is not False else False
                else:
                    got[nm] = got.get(nm, 0) + c
                    abs_ok = False
            elif is_abs_of(leaf, 'current_correction'):
                got['current_correction'] = got.get('current_correction', 0) + c
                abs_ok = True
            else:
                others.append((c, fmt(leaf)[:80]))
        for nm, w in WANT.items():
            chk.ob('C07.F1', 'bound:coefficient:%s' % nm, nm in got and abs(got[nm] - w) <= 1e-3, where,
                   'coefficient of %s is %s ns/s (oracle %g)' % (nm, got.get(nm), w))
        chk.ob('C07.F1', 'bound:no-other-terms', not others, where, 'other summands: %s' % others)
        chk.ob('C07.F2', 'bound:offset-magnitude', abs_ok is True, where,
               'current_correction enters the sum %s' % ('as a magnitude (abs)' if abs_ok else
                                                          'SIGNED: a negative offset shrinks the bound and can make it negative'))
        # all three leaves belong to the tracking report in the message
        roots = {fmt(x)[:200] for c, f in terms for x in f}
        chk.ob('C07.F1', 'bound:from-report', all('ClockErrorBoundData).0.0' in x for x in roots), where,
               'all leaves come from the tracking report carried by the message')
    chk.tables['oracle_ns_per_s'] = WANT
    # ---- F5: the PHC term is the PHC's error bound *for this report*: what the poller attaches to the report is read from
    # the device after the query that produced the report (C13.P9 re-evaluated under C07)
    if not getattr(chk, '_nested', False):
        from . import C13
        sub = type(chk)('C07', LEVEL, chk.tier)
        sub._nested = True
        C13.run(ctx, sub)
        n = 0
        for o in sub.obs:
            if o['rule'] in ('C13.P9', 'C13.P10') and o['nontrivial']:
                chk.ob('C07.F5', '%s:%s' % (o['rule'], o['key']), o['ok'], o['where'], o['detail'])
                n += 1
        chk.floor('C07.F5', 'paths that attach a PHC error bound to a report', n, 1)
