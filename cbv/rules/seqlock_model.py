"""Models of the seqlock writer (ShmWrite::write) and reader (ShmReader::snapshot)
extracted by PSI; shared by C02, C03, C04, C11, C18."""
from .. import psi, mir, arith
from ..psi import fmt, T
from . import common

REL_OK = ('Release', 'AcqRel', 'SeqCst')
ACQ_OK = ('Acquire', 'AcqRel', 'SeqCst')

ATOMIC_WRITES = ('store', 'swap', 'fetch_add', 'fetch_sub', 'fetch_or', 'fetch_and', 'fetch_xor', 'compare_exchange',
                 'compare_exchange_weak', 'fetch_update', 'fetch_max', 'fetch_min', 'fetch_nand')
DATA_WRITES = ('std::ptr::mut_ptr::<impl *mut T>::write', 'std::ptr::mut_ptr::<impl *mut T>::write_volatile',
               'std::ptr::write', 'std::ptr::write_volatile', 'std::ptr::copy_nonoverlapping', 'std::ptr::copy',
               'std::ptr::mut_ptr::<impl *mut T>::write_unaligned', 'std::ptr::mut_ptr::<impl *mut T>::copy_from',
               'std::ptr::mut_ptr::<impl *mut T>::copy_from_nonoverlapping', 'std::ptr::const_ptr::<impl *const T>::copy_to',
               'std::ptr::const_ptr::<impl *const T>::copy_to_nonoverlapping', 'std::ptr::write_bytes',
               'std::ptr::mut_ptr::<impl *mut T>::write_bytes')
DATA_READS = ('std::ptr::const_ptr::<impl *const T>::read_volatile', 'std::ptr::const_ptr::<impl *const T>::read',
              'std::ptr::read_volatile', 'std::ptr::read', 'std::ptr::const_ptr::<impl *const T>::read_unaligned',
              'std::ptr::mut_ptr::<impl *mut T>::read_volatile', 'std::ptr::mut_ptr::<impl *mut T>::read')


def ordering_of(v):
    if v is not None and v[0] == 'agg' and v[1].endswith('Ordering'):
        return v[2]
    return None


def atomic_kind(name):
    """('load'|'store'|..., width) for std atomic methods"""
    if name.startswith('std::sync::atomic::Atomic::<'):
        return name.split('::')[-1]
    return None


def is_fence(name):
    return name == 'std::sync::atomic::fence'


def is_compiler_fence(name):
    return name == 'std::sync::atomic::compiler_fence'


def target_field(v):
    """the self-field a pointer argument is derived from ('generation', 'version', 'ceb', ...)"""
    s = fmt(v)
    for f in ('generation', 'version', 'ceb_shm', 'ceb', 'snapshot_ceb', 'snapshot_gen'):
        if ('self.%s' % f) in s or ('.%s)' % f) in s or s.endswith('.%s' % f):
            return f
    if 'mmap' in s:
        return 'mapping'
    return None


class Ev:
    """one classified effect on a path"""

    def __init__(self, n, kind, ef, **kw):
        self.n = n
        self.kind = kind       # 'gload' | 'gstore' | 'vload' | 'vstore' | 'dwrite' | 'dread' | 'fence' | 'cfence' | 'other'
        self.ef = ef
        self.site = ef['site'][2]
        self.__dict__.update(kw)

    def __repr__(self):
        return '%s@%s' % (self.kind, self.site)


def classify_effects(p):
    evs = []
    for n, ef in enumerate(p.effects):
        if ef['kind'] != 'call' or ef['tracing']:
            continue
        name = ef['callee']
        ak = atomic_kind(name)
        if ak == 'load':
            tf = target_field(ef['args'][0])
            evs.append(Ev(n, 'gload' if tf == 'generation' else 'vload' if tf == 'version' else 'aload', ef,
                          order=ordering_of(ef['args'][1]), term=T('call', name, n, *ef['args']), field=tf))
        elif ak in ATOMIC_WRITES:
            tf = target_field(ef['args'][0])
            orders = [ordering_of(a) for a in ef['args'] if ordering_of(a)]
            evs.append(Ev(n, 'gstore' if tf == 'generation' else 'vstore' if tf == 'version' else 'astore', ef,
                          order=orders[0] if orders else None, value=ef['args'][1] if len(ef['args']) > 1 else None,
                          field=tf, op=ak))
        elif is_fence(name):
            evs.append(Ev(n, 'fence', ef, order=ordering_of(ef['args'][0])))
        elif is_compiler_fence(name):
            evs.append(Ev(n, 'cfence', ef, order=ordering_of(ef['args'][0])))
        elif name in DATA_WRITES:
            evs.append(Ev(n, 'dwrite', ef, field=target_field(ef['args'][0])))
        elif name in DATA_READS:
            evs.append(Ev(n, 'dread', ef, field=target_field(ef['args'][0]), term=T('call', name, n, *ef['args'])))
        else:
            evs.append(Ev(n, 'other', ef, name=name))
    return evs


class WriterModel:
    def __init__(self, fb, chk, rule):
        self.ok = False
        self.fb = fb
        cands = [b for b in fb.bodies(common.SHM) if b.name == 'write' and (b.impl_trait or '').endswith('ShmWrite')]
        if not cands:
            chk.missing(rule, 'impl of ShmWrite::write in the shm crate')
            return
        self.body = cands[0]
        chk.saw(self.body)
        self.engine = common.mk_engine(fb)
        self.paths = [p for p in self.engine.run(self.body) if p.kind != 'unreachable']
        chk.analysed['paths'] += len(self.paths)
        self.evs = [classify_effects(p) for p in self.paths]
        self.ok = True

    def gen_leaf(self, i):
        """the loaded generation the path starts from"""
        for e in self.evs[i]:
            if e.kind == 'gload':
                return e.term
        return None


class ReaderModel:
    def __init__(self, fb, chk, rule, unroll=0):
        self.ok = False
        self.fb = fb
        cands = [b for b in fb.bodies(common.SHM) if b.name == 'snapshot' and (b.impl_self or '').endswith('ShmReader')]
        if not cands:
            chk.missing(rule, 'ShmReader::snapshot')
            return
        self.body = cands[0]
        chk.saw(self.body)
        self.engine = common.mk_engine(fb, loop_unroll=unroll)
        self.paths = [p for p in self.engine.run(self.body) if p.kind != 'unreachable']
        chk.analysed['paths'] += len(self.paths)
        self.evs = [classify_effects(p) for p in self.paths]
        self.ok = True

    @staticmethod
    def self_stores(p):
        out = {}
        for k, v in p.state.store.items():
            if k[0][0] == 'S' and k[1] and len(k[1]) == 1 and k[1][0][0] == 'f':
                out[k[1][0][2]] = v
        return out

    @staticmethod
    def returns_cache(p):
        """is the result Ok(&self.<cache field>)? returns the field name"""
        v = p.value
        if p.kind == 'return' and v[0] == 'agg' and v[2] == 'Ok' and v[3] and v[3][0][0] == 'ref':
            base, proj = v[3][0][1]
            if base[0] == 'S' and base[1][0] == 'sym' and len(proj) == 1 and proj[-1][0] == 'f':
                return proj[-1][2]
            return '<not-self:%s>' % psi.fmt_place(v[3][0][1])
        return None
