"""Models of the seqlock writer (ShmWrite::write) and reader (ShmReader::snapshot)
extracted by PSI; shared by C02, C03, C04, C11, C18."""
from .. import psi, mir, arith
from ..psi import fmt, T
from . import common

REL_OK = ('Release', 'AcqRel', 'SeqCst')
ACQ_OK = ('Acquire', 'AcqRel', 'SeqCst')

ATOMIC_WRITES = ('store', 'swap', 'fetch_add', 'fetch_sub', 'fetch_or', 'fetch_and', 'fetch_xor', 'compare_exchange',
                 'compare_exchange_weak', 'fetch_update', 'fetch_max', 'fetch_min', 'fetch_nand')
DATA_WRITES = ('std::ptr::mut_ptr::<impl *mut T>::write', 'std::ptr::mut_ptr::<impl *mut T>::write_volatile',
               'std::ptr::write', 'std::ptr::write_volatile', 'std::ptr::copy_nonoverlapping', 'std::ptr::copy',
               'std::ptr::mut_ptr::<impl *mut T>::write_unaligned', 'std::ptr::mut_ptr::<impl *mut T>::copy_from',
               'std::ptr::mut_ptr::<impl *mut T>::copy_from_nonoverlapping', 'std::ptr::const_ptr::<impl *const T>::copy_to',
               'std::ptr::const_ptr::<impl *const T>::copy_to_nonoverlapping', 'std::ptr::write_bytes',
               'std::ptr::mut_ptr::<impl *mut T>::write_bytes')
DATA_READS = ('std::ptr::const_ptr::<impl *const T>::read_volatile', 'std::ptr::const_ptr::<impl *const T>::read',
              'std::ptr::read_volatile', 'std::ptr::read', 'std::ptr::const_ptr::<impl *const T>::read_unaligned',
              'std::ptr::mut_ptr::<impl *mut T>::read_volatile', 'std::ptr::mut_ptr::<impl *mut T>::read')


def ordering_of(v):
    if v is not None and v[0] == 'agg' and v[1].endswith('Ordering'):
        return v[2]
    return None


def atomic_kind(name):
    """('load'|'store'|..., width) for std atomic methods"""
    if name.startswith('std::sync::atomic::Atomic::<'):
        return name.split('::')[-1]
    return None


def is_fence(name):
    return name == 'std::sync::atomic::fence'


def is_compiler_fence(name):
    return name == 'std::sync::atomic::compiler_fence'


HEADER_ROLES = ('generation', 'version')     # names of the header's members (PROTOCOL.md / ShmHeader)
ROLES = {}                                    # struct field name -> role, filled by pointer_roles(fb)
HDR_NAME_TO_ROLE = {'generation': 'generation', 'version': 'version'}   # header field name (as in this tree) -> role
_ROLES_FOR = [None]


def pointer_role(v, effects=None, fb=None):
    """role of a pointer *value* built in ShmWriter::new / ShmReader::new: which part of the mapping it addresses"""
    if effects is not None and fb is not None and 'mmap' in fmt(v):
        # a pointer computed by byte arithmetic from the mapping's base: its role is where it lands in the published layout
        total, known, n_adv = 0, True, 0
        for x in psi.walk(v):
            if x[0] == 't' and x[1] == 'call' and x[2][0].startswith('std::ptr::') and x[2][0].endswith(common.PTR_ADVANCE) and \
                    isinstance(x[2][1], int) and x[2][1] < len(effects):
                d = common.ptr_advance_bytes(fb, effects[x[2][1]])
                n_adv += 1
                if d is None:
                    known = False
                else:
                    total += d
        proj_field = v[0] == 'ref' and v[1][0][0] == 'S' and v[1][1] and v[1][1][-1][0] == 'f'
        if n_adv and known and not proj_field:
            hdr_size = max(common.HDR_ROLE_AT) + 2
            if total in common.HDR_ROLE_AT and common.HDR_ROLE_AT[total] in HEADER_ROLES:
                return common.HDR_ROLE_AT[total]
            if total == hdr_size:
                return 'ceb'
    if v[0] == 'ref' and v[1][0][0] == 'S' and v[1][1] and v[1][1][-1][0] == 'f' and v[1][1][-1][2] in HDR_NAME_TO_ROLE and \
            'mmap' in fmt(v[1][0][1]):
        return HDR_NAME_TO_ROLE[v[1][1][-1][2]]
    s = fmt(v)
    if 'mmap' not in s:
        return None
    for x in psi.walk(v):
        if x[0] == 't' and x[1] == 'call' and x[2][0].startswith('std::ptr::') and x[2][0].endswith(common.PTR_ADVANCE) and 'mmap' in fmt(x):
            return 'ceb'
    for h, role in HDR_NAME_TO_ROLE.items():
        if s.endswith('.%s' % h) or ('.%s)' % h) in s:
            return role
    return 'mapping'


def _is_reader_open(x):
    from . import startup_model
    return startup_model.is_reader_new(x)


def pointer_roles(fb):
    """{field name of ShmWriter / ShmReader (or of a struct nested in them): role}, read off the values the two
    constructors return; so that `self.<field>` in write()/snapshot() is classified by what the constructor put there"""
    if _ROLES_FOR[0] is fb:
        return ROLES
    _ROLES_FOR[0] = fb
    _FB[0] = fb
    ROLES.clear()
    from . import startup_model
    startup_model.init_reader_open(fb)
    names = common.abi_names(fb)['hdr']
    HDR_NAME_TO_ROLE.clear()
    HDR_NAME_TO_ROLE.update({names['generation']: 'generation', names['version']: 'version'})
    from .open_model import layout_in
    for side in ('ShmWriter', 'ShmReader'):
        for b in fb.bodies(common.SHM):
            if not (b.name == 'new' and (b.impl_self or '').endswith(side) and b.defkind != 'Closure'):
                continue
            eng, ps = common.run_unrolled(fb, b, inline_depth=8, no_inline=(_is_reader_open if side == 'ShmWriter' else None))
            for p in ps:
                if not (p.kind == 'return' and p.value[0] == 'agg' and p.value[2] == 'Ok' and p.value[3]):
                    continue

                def rec(v, depth=0):
                    if v[0] != 'agg' or depth > 3 or v[2] is None:
                        return
                    adt = eng.find_adt(v[1], b.crate)
                    if not adt or not adt.get('variants'):
                        return
                    names = [f['name'] for f in adt['variants'][0]['fields']]
                    if len(names) != len(v[3]):
                        return
                    for nm, fv in zip(names, v[3]):
                        r = pointer_role(fv, p.effects, fb)
                        if r is not None and fv[0] != 'agg':
                            ROLES.setdefault(nm, r)
                        elif fv[0] == 'agg' and fv[1].startswith(common.SHM):
                            rec(fv, depth + 1)
                rec(p.value[3][0])
    return ROLES


def target_field(v, effects=None):
    """the part of the mapping a pointer argument addresses ('generation', 'version', 'ceb', 'mapping'), via the
    struct field it was loaded from (roles table) or, inside the constructors, via its own provenance"""
    r = pointer_role(v, effects, _ROLES_FOR[0] if effects is not None else None)
    if r is not None:
        return r
    s = fmt(v)
    names = dict(ROLES) if ROLES else {'generation': 'generation', 'version': 'version', 'ceb_shm': 'ceb', 'ceb': 'ceb'}
    for f in sorted(names, key=lambda x: -len(x)):
        if ('self.%s' % f) in s or ('.%s)' % f) in s or s.endswith('.%s' % f):
            return names[f]
    return None


class Ev:
    """one classified effect on a path"""

    def __init__(self, n, kind, ef, **kw):
        self.n = n
        self.kind = kind       # 'gload' | 'gstore' | 'vload' | 'vstore' | 'dwrite' | 'dread' | 'fence' | 'cfence' | 'other'
        self.ef = ef
        self.site = ef['site'][2]
        self.__dict__.update(kw)

    def __repr__(self):
        return '%s@%s' % (self.kind, self.site)


def classify_effects(p):
    evs = []
    for n, ef in enumerate(p.effects):
        if ef['kind'] == 'store':
            # a plain assignment through a raw pointer (`*self.ceb = *ceb`): a data write to wherever the pointer leads
            base = ef['ptr'][1][0][1] if ef['ptr'][1][0][0] == 'S' else ef['ptr']
            evs.append(Ev(n, 'dwrite', ef, field=target_field(base, p.effects) or target_field(ef['ptr'], p.effects), dest=ef['ptr']))
            continue
        if ef['kind'] != 'call' or ef['tracing']:
            continue
        name = ef['callee']
        ak = atomic_kind(name)
        if ak == 'load':
            tf = target_field(ef['args'][0], p.effects)
            evs.append(Ev(n, 'gload' if tf == 'generation' else 'vload' if tf == 'version' else 'aload', ef,
                          order=ordering_of(ef['args'][1]), term=T('call', name, n, *ef['args']), field=tf))
        elif ak in ATOMIC_WRITES:
            tf = target_field(ef['args'][0], p.effects)
            orders = [ordering_of(a) for a in ef['args'] if ordering_of(a)]
            evs.append(Ev(n, 'gstore' if tf == 'generation' else 'vstore' if tf == 'version' else 'astore', ef,
                          order=orders[0] if orders else None, value=ef['args'][1] if len(ef['args']) > 1 else None,
                          field=tf, op=ak))
        elif is_fence(name):
            evs.append(Ev(n, 'fence', ef, order=ordering_of(ef['args'][0])))
        elif is_compiler_fence(name):
            evs.append(Ev(n, 'cfence', ef, order=ordering_of(ef['args'][0])))
        elif name in DATA_WRITES:
            # (src, dst, count) for the free copy functions and `src.copy_to(dst, count)`; the destination comes first otherwise
            di = 1 if name.endswith(('::copy_nonoverlapping', '::copy', '::copy_to', '::copy_to_nonoverlapping')) and \
                not name.endswith(('::copy_from', '::copy_from_nonoverlapping')) and len(ef['args']) > 1 else 0
            evs.append(Ev(n, 'dwrite', ef, field=target_field(ef['args'][di], p.effects), dest=ef['args'][di]))
        elif name in DATA_READS:
            evs.append(Ev(n, 'dread', ef, field=target_field(ef['args'][0], p.effects), term=T('call', name, n, *ef['args'])))
        else:
            evs.append(Ev(n, 'other', ef, name=name))
    return evs


def record_layout(fb):
    """(size, [(offset, size, name)]) of the published record as rustc laid it out"""
    from .open_model import layout_in
    a, c = layout_in(fb, common.SHM, '::ClockErrorBound')
    if a is None:
        return None
    return int(a['size']), [(int(f['offset']), int(f['size']), f['name']) for f in a['variants'][0]['fields']], a, c


def _proj_offset(fb, crate, adt, projs):
    """byte offset of a field path inside a struct, following nested structs"""
    off = 0
    cur = adt
    for e in projs:
        if e[0] != 'f' or cur is None or cur.get('kind') != 'struct':
            return None
        fs = cur['variants'][0]['fields']
        if e[1] >= len(fs) or 'offset' not in fs[e[1]]:
            return None
        off += int(fs[e[1]]['offset'])
        cur = crate.adts.get(crate.types[fs[e[1]]['ty']]['s'])
    return off


def record_extent(fb, p, ev):
    """(lo, hi) in bytes, relative to the start of the record, of a data access classified as touching the record; None
    when the extent cannot be established"""
    lay = record_layout(fb)
    if lay is None:
        return None
    rsize, fields, adt, crate = lay
    ef = ev.ef
    ptr = getattr(ev, 'dest', None) or ef['args'][0]
    name = ef['callee']
    body = fb.body(ef['site'][0])
    targs = (ef.get('fn') or {}).get('targs') or []
    if ef['kind'] == 'store' and body is not None:
        targs = [ef['ty']]
    if body is None or not targs:
        return None
    tt = body.crate.types[targs[0]]
    if tt.get('k') == 'param':
        cands = common.concrete_type_args(fb, body, tt['s'])
        sizes = set()
        for cs in cands:
            for c in fb.crates:
                a = c.adts.get(cs)
                if a and 'size' in a:
                    sizes.add(int(a['size']))
        esize = sizes.pop() if len(sizes) == 1 else None
    else:
        esize = common.type_size(body.crate, targs[0])
    if esize is None:
        return None
    count = 1
    last = name.split('::')[-1]
    if last in ('copy_nonoverlapping', 'copy', 'copy_to', 'copy_to_nonoverlapping', 'copy_from', 'copy_from_nonoverlapping', 'write_bytes'):
        cv = ef['args'][2] if len(ef['args']) > 2 else None
        if cv is None or not psi.is_int_const(cv):
            return None
        count = cv[1]
    # offset of the pointer from the record's base
    off = 0
    v = ptr
    for _ in range(8):
        if v[0] == 'ref' and v[1][0][0] == 'S' and v[1][1]:
            d = _proj_offset(fb, crate, adt, v[1][1])
            if d is None:
                return None
            off += d
            v = v[1][0][1]
            continue
        if v[0] == 't' and v[1] == 'call' and v[2][0].startswith('std::ptr::') and v[2][0].endswith(common.PTR_ADVANCE) and \
                isinstance(v[2][1], int) and v[2][1] < len(p.effects):
            d = common.ptr_advance_bytes(fb, p.effects[v[2][1]])
            if d is None:
                return None
            off += d
            v = v[2][2]
            continue
        if v[0] == 't' and v[1] in ('cast',):
            v = v[2][0]
            continue
        if v[0] == 't' and v[1] == 'call' and v[2][0].startswith('std::ptr::') and v[2][0].split('::')[-1] in ('cast', 'cast_mut', 'cast_const', 'as_ptr', 'as_mut_ptr'):
            v = v[2][2]
            continue
        break
    if target_field(v, p.effects) != 'ceb':
        return None
    return off, off + esize * count


def record_coverage(fb, p, evs, kind):
    """which bytes of the record the accesses of `kind` ('dwrite' / 'dread') on this path touch:
    (covered field names, uncovered field names, misaligned accesses, unknown accesses)"""
    lay = record_layout(fb)
    rsize, fields, adt, crate = lay
    covered = [False] * rsize
    misaligned, unknown = [], []
    bounds = {0, rsize} | {o for o, s_, n in fields} | {o + s_ for o, s_, n in fields}
    for e in evs:
        if e.kind != kind or e.field != 'ceb':
            continue
        ext = record_extent(fb, p, e)
        if ext is None:
            unknown.append(e)
            continue
        lo, hi = ext
        if lo < 0 or hi > rsize or lo not in bounds or hi not in bounds:
            misaligned.append((e, lo, hi))
        for i in range(max(lo, 0), min(hi, rsize)):
            covered[i] = True
    cov = [n for o, s_, n in fields if all(covered[o:o + s_])]
    unc = [n for o, s_, n in fields if not all(covered[o:o + s_])]
    return cov, unc, misaligned, unknown


def read_terms(v, out=None):
    """the data-read call terms a value is assembled from (a whole-record read, or a record literal whose fields were read
    one by one); None when some part of the value is not a data read"""
    out = [] if out is None else out
    if v[0] == 't' and v[1] == 'call' and v[2][0] in DATA_READS:
        out.append(v)
        return out
    if v[0] == 'agg' and v[2] is not None and v[3] and (v[1].startswith((common.SHM, 'libc::')) or v[1] == 'tuple'):
        for fv in v[3]:
            if read_terms(fv, out) is None:
                return None
        return out
    return None


def is_record_read(v):
    r = read_terms(v)
    return bool(r)


def _param_rooted(body, ptr):
    """is the pointer a store goes through derived only from a parameter of the analysed root (no provenance here)?"""
    names = {body.debug_names.get(i, 'arg%d' % i) for i in range(1, body.argc + 1)}
    syms = [y for y in psi.walk(ptr) if y[0] == 'sym']
    calls = [y for y in psi.walk(ptr) if y[0] == 't' and y[1] == 'call']
    return bool(syms) and all(y[1] in names for y in syms) and not calls


def mapping_store_sites(fb, bodies, kinds=('gstore', 'vstore', 'astore', 'dwrite'), want_direct=lambda b: True):
    """every store-like effect into (possibly) the mapping made by `bodies`, each classified with as much pointer provenance
    as some caller chain provides: a helper that stores through its own parameter (`fn announce(&self, g)`) is classified
    where it is inlined into a function that knows where the pointer came from.
    Returns [(kind, site string, owner function path, Ev)]; a site no root could classify keeps kind 'astore'."""
    from .startup_model import is_reader_new, init_reader_open
    init_reader_open(fb)
    _FB[0] = fb
    pointer_roles(fb)
    callers = common.callers_map(fb)
    byp = {b.path: b for b in bodies}

    def direct(b):
        return any(fn and (mir.callee_name(fn) in DATA_WRITES or atomic_kind(mir.callee_name(fn)) in ATOMIC_WRITES) for bb, t, fn in common.user_calls(b))
    roots = [b for b in bodies if b.defkind != 'Closure' and direct(b) and want_direct(b)]
    best = {}          # (site) -> (kind, owner, ev)
    pending = set()
    done = set()
    work = list(roots)
    while work:
        b = work.pop()
        if b.path in done:
            continue
        done.add(b.path)
        eng = common.mk_engine(fb, inline_depth=8, no_inline=is_reader_new)
        try:
            paths = eng.run(b)
        except psi.PathLimit:
            continue
        need_callers = bool(getattr(b, 'generics', None))      # a generic helper is classified where it is instantiated
        for p in paths:
            for e in classify_effects(p):
                if e.kind not in ('gstore', 'vstore', 'astore', 'dwrite'):
                    continue
                owner = e.ef['site'][0]
                key = (e.ef['site'][0], e.ef['site'][1])
                if e.kind in ('astore',) or (e.kind == 'dwrite' and e.field is None):
                    if _param_rooted(b, e.ef['args'][0]):
                        need_callers = True
                        pending.add(key)
                        if key not in best:
                            best[key] = (e.kind, owner, e)
                        continue
                if key not in best or best[key][0] in ('astore',) or (best[key][0] == 'dwrite' and best[key][2].field is None):
                    best[key] = (e.kind, owner, e)
        if need_callers:
            for c in callers.get(b.path, ()):
                cb = fb.body(c)
                if cb is not None and cb.path not in done and (cb.path in byp or cb.crate.name == b.crate.name):
                    work.append(cb)
    return [(k, ev.site, owner, ev) for key, (k, owner, ev) in sorted(best.items(), key=lambda kv: (kv[0][0], kv[0][1])) if k in kinds]


_FB = [None]


def _field_names(tystr):
    fb = _FB[0]
    if fb is None:
        return None
    for c in fb.crates:
        a = c.adts.get(tystr)
        if a and a.get('kind') == 'struct':
            return [f['name'] for f in a['variants'][0]['fields']]
    return None


class WriterModel:
    def __init__(self, fb, chk, rule):
        self.ok = False
        self.fb = fb
        cands = [b for b in fb.bodies(common.SHM) if b.name == 'write' and (b.impl_trait or '').endswith('ShmWrite')]
        if not cands:
            chk.missing(rule, 'impl of ShmWrite::write in the shm crate')
            return
        self.body = cands[0]
        chk.saw(self.body)
        pointer_roles(fb)
        self.engine = common.mk_engine(fb)
        self.paths = [p for p in self.engine.run(self.body) if p.kind != 'unreachable']
        chk.analysed['paths'] += len(self.paths)
        self.evs = [classify_effects(p) for p in self.paths]
        self.ok = True

    def gen_leaf(self, i):
        """the loaded generation the path starts from"""
        for e in self.evs[i]:
            if e.kind == 'gload':
                return e.term
        return None


class ReaderModel:
    def __init__(self, fb, chk, rule, unroll=0):
        self.ok = False
        self.fb = fb
        cands = [b for b in fb.bodies(common.SHM) if b.name == 'snapshot' and (b.impl_self or '').endswith('ShmReader')]
        if not cands:
            chk.missing(rule, 'ShmReader::snapshot')
            return
        self.body = cands[0]
        chk.saw(self.body)
        pointer_roles(fb)
        _FB[0] = fb
        self.engine = common.mk_engine(fb, loop_unroll=unroll)
        self.paths = [p for p in self.engine.run(self.body) if p.kind != 'unreachable']
        chk.analysed['paths'] += len(self.paths)
        self.evs = [classify_effects(p) for p in self.paths]
        self.ok = True

    @staticmethod
    def self_stores(p):
        out = {}

        def put(name, v):
            # a nested private struct assigned as a whole is expanded into its fields (positional names when unknown)
            if v[0] == 'agg' and v[2] is not None and v[3] and v[1].startswith(common.SHM) and not v[1].endswith('ClockErrorBound'):
                names = _field_names(v[1])
                for i_, fv in enumerate(v[3]):
                    put('%s.%s' % (name, names[i_] if names and i_ < len(names) else i_), fv)
            else:
                out[name] = v
        for k, v in p.state.store.items():
            if k[0][0] == 'S' and k[0][1][0] == 'sym' and k[1] and all(e[0] == 'f' for e in k[1]):
                put('.'.join(str(e[2] if e[2] is not None else e[1]) for e in k[1]), v)
        return out

    # ---- what the reader's cache is, read off the code: the record field is what an `Ok(&self.X)` exit hands out; a
    # cached-generation field is a field the acceptance path assigns a loaded generation to. Other fields of the reader
    # (statistics, counters) are not cache state.
    def cache_fields(self):
        if getattr(self, '_cache', None) is not None:
            return self._cache
        rec = set()
        for p in self.paths:
            c = self.returns_cache(p)
            if c is not None and not c.startswith('<'):
                rec.add(c)
        gen = set()
        for p, evs in zip(self.paths, self.evs):
            stores = self.self_stores(p)
            gl = {e.term for e in evs if e.kind == 'gload'}
            if any(k in rec and is_record_read(v) for k, v in stores.items()):
                for k, v in stores.items():
                    if k not in rec and v in gl:
                        gen.add(k)
        self._cache = (rec, gen)
        return self._cache

    def is_cache_field(self, k):
        rec, gen = self.cache_fields()
        return k in gen or any(k == r or k.startswith(r + '.') for r in rec)

    @staticmethod
    def returns_cache(p):
        """is the result Ok(&self.<cache field>)? returns the field name"""
        v = p.value
        if p.kind == 'return' and v[0] == 'agg' and v[2] == 'Ok' and v[3] and v[3][0][0] == 'ref':
            base, proj = v[3][0][1]
            if base[0] == 'S' and base[1][0] == 'sym' and proj and all(e[0] == 'f' for e in proj):
                return '.'.join(str(e[2] if e[2] is not None else e[1]) for e in proj)
            return '<not-self:%s>' % psi.fmt_place(v[3][0][1])
        return None
