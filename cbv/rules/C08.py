"""C08 Published record tracks the chrony history: freeze on loss, advance on sync.
All clauses are read off the per-message paths of the dispatch loop (handlers inlined)
and the FSM tables."""
from .. import psi, arith
from ..psi import fmt, T
from . import common
from .updater_model import UpdaterModel, STATUS

LEVEL = 'other'

# message -> status class applied to the FSM (DESIGN Appendix A.3 / README)
MISSING = {'ChronyNotRespondingGracePeriod': 'FreeRunning', 'PhcErrorBoundRetrievalFailedGracePeriod': 'FreeRunning',
           'ChronyNotResponding': 'Unknown', 'PhcErrorBoundRetrievalFailed': 'Unknown'}
VOID_AFTER_S = 1000


def published_form(v):
    """('fsm', applied status call) | ('const', variant) | ('other', text)"""
    if v[0] == 'agg' and v[2] is not None:
        return ('const', v[2])
    if v[0] == 't' and v[1] == 'call' and v[2][0].endswith('::value'):
        inner = fmt(v)
        return ('fsm', inner)
    return ('other', fmt(v)[:120])


def plus_1000(va, asof):
    """is `va` the timespec (asof.tv_sec + 1000, 0)?"""
    okb = va[0] == 'agg' and len(va[3]) == 2 and psi.is_int_const(va[3][1]) and va[3][1][1] == 0
    sec = va[3][0] if va[0] == 'agg' and va[3] else None
    if not okb:
        return False
    parts = arith.summands(sec)
    consts = [arith.const_num(t) for s, t in parts if arith.const_num(t) is not None]
    nonc = [t for s, t in parts if arith.const_num(t) is None]
    if asof[0] == 'agg' and asof[3] and psi.is_int_const(asof[3][0]):
        # a constant as_of (the constructor's placeholder): the seconds fold to a constant
        return not nonc and sum(consts) == asof[3][0][1] + VOID_AFTER_S
    return consts == [VOID_AFTER_S] and len(nonc) == 1 and nonc[0] == T('field', asof, 'tv_sec')


def run(ctx, chk):
    fb = ctx.facts()
    chk.explanation = ('Per message class (dispatch loop with handlers inlined): which status is fed to the FSM (F, E), that the '
                       'bound/as-of fields are assigned only on the Synchronized classification and together, from the message '
                       '(A), void_after = as_of.tv_sec + 1000 with tv_nsec 0 (B), drift passed through unchanged (C), exactly one '
                       'publication per poll outcome (G), published status is the FSM value or a gate to Unknown (H); FSM '
                       'transition/value tables for all 3x3 pairs (D).')
    m = UpdaterModel(fb, chk, 'C08.F')
    if not m.ok:
        return
    where0 = m.dispatch.where(0)
    # every outcome results in a publication whatever the log level: nothing evaluated as an argument of a log macro in the
    # writer thread's code can panic (the record would never be published) or does part of the work
    if not getattr(chk, '_nested', False):
        common.log_hazard_obligations(fb, chk, 'C08.G', [m.dispatch], 'the segment-writing thread')
    bound_f, asof_f, drift_f = m.field_of.get(2), m.field_of.get(0), m.field_of.get(3)
    if not (bound_f and asof_f and drift_f):
        # a record component that is not a plain read of one held field: say which one and what it is instead
        shown = False
        for i in m.infos:
            for ceb in i['records']:
                for ix, role, rule in ((0, 'as_of', 'C08.A'), (2, 'bound', 'C08.A'), (3, 'drift', 'C08.C')):
                    if m.field_of.get(ix) is None and not shown:
                        chk.ob(rule, 'record:%s-is-one-held-field' % role, False, i['path'].where[2],
                               'the published %s is %s, not a read of one field of the updater: it can change while the held sample '
                               '(as_of) stays frozen' % (role, fmt(ceb[3][ix])[:140]))
                shown = True
        if not shown:
            chk.missing('C08.A', 'updater fields feeding the record (as_of, bound, drift): %s' % m.field_of)
        return
    seen = {}
    cached_va = set()
    for i in m.infos:
        p = i['path']
        name = i['msg_name']
        where = p.where[2]
        if i['recv_err'] or name is None:
            # no message was received on this path (a mailbox error, a timed-out wait): nothing happened that the record may
            # follow -- (d) the status depends only on the latest *outcome*, and silence of the mailbox is not one
            touched = sorted(k for k in i['stores'] if k in (bound_f, asof_f) or (m.state_field and k.split('.')[0] == m.state_field.split('.')[0]))
            chk.ob('C08.F', 'dispatch:no-message:no-state-change', not i['applied'] and i['writes'] == 0 and not touched, where,
                   'a path without a received message (mailbox error / time-out) feeds %s to the FSM, assigns %s, publishes %d time(s)' % (
                       i['applied'], touched, i['writes']), nontrivial=bool(i['recv_err']))
            continue
        seen.setdefault(name, []).append(i)
        stores_b, stores_a = bound_f in i['stores'], asof_f in i['stores']
        applied = i['applied']
        # ---- F / E dispatch table
        if name in MISSING:
            chk.ob('C08.F', 'dispatch:%s' % name, applied == [MISSING[name]], where,
                   '%s feeds %s to the FSM (oracle %s)' % (name, applied, MISSING[name]))
        elif name == 'ClockErrorBoundData':
            chk.ob('C08.F', 'dispatch:ClockErrorBoundData:one-classification', len(applied) == 1 and applied[0] in STATUS, where,
                   'a report feeds %s to the FSM' % applied)
        elif name == 'ThreadAbort' or name.startswith('other') or name in ('ThreadTerminate', 'ThreadPanic'):
            chk.ob('C08.F', 'dispatch:%s:no-state-change' % name.split('(')[0], not applied and not i['stores'] and i['writes'] == 0, where,
                   '%s changes nothing (applied %s, stores %s, publications %d)' % (name, applied, sorted(i['stores']), i['writes']))
            continue
        # ---- G exactly one publication per poll outcome
        chk.ob('C08.G', 'publish-once:%s' % name, i['writes'] == 1, where,
               '%s leads to %d publication(s) on this path' % (name, i['writes']))
        # ---- A freeze
        sync = applied == ['Synchronized']
        chk.ob('C08.A', 'freeze:%s:%s' % (name, applied[0] if applied else '-'),
               (stores_b and stores_a) if sync else (not stores_b and not stores_a), where,
               'classification %s: bound assigned=%s, as-of assigned=%s (must be both iff Synchronized)' % (applied, stores_b, stores_a))
        if sync and stores_a:
            chk.ob('C08.A', 'advance:as-of-from-message', fmt(i['stores'][asof_f]).endswith('ClockErrorBoundData).0.2'), where,
                   'as-of <- %s' % fmt(i['stores'][asof_f])[-60:])
        for ceb in i['records']:
            f = ceb[3]
            # record fields carry the (possibly just updated) updater fields
            exp_asof = i['stores'].get(asof_f, None)
            exp_bound = i['stores'].get(bound_f, None)
            ok_asof = (f[0] == exp_asof) if exp_asof is not None else m.updater_field(f[0]) == asof_f
            ok_bound = (f[2] == exp_bound) if exp_bound is not None else m.updater_field(f[2]) == bound_f
            if not (ok_asof and ok_bound) and m.placeholder_record(i, f):
                # the sample is held in an Option: on a path where it is None there is no sample to carry, and the record
                # may hold constant place-holders provided it is published as Unknown
                ok_asof = ok_bound = True
            chk.ob('C08.A', 'record:carries-held-sample:%s' % (applied[0] if applied else '-'), ok_asof and ok_bound, where,
                   'record as_of=%s bound=%s' % (fmt(f[0])[-40:], fmt(f[2])[-40:]))
            # ---- B void_after
            va = f[1]
            held_va = m.updater_field(va)
            if held_va is not None and held_va not in i['stores']:
                # a cached void_after: correct iff the updater keeps the invariant `void_after field == as_of field + 1000 s`
                # (established by the constructor, re-established whenever as_of is assigned, never assigned otherwise)
                cached_va.add(held_va)
                okb = True
                chk.ob('C08.B', 'void-after:as-of-sec-plus-1000', True, where, 'void_after = cached field %s (invariant checked below)' % held_va,
                       nontrivial=False)
            else:
                if held_va is not None:
                    va = i['stores'][held_va]
                    cached_va.add(held_va)
                okb = plus_1000(va, f[0])
                chk.ob('C08.B', 'void-after:as-of-sec-plus-1000', okb, where, 'void_after = %s' % fmt(va)[:120])
            # ---- C drift
            chk.ob('C08.C', 'drift:passed-through', m.updater_field(f[3]) == drift_f and drift_f not in i['stores'], where,
                   'record drift = %s; drift field assigned on this path: %s' % (fmt(f[3])[-40:], drift_f in i['stores']))
            # ---- H published status
            # the published status is the value of the state this path's FSM step produced, or a gate to Unknown
            kind, st_, from_step = m.published(chk, i, ceb)
            okh = (kind == 'fsm' and from_step) or (kind, st_) == ('const', 'Unknown')
            chk.ob('C08.H', 'published-status:%s' % kind, okh, where, 'published status = %s' % str((kind, st_))[:160])
    # invariant of a cached void_after field (if the updater has one)
    for vf in sorted(cached_va):
        for i in m.infos:
            if i['recv_err'] or i['msg_name'] is None:
                continue
            sa, sv = asof_f in i['stores'], vf in i['stores']
            good = (sa == sv) and (not sv or plus_1000(i['stores'][vf], i['stores'][asof_f]))
            chk.ob('C08.B', 'void-after:cached-field-follows-as-of:%s' % i['msg_name'].split('(')[0], good, i['path'].where[2],
                   'on this path as_of assigned=%s, %s assigned=%s%s' % (sa, vf, sv, (' <- ' + fmt(i['stores'][vf])[:80]) if sv else ''))
        ctor_, fields_, _ = m.initial_state(chk)
        if fields_ is not None:
            good0 = vf in fields_ and asof_f in fields_ and plus_1000(fields_[vf], fields_[asof_f])
            chk.ob('C08.B', 'void-after:cached-field-initialised-from-as-of', good0, where0,
                   'constructor sets %s <- %s with as_of <- %s' % (vf, fmt(fields_.get(vf, ('sym', '?')))[:60], fmt(fields_.get(asof_f, ('sym', '?')))[:40]))
    for name in list(MISSING) + ['ClockErrorBoundData', 'ThreadAbort']:
        chk.ob('C08.F', 'dispatch:%s:handled' % name, name in seen, where0,
               'message %s %s' % (name, 'has a dispatch row' if name in seen else 'HAS NO DISPATCH ROW'), nontrivial=False)
    data_classes = {i['applied'][0] for i in seen.get('ClockErrorBoundData', []) if i['applied']}
    chk.ob('C08.F', 'dispatch:ClockErrorBoundData:classes', data_classes == set(STATUS), where0,
           'a report can be classified as %s' % sorted(data_classes), nontrivial=False)

    # ---- D FSM tables
    trans, values, passthrough, delegates = m.fsm_tables(chk)
    chk.ob('C08.D', 'fsm:value-is-field', passthrough, where0, 'value() returns the state\'s clock_status field' if not m.enum_mode else
           'enum-encoded state machine: the value table is read off the function mapping a state to its ClockStatus')
    chk.ob('C08.D', 'fsm:apply-delegates-to-transition', delegates, where0, 'apply_chrony(update) = transition(update)' if not m.enum_mode else
           'enum-encoded state machine: the transition table is read off the resolved step function itself')
    chk.ob('C08.D', 'fsm:three-states', len(trans) == 3 and sorted(values.get(s) for s in trans) == sorted(STATUS), where0,
           'states: %s' % {s.split('::')[-1]: values.get(s) for s in trans})
    n_rows = 0
    for s, rows in trans.items():
        for inp in STATUS:
            tgt = rows.get(inp)
            n_rows += 1
            chk.ob('C08.D', 'fsm:%s+%s' % (values.get(s), inp), tgt is not None and values.get(tgt) == inp and tgt in trans,
                   where0, 'state %s --%s--> %s (value %s); documented: next state reports the input' %
                   (values.get(s), inp, (tgt or 'None').split('::')[-1], values.get(tgt)))
    chk.floor('C08.D', 'FSM rows', n_rows, 9)
    ctor, fields, init = m.initial_state(chk)
    if init is not None and init[1] is None:
        init = (init[0], values.get(init[0]))
    chk.ob('C08.D', 'fsm:initial-unknown', init is not None and init[1] == 'Unknown', where0, 'initial FSM state: %s' % (init,))
    if fields is not None:
        chk.ob('C08.C', 'drift:constructor-parameter', fields.get(drift_f, ('x',))[0] == 'sym', where0,
               'constructor sets %s <- %s' % (drift_f, fmt(fields.get(drift_f)) if fields.get(drift_f) else None))
    chk.tables['fsm'] = {'%s' % values.get(s): {i: values.get(t) for i, t in rows.items()} for s, rows in trans.items()}
    chk.tables['dispatch'] = {n: sorted({tuple(i['applied']) for i in v}) for n, v in seen.items()}

    # a publication is a call of the segment writer; that the call stores the record on every one of its paths -- no early
    # return that silently keeps what an earlier daemon or an earlier outcome left in the segment -- is C02.S1's statement,
    # and "every outcome results in a publication" depends on it
    from . import C02
    n_imp = common.import_obligations(ctx, chk, C02, 'C08', LEVEL, lambda o: o['rule'] == 'C02.S1' and o['key'] == 'write:has-data-write', 'C08.G')
    if not getattr(chk, '_nested', False):
        chk.floor('C08.G', 'paths of the segment write checked for storing the record (imported)', n_imp, 1)
