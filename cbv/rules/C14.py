"""C14 Client calls fail cleanly: drift threshold and causality/blur table from PSI atoms,
interval-domain discharge of every overflow/panic obligation on the now() call paths under
the stated input ranges, panic-site audit of the call-graph closure, error tables."""
from .. import psi, arith, mir
from ..arith import Iv, IntervalEval, I64
from ..psi import fmt
from . import common, wrappers_model
from .client_model import ClientModel
from .common import interval_of, INF

LEVEL = 'other'

MALFORMED_AT = 1_000_000_000
TS_RANGE_NS = (1 << 31) * 10**9       # +/- 68 years in ns
BOUND_MAX = (1 << 60) - 1

# calls that can panic and are accepted on the now() call paths, with the reason
PANIC_ALLOW = {
    'MisalignedPointerDereference': 'debug-build UB check on pointers into the mapping; the mapping is page aligned and '
                                    'the field offsets come from #[repr(C)] ShmHeader (C16.V3/C17.Y1)',
    'NullPointerDereference': 'debug-build UB check; pointers were formed from a successful mmap in ShmReader::new',
}
PANICKY_CALLS = ('::unwrap', '::expect', 'panicking::panic', 'panic_fmt', 'assert_failed', 'unwrap_failed',
                 'expect_failed', 'slice_index', 'panic_bounds_check', 'unreachable_display', '::unimplemented')


def run(ctx, chk):
    fb = ctx.facts()
    chk.explanation = ('M1: drift >= 1e9 -> SegmentMalformed decided before any use of the drift (interval of the drift '
                       'atom on every path). M2: duration table over mono - as_of: >=0 -> age, (-blur,0) -> 0, <= -blur -> '
                       'CausalityBreach. M3: every integer op / TimeSpec op / float->int conversion on the Ok paths is '
                       'evaluated in the interval domain under timestamps within +/-68 years, bound < 2^60, drift < 1e9, and '
                       'every Assert terminator and panicking call in the call-graph closure of both now() entry points is '
                       'discharged or allow-listed. M4: ShmError -> Rust/C error tables agree. M5: syscall origin literals.')
    chk.assumptions = ['timestamps within +/- 68 years (|t| <= 2^31 s), 0 <= bound < 2^60 ns (property quantifier)',
                       'nix 0.26 TimeSpec add/sub/nanoseconds/num_nanoseconds panic only when the i64 nanosecond value '
                       'overflows (pinned summary)']
    m = ClientModel(fb, chk, 'C14.M1')
    if not m.ok:
        return
    drift_unit = {m.leaf_self('max_drift_ppb'): 1}
    outcomes = {'age': [], 'zero': [], 'breach': [], 'malformed': []}
    blur = None
    for info in m.infos:
        p = info['path']
        if p.kind != 'return' or p.value[0] != 'agg':
            continue
        where = p.where[2]
        dlo, dhi, _ = interval_of(info['atoms'], drift_unit)
        if p.value[2] == 'Err':
            ev = p.value[3][0]
            kind = ev[2] if ev[0] == 'agg' else None
            if kind == 'SegmentMalformed':
                outcomes['malformed'].append(info)
                chk.ob('C14.M1', 'now:malformed-threshold', dlo == MALFORMED_AT, where,
                       'SegmentMalformed returned for drift in [%s, %s] (property: 1e9 ppb or more)' % (dlo, dhi))
                # decided before the clock-dependent part: no time atom on this path
                chk.ob('C14.M1', 'now:malformed-checked-first', not [a for a in info['atoms'] if a[0].key() != common.Lin(drift_unit).key() and a[0].key() != common.Lin(drift_unit).scale(-1).key()],
                       where, 'drift sanity check precedes every time comparison')
            elif kind == 'CausalityBreach':
                outcomes['breach'].append(info)
            continue
        if p.value[2] != 'Ok':
            continue
        chk.ob('C14.M1', 'now:ok-implies-drift-below-1e9', dhi == MALFORMED_AT - 1, where,
               'Ok path taken for drift in [%s, %s]' % (dlo, dhi))
        lo, hi, _ = interval_of(info['atoms'], m.age_unit(info))
        if lo > hi:
            continue            # infeasible combination of time atoms (ordering theory, DESIGN 3.6)
        ub = unwrap_halfwidth(tup_of(p))
        if uses_zero_age(ub):
            outcomes['zero'].append((info, lo, hi))
        else:
            outcomes['age'].append((info, lo, hi))
    # ---- M2 table: hull of the feasible regions per outcome
    def hull(items):
        return (min(x[1] for x in items), max(x[2] for x in items)) if items else None
    h_age, h_zero = hull(outcomes['age']), hull(outcomes['zero'])
    br = []
    for info in outcomes['breach']:
        lo, hi, _ = interval_of(info['atoms'], m.age_unit(info))
        if lo <= hi:
            br.append((info, lo, hi))
    h_br = hull(br)
    where = m.body.where(0)
    if h_age:
        chk.ob('C14.M2', 'now:full-age-iff-nonnegative', h_age[0] == 0 and h_age[1] == INF, where,
               'full age (mono - as_of) is used exactly for mono - as_of in [%s, %s] (oracle [0, inf])' % h_age)
    if h_zero:
        blur = -h_zero[0] + 1 if h_zero[0] != -INF else None
        chk.ob('C14.M2', 'now:blur-window', h_zero[0] != -INF and h_zero[1] == -1 and 0 < -h_zero[0] <= 10**9, where,
               'age treated as zero for mono - as_of in [%s, %s] (blur = %s ns)' % (h_zero[0], h_zero[1], blur))
    if h_br:
        ok = h_br[0] == -INF and h_br[1] <= -1 and (blur is None or h_br[1] in (-blur, -blur - 1, -blur + 1))
        chk.ob('C14.M2', 'now:causality-breach-region', ok, where,
               'CausalityBreach returned for mono - as_of in [%s, %s]' % h_br)
    chk.ob('C14.M2', 'now:three-outcomes', bool(outcomes['age']) and bool(outcomes['zero']) and bool(outcomes['breach']),
           m.body.where(0), 'outcomes present: age=%d zero=%d breach=%d' %
           (len(outcomes['age']), len(outcomes['zero']), len(outcomes['breach'])), nontrivial=False)
    chk.floor('C14.M1', 'SegmentMalformed paths', len(outcomes['malformed']), 1)
    chk.tables['duration'] = {'age>=0': len(outcomes['age']), 'blur': len(outcomes['zero']), 'breach': len(outcomes['breach']),
                              'blur_ns': blur}

    # ---- M3a interval discharge on Ok paths
    def leaf_range_for(info, lo_age, hi_age):
        real, mono = info['real'], info['mono']
        asof, va = m.leaf_self('as_of'), m.leaf_self('void_after')

        def lr(v):
            if v == real or v == mono or v == asof or v == va:
                return Iv(-TS_RANGE_NS, TS_RANGE_NS)
            if v == m.leaf_self('bound_nsec'):
                return Iv(0, BOUND_MAX)
            if v == m.leaf_self('max_drift_ppb'):
                return Iv(0, MALFORMED_AT - 1)
            # mono - as_of refined by the path's atoms
            if v[0] == 't' and v[1] == 'ts_sub':
                l = common.lin_time(v)
                if l is not None and l.key() == common.Lin(m.age_unit(info)).key() and l.const == 0:
                    return Iv(max(lo_age, -2 * TS_RANGE_NS), min(hi_age, 2 * TS_RANGE_NS))
            return None
        return lr

    total_checked = 0
    for info, lo, hi in outcomes['age'] + outcomes['zero']:
        p = info['path']
        tup = p.value[3][0]
        ie = IntervalEval(leaf_range_for(info, lo, hi))
        for comp in tup[3][:2]:
            ie.ev(comp)
        # every comparison operand too (as_of + grace, as_of - blur)
        for term, op, val, _ in p.conds:
            if term[0] == 't' and term[1] in common.CMP:
                ie.ev(term[2][0])
                ie.ev(term[2][1])
        total_checked += ie.checked
        for what, iv, t in ie.problems:
            chk.ob('C14.M3', 'now:range:%s' % what, False, p.where[2], '%s can reach %s: %s' % (what, iv, t))
        if not ie.problems:
            chk.ob('C14.M3', 'now:arithmetic-in-range', True, p.where[2],
                   '%d arithmetic/conversion steps stay inside their type under the stated ranges' % ie.checked)
        # the debug-build overflow asserts on the path are those same operations
        for ef in p.effects:
            if ef['kind'] == 'assert' and ef['msg'].startswith('Overflow'):
                chk.analysed['call_sites'] += 1
    chk.floor('C14.M3', 'arithmetic steps evaluated in the interval domain', total_checked, 4)

    # ---- M3b panic-site audit over the call-graph closure of both entry points
    ws = wrappers_model.load(fb, chk, 'C14.M4')
    entry = [w.body for w in ws.values()]
    closure = {}
    work = list(entry)
    while work:
        b = work.pop()
        if b.path in closure:
            continue
        closure[b.path] = b
        for bb, t, fn in common.user_calls(b):
            nm = mir.callee_name(fn) if fn else None
            nb = fb.body(nm) if nm else None
            if nb is None and fn and nm == '<T as std::convert::Into<U>>::into':
                eng = common.mk_engine(fb)
                nb = eng.find_from_impl(b.crate, fn['targs'][0], fn['targs'][1])
            if nb is not None:
                work.append(nb)
    n_sites = 0
    # blocks reachable on some explored path from the entry points when assertion checks are NOT taken for granted: an
    # `assert!`/`debug_assert!` whose failing branch no path reaches (the condition is decided by what the path already
    # knows: a constant argument, an earlier test of the same quantity) cannot fire
    reached = set()
    reach_ok = True
    for eb in entry:
        try:
            for p in common.mk_engine(fb, assume_asserts=False, loop_unroll=2, max_paths=20000).run(eb):
                for fid, pth, bb_ in p.state.trace:
                    reached.add((pth, bb_))
                if p.where:
                    reached.add((p.where[0], p.where[1]))
        except psi.PathLimit:
            reach_ok = False
    for path, b in sorted(closure.items()):
        chk.saw(b)
        for i, blk in enumerate(b.blocks):
            if blk['cleanup']:
                continue
            t = blk['term']
            if t['k'] == 'assert':
                n_sites += 1
                msg = t['msg']
                short = path.split('::')[-1]
                if msg in PANIC_ALLOW:
                    continue
                if msg.startswith('Overflow'):
                    ok, why = discharge_overflow(b, i, t, m, outcomes)
                    chk.ob('C14.M3', 'assert:%s:%s' % (short, msg), ok, b.where(i), why)
                elif msg == 'BoundsCheck' and bounded_index(b, i) is not None and bounded_index(b, i)[0] < bounded_index(b, i)[1]:
                    chk.ob('C14.M3', 'assert:%s:%s' % (short, msg), True, b.where(i),
                           'index is at most %d (a bool / field-less enum as usize) into a table of %d' % bounded_index(b, i))
                elif msg in ('DivisionByZero', 'RemainderByZero') and const_divisor(b, i):
                    chk.ob('C14.M3', 'assert:%s:%s' % (short, msg), True, b.where(i), 'divisor is the non-zero constant %s' % const_divisor(b, i))
                else:
                    chk.ob('C14.M3', 'assert:%s:%s' % (short, msg), False, b.where(i),
                           'assert of kind %s on a now() call path is not discharged' % msg)
            elif t['k'] == 'call':
                fn = t['func'].get('fn')
                nm = mir.callee_name(fn) if fn else ''
                if any(s in nm for s in PANICKY_CALLS) and not mir.in_tracing(blk['tspan']):
                    n_sites += 1
                    short = path.split('::')[-1]
                    ok, why = discharge_panicky(fb, b, i, t, nm)
                    if not ok and reach_ok and mir.is_assert_failure(b, i) and (path, i) not in reached:
                        ok, why = True, 'assertion failure branch not reachable on any explored path from the now() entry points (its condition is decided by earlier tests / constant arguments)'
                    chk.ob('C14.M3', 'call:%s:%s' % (short, nm.split('::')[-1]), ok, b.where(i), why)
    chk.analysed['call_sites'] += n_sites
    chk.tables['closure'] = sorted(closure)

    # ---- M4 error tables
    want_kind = {'SyscallError': ('Syscall', 'CLOCKBOUND_ERR_SYSCALL'),
                 'SegmentNotInitialized': ('SegmentNotInitialized', 'CLOCKBOUND_ERR_SEGMENT_NOT_INITIALIZED'),
                 'SegmentMalformed': ('SegmentMalformed', 'CLOCKBOUND_ERR_SEGMENT_MALFORMED'),
                 'CausalityBreach': ('CausalityBreach', 'CLOCKBOUND_ERR_CAUSALITY_BREACH')}
    tables = {}
    for name, w in ws.items():
        col = 0 if name == 'rust' else 1
        for stage in ('snapshot', 'now'):
            rows = {r['shm_err']: r['out'] for r in w.rows if r['stage'] == stage and r['out'] and r['out'][0] == 'err'}
            for e, want in want_kind.items():
                o = rows.get(e)
                if o is None:
                    chk.ob('C14.M4', '%s:%s:%s:row-missing' % (name, stage, e), False, w.body.where(0),
                           'no error row for %s at stage %s' % (e, stage))
                    continue
                kind_ok = o[1] == want[col]
                if e == 'SyscallError':
                    errno_ok = o[2][0] == 'from' and o[2][2][:4] == ('as Err', '.0', 'as SyscallError', '.0')
                    detail_ok = o[3][0] == 'from' and o[3][2][:4] == ('as Err', '.0', 'as SyscallError', '.1')
                else:
                    errno_ok = o[2] == ('const', 0)
                    detail_ok = o[3][0] == 'empty'
                chk.ob('C14.M4', '%s:%s:%s' % (name, stage, e), kind_ok and errno_ok and detail_ok, w.body.where(0),
                       '%s -> kind %s errno %s detail %s' % (e, o[1], o[2], o[3]))
                tables.setdefault(name, {})['%s/%s' % (stage, e)] = [o[1], str(o[2]), str(o[3])]
    chk.tables['errors'] = tables

    # ---- M5 syscall origin literals: every constant that flows into CStr::from_bytes_with_nul in the shm crate
    lits = []
    compile_time_only = []
    for b in fb.bodies(common.SHM):
        if not any(fn and mir.callee_name(fn).endswith('CStr::from_bytes_with_nul') for _, _, fn in b.calls()):
            continue
        if b.d.get('const_fn') and b.d.get('vis') != 'Public' and not common.callers_map(fb).get(b.path):
            # a private `const fn` no function calls: it only runs inside constant initialisers, at compile time (its panic
            # would be a build error); what it produced is checked below, where the constants are used
            compile_time_only.append(b.path)
            continue
        chk.saw(b)
        eng5 = common.mk_engine(fb, no_inline=lambda x: True)
        seen5 = set()
        for p5 in eng5.run(b):
            for ef in p5.effects:
                if ef['kind'] == 'call' and ef['callee'].endswith('CStr::from_bytes_with_nul'):
                    vals = list(ef['args']) + [x for x in (ef.get('pointees') or []) if x is not None]
                    # the bytes may come through `str::as_bytes` of a string constant
                    for x in list(vals):
                        for y in psi.walk(x):
                            if y[0] == 't' and y[1] == 'call' and isinstance(y[2][1], int) and y[2][1] < len(p5.effects):
                                e2 = p5.effects[y[2][1]]
                                vals += list(e2.get('args') or []) + [z for z in (e2.get('pointees') or []) if z is not None]
                    found = []
                    for x in vals:
                        found += common.c_string_literals(x)
                    key5 = (ef['site'][:2], tuple(found))
                    if key5 in seen5:
                        continue
                    seen5.add(key5)
                    if found:
                        lits.append((b, ef['site'][1], found[-1]))
                    else:
                        chk.ob('C14.M5', 'origin-not-a-literal:%s' % b.path.split('::')[-1], False, ef['site'][2],
                               'CStr::from_bytes_with_nul is applied to %s, not to a literal: the unwrap() behind it can panic in a client call' % fmt(ef['args'][0])[:80])
    if compile_time_only:
        # origins that are constants of type &CStr (validated when the crate is built): collect them where a SyscallError is
        # built from one
        seen_k = set()
        for b in fb.bodies(common.SHM):
            for blk_i, blk in enumerate(b.blocks):
                for st_ in blk['stmts'] + [blk['term']]:
                    for o in _const_operands(st_):
                        if o.get('mem_relocs') and 'CStr' in b.tystr(o['ty']):
                            try:
                                raw = bytes.fromhex(o['mem_relocs'][0]['bytes'])
                            except (ValueError, KeyError, IndexError):
                                continue
                            if raw not in seen_k:
                                seen_k.add(raw)
                                lits.append((b, blk_i, raw.decode('latin-1')))
    for b, i, s in lits:
        good = s.endswith('\0') and '\0' not in s[:-1] and all(ord(c) < 128 for c in s)
        chk.ob('C14.M5', 'origin-literal:%s' % s.rstrip('\0'), good, b.where(i),
               'syscall origin literal %r is %s' % (s, 'ASCII with one trailing NUL' if good else 'NOT a valid C string'))
    chk.floor('C14.M5', 'syscall origin literals', len(lits), 3)

    # ---- M6 a failing call leaves nothing behind: the error exits of snapshot() do not touch what the reader keeps between
    # calls (C03.G2). Otherwise the *next* call takes the "nothing changed" path and answers Ok from the previous record,
    # although the record in the segment is the one that was just refused (drift >= 1e9, say): the error is reported once
    # instead of on every call.
    from . import C03
    n6 = common.import_obligations(ctx, chk, C03, 'C14', LEVEL, lambda o: o['rule'] == 'C03.G2' and o['key'].startswith(('err-exit', 'cache-exit', 'retry')), 'C14.M6')
    if not getattr(chk, '_nested', False):
        chk.floor('C14.M6', 'exits of snapshot() that accept nothing, checked for leaving the cache alone (imported)', n6, 2)


def _const_operands(node):
    """every constant operand (dict with k == 'const') inside a MIR statement / terminator record"""
    if isinstance(node, dict):
        if node.get('k') == 'const' and 'ty' in node:
            yield node
        for v in node.values():
            yield from _const_operands(v)
    elif isinstance(node, list):
        for v in node:
            yield from _const_operands(v)


def bounded_index(b, bb):
    """for a BoundsCheck assert ending block bb: (max index, length) when the index is a value with a small closed range --
    a field-less enum or a bool converted to usize -- and the length is a constant; None otherwise"""
    t = b.blocks[bb]['term']
    c = t['cond']
    if c.get('k') not in ('copy', 'move') or c['p']['proj']:
        return None

    def single_def(l):
        defs = [s_['r'] for blk in b.blocks for s_ in blk['stmts'] if s_['k'] == 'assign' and s_['p']['l'] == l and not s_['p']['proj']]
        calls = [blk['term'] for blk in b.blocks if blk['term']['k'] == 'call' and blk['term']['dest']['l'] == l and not blk['term']['dest']['proj']]
        if len(defs) == 1 and not calls:
            return ('stmt', defs[0])
        if len(calls) == 1 and not defs:
            return ('call', calls[0])
        return None

    def const_int(o):
        if o.get('k') == 'const' and ('int' in o or 'bits' in o):
            return int(o.get('int', o.get('bits')))
        return None

    def max_of(o, depth=0):
        """largest value the operand can take, when it comes from a bool / field-less enum"""
        if depth > 6 or o.get('k') not in ('copy', 'move') or o['p']['proj']:
            return const_int(o)
        l = o['p']['l']
        ts = b.tystr(b.locals[l]['ty'])
        if ts == 'bool':
            return 1
        d = single_def(l)
        if d is None:
            return None
        kind, r = d
        if kind == 'stmt':
            if r['k'] == 'use':
                return max_of(r['op'], depth + 1)
            if r['k'] == 'cast' and 'x' in r:
                return max_of(r['x'], depth + 1)
            if r['k'] == 'cast' and 'op' in r:
                return max_of(r['op'], depth + 1)
            if r['k'] == 'discr':
                pty = b.tystr(r['p']['ty']) if 'ty' in r['p'] else None
                a = b.crate.adts.get(pty) if pty else None
                if a and a.get('kind') == 'enum':
                    return max(v.get('discr', v['index']) for v in a['variants'])
            return None
        fn = r['func'].get('fn')
        nm = mir.callee_name(fn) if fn else ''
        if nm.endswith('From<bool>>::from') and r['args']:
            return 1
        return None
    cl = c['p']['l']
    for s in b.blocks[bb]['stmts']:
        if s['k'] == 'assign' and s['p']['l'] == cl and s['r']['k'] == 'bin' and s['r']['op'] == 'Lt':
            n = const_int(s['r']['r'])
            m = max_of(s['r']['l'])
            if n is not None and m is not None:
                return m, n
    return None


def const_divisor(b, bb):
    """non-zero constant divisor of the Div/Rem guarded by the ByZero assert ending block bb"""
    t = b.blocks[bb]['term']
    c = t['cond']
    if c.get('k') not in ('copy', 'move'):
        return None
    cl = c['p']['l']
    for s in b.blocks[bb]['stmts']:
        if s['k'] == 'assign' and s['p']['l'] == cl and s['r']['k'] == 'bin' and s['r']['op'] == 'Eq':
            for o in (s['r']['l'], s['r']['r']):
                if o.get('k') == 'const' and ('int' in o or 'bits' in o):
                    z = int(o.get('int', o.get('bits')))
                    other = s['r']['r'] if o is s['r']['l'] else s['r']['l']
                    if z == 0 and other.get('k') == 'const' and int(other.get('int', other.get('bits', 0))) != 0:
                        return int(other.get('int', other.get('bits')))
    return None


def tup_of(p):
    return p.value[3][0]


def unwrap_halfwidth(tup):
    e = tup[3][0]
    while e[0] == 't' and e[1] == 'field':
        e = e[2][0]
    if e[0] == 't' and e[1] in ('ts_sub', 'ts_add'):
        return e[2][1]
    return e


def uses_zero_age(ub):
    """does the half-width use a constant-zero duration instead of mono - as_of?"""
    for x in psi.walk(ub):
        if x[0] == 't' and x[1] in ('ts_num_nanoseconds', 'ts_num_seconds'):
            l = common.lin_time(x[2][0])
            if l is not None and not l.terms and l.const == 0:
                return True
    return False


def discharge_overflow(b, bb, t, m, outcomes):
    """an Overflow assert is discharged when (a) it is one of the operations of the now()
    formula evaluated in the interval domain above, or (b) it is a counter decrement guarded
    by a dominating `> 0` comparison of the same local"""
    name = b.path.split('::')[-1]
    if any(b.path == p for p in m.engine.inlined) or b is m.body:
        return True, 'operation of the now() formula: range-checked in the interval domain (C14.M3 now:arithmetic-in-range)'
    # (b) the decrement of a loop counter proven bounded by the ranking rule (C18.B1): counter in [1, init]
    from .C18 import ranking_info, _src_local, _const_of, RANK_FB
    RANK_FB[0] = m.fb
    for s in b.blocks[bb]['stmts']:
        if s['k'] == 'assign' and s['r']['k'] == 'bin' and s['r']['op'] == 'SubWithOverflow':
            ctr = _src_local(b, bb, s['r']['l'])
            for tail, head in b.back_edges():
                if bb in b.natural_loop(tail, head):
                    ok, why, info = ranking_info(b, head, tail)
                    if ok and info['ctr'] == ctr and bb in {x for x in info['decs']} | {p_ for d in info['decs'] for p_ in b.preds()[d]} | set(info['decs']):
                        return True, 'decrement of the loop counter _%d, which stays in [1, %d] (ranking rule C18.B1: %s)' % (ctr, info['init'], why[:120])
                    if ok and info['ctr'] == ctr:
                        return True, 'decrement of the loop counter _%d, which stays in [1, %d] (ranking rule C18.B1)' % (ctr, info['init'])
    # (c) the increment of an up-counting loop counter bounded by its exit test (C18.B1, third shape)
    from .C18 import up_counter_info
    for s in b.blocks[bb]['stmts']:
        if s['k'] == 'assign' and s['r']['k'] == 'bin' and s['r']['op'] == 'AddWithOverflow':
            ctr = _src_local(b, bb, s['r']['l'])
            for tail, head in b.back_edges():
                if bb in b.natural_loop(tail, head):
                    ok, why, info = up_counter_info(b, head, tail)
                    tmax = {'u8': 255, 'u16': 65535, 'u32': (1 << 32) - 1, 'u64': (1 << 64) - 1, 'usize': (1 << 64) - 1,
                            'i32': (1 << 31) - 1, 'i64': (1 << 63) - 1}.get(b.tystr(b.locals[ctr]['ty'])) if ctr is not None else None
                    if ok and info['ctr'] == ctr and tmax is not None and info['bound'] - 1 + max(info['dec_by']) <= tmax:
                        return True, 'increment of the loop counter _%d, which stays below %d inside the loop (ranking rule C18.B1)' % (ctr, info['bound'])
    return False, 'overflow check in %s not discharged by the interval domain or a dominating guard' % name


def discharge_panicky(fb, b, bb, t, nm):
    """accepted idioms for panicking calls on the now() call paths"""
    if mir.is_from_macro(b.blocks[bb]['tspan'], names=('syserror',)):
        return True, 'unwrap() on CStr::from_bytes_with_nul of a syserror! origin literal; literals are valid C strings (C14.M5)'
    # unwrap()/expect() applied to the result of CStr::from_bytes_with_nul: every constant reaching that call is checked by M5
    if nm.split('::')[-1] in ('unwrap', 'expect') and t['args'] and t['args'][0].get('k') in ('copy', 'move') and not t['args'][0]['p']['proj']:
        l0 = t['args'][0]['p']['l']
        for blk in b.blocks:
            tt = blk['term']
            if tt['k'] == 'call' and tt['dest']['l'] == l0 and not tt['dest']['proj'] and tt['func'].get('fn') and \
                    mir.callee_name(tt['func']['fn']).endswith('CStr::from_bytes_with_nul'):
                return True, 'unwrap() on CStr::from_bytes_with_nul of origin literals checked by C14.M5'
    # CStr -> str conversion of a syscall origin literal: literals are checked ASCII by C14.M5
    args = t['args']
    for a in args:
        if a.get('k') == 'const' and 'str' in a and 'CStr' in a['str']:
            return True, 'expect() on CStr::to_str of a syscall origin literal; literals are ASCII (C14.M5)'
    # find the string message argument
    for a in args:
        if a.get('k') in ('copy', 'move'):
            l = a['p']['l']
            for blk in b.blocks:
                for s in blk['stmts']:
                    if s['k'] == 'assign' and s['p']['l'] == l and not s['p']['proj']:
                        r = s['r']
                        if r['k'] == 'ref' or r['k'] == 'use':
                            pass
    # generic: look for the message constant in the same block
    msgs = []
    for s in b.blocks[bb]['stmts']:
        if s['k'] == 'assign' and s['r']['k'] == 'use' and 'str' in s['r']['op']:
            msgs.append(s['r']['op']['str'])
    if any('CStr to str' in x for x in msgs):
        return True, 'expect() on CStr::to_str of a syscall origin literal; literals are ASCII (C14.M5)'
    return False, 'panicking call %s on a now() call path is not in the accepted idioms (message %s)' % (nm, msgs)
