"""C09 No trust before a first measurement: finite abstraction of the updater
(FSM state x 'holds a measurement' x every bool/Option-like field), transfer functions read
off the dispatch paths, fixpoint from the constructor state; in every reachable state that
still holds the constructor placeholders the published status must be Unknown."""
from .. import psi, arith
from ..psi import fmt, T
from . import common
from .updater_model import UpdaterModel, STATUS
from .C08 import published_form

LEVEL = 'other'


def run(ctx, chk):
    fb = ctx.facts()
    chk.explanation = ('Abstract reachability over (FSM state, measured?, flag fields) with one transfer function per dispatch '
                       'path; Q1: status published while the bound/as-of still are the constructor placeholders must be Unknown; '
                       'Q2: the poller starts outside its grace period so an early outage is classified Unknown-class.')
    m = UpdaterModel(fb, chk, 'C09.Q1')
    if not m.ok:
        return
    where0 = m.dispatch.where(0)
    trans, values, passthrough, delegates = m.fsm_tables(chk)
    ctor, fields, init = m.initial_state(chk)
    if init is not None and init[1] is None:
        init = (init[0], values.get(init[0]))
    if fields is None or init is None or init[1] is None:
        chk.missing('C09.Q1', 'constructor state of the updater')
        return
    bound_f, asof_f = m.field_of.get(2), m.field_of.get(0)
    data_fields = {bound_f, asof_f}
    state_by_value = {v: s for s, v in values.items() if s in trans}
    # flag fields: constructor gives a constant bool / None-like aggregate
    flags0 = {}
    for name, v in fields.items():
        if psi.is_int_const(v) and v[2] == 'bool':
            flags0[name] = v[1]
        elif v[0] == 'agg' and v[2] in ('None', 'Some'):
            flags0[name] = v[2]
    upd = None
    for i in m.infos:
        for ceb in i['records']:
            for f in ceb[3]:
                x = f
                while x[0] == 't' and x[1] == 'field':
                    x = x[2][0]
                if x is not f and (x[0] == 'sym' or (x[0] == 't' and x[1] == 'deref' and x[2][0][0] == 'sym')):
                    upd = x
    if upd is None:
        chk.missing('C09.Q1', 'updater leaf in the dispatch loop')
        return

    def leaf(name):
        v = upd
        for part in str(name).split('.'):       # a field of a nested private struct: `last.has_measurement`
            v = T('field', v, part)
        return v

    def env_for(state):
        fsm, measured, flags = state
        env = {}
        for name, val in flags:
            if isinstance(val, int):
                env[leaf(name)] = val
            else:
                env[T('discr', leaf(name))] = 1 if val == 'Some' else 0
        if m.enum_mode:
            idx = {n: k for k, n in m.state_enum[1].items()}
            sv = state_by_value.get(fsm)
            if sv in idx:
                env[T('discr', m.state_leaf(upd))] = idx[sv]
        if not measured:
            for name in data_fields:
                v = fields.get(name)
                if v is None:
                    continue
                if psi.is_int_const(v):
                    env[leaf(name)] = v[1]
                elif v[0] == 'agg':
                    adt = common.mk_engine(fb).find_adt(v[1]) or {}
                    fns = [f['name'] for f in adt.get('variants', [{}])[0].get('fields', [])]
                    for fn_, fv in zip(fns, v[3]):
                        if psi.is_int_const(fv):
                            env[T('field', leaf(name), fn_)] = fv[1]
        return env

    start = (init[1], False, tuple(sorted(flags0.items())))
    seen = {start: ()}
    work = [start]
    n_trans = 0
    violations = {}
    polls = [i for i in m.infos if i['writes'] >= 1 or i['applied']]
    while work:
        st = work.pop()
        fsm, measured, flags = st
        env = env_for(st)
        for i in polls:
            # path conditions on updater state must be compatible with the abstract state
            feasible = True
            for c in i['path'].conds:
                if not arith.mentions(c[0], upd):
                    continue
                h = arith.cond_holds(c, env)
                if h is False:
                    feasible = False
                    break
            if not feasible:
                continue
            n_trans += 1
            applied = i['applied'][0] if i['applied'] else None
            src_state = state_by_value.get(fsm)
            nxt = values.get(trans.get(src_state, {}).get(applied)) if applied else fsm
            stored = i['stores'].get(m.state_field) if m.enum_mode else None
            if stored is not None and stored[0] == 'agg' and values.get(stored[2]) is not None:
                nxt = values[stored[2]]
            if nxt is None:
                nxt = applied
            # a measurement exists once a data field has been assigned *from the message*: a store of anything else (a
            # constant, a place-holder filled in on the way out, the result of a call on the field itself) leaves the record
            # without a measurement, whatever the field now holds
            def from_message(v_):
                return i['payload'] is not None and arith.mentions(v_, i['payload'])
            n_measured = measured or any(from_message(i['stores'][f_]) for f_ in data_fields & set(i['stores']))
            nflag_alts = [dict(flags)]
            for name in flags0:
                if name in i['stores']:
                    v = i['stores'][name]
                    if psi.is_int_const(v):
                        vals_ = [v[1]]
                    elif v[0] == 'agg' and v[2] in ('None', 'Some'):
                        vals_ = [v[2]]
                    else:
                        # a value the abstraction cannot name (the field was handed to a call: `get_or_insert`, `take`,
                        # `replace`): afterwards it may hold either
                        vals_ = [0, 1] if isinstance(flags0[name], int) else ['None', 'Some']
                    nflag_alts = [dict(a_, **{name: x_}) for a_ in nflag_alts for x_ in vals_]
            nss = [(nxt, n_measured, tuple(sorted(a_.items()))) for a_ in nflag_alts]
            ns = nss[0]
            label = '%s[%s]' % (i['msg_name'], applied)
            for ceb in i['records']:
                form = m.published(chk, i, ceb)[:2]
                if form[0] == 'fsm' and m.enum_mode:
                    pub = form[1]
                elif form[0] == 'fsm':
                    pub = nxt
                elif form[0] == 'const':
                    pub = form[1]
                else:
                    pub = '?' + form[1]
                if not n_measured and pub != 'Unknown':
                    key = 'placeholder-published:%s:%s' % (applied, pub)
                    if key not in violations:
                        violations[key] = (i, seen[st] + (label,), st, pub, ceb)
            for ns in nss:
                if ns not in seen:
                    seen[ns] = seen[st] + (label,)
                    work.append(ns)
    chk.analysed['call_sites'] += n_trans
    for key, (i, trace, st, pub, ceb) in sorted(violations.items()):
        chk.ob('C09.Q1', key, False, i['path'].where[2],
               'from the constructor state, after %s the record {as_of=%s, bound=%s} (constructor placeholders) is '
               'published with status %s; abstract state before: fsm=%s measured=%s flags=%s' %
               (' -> '.join(trace), fmt(ceb[3][0])[-30:], fmt(ceb[3][2])[-30:], pub, st[0], st[1], dict(st[2])),
               data={'trace': trace})
    if not violations:
        chk.ob('C09.Q1', 'placeholder-never-published-trusted', True, where0,
               'in all %d reachable abstract states (%d transitions) a record holding placeholders is published Unknown' %
               (len(seen), n_trans))
    chk.floor('C09.Q1', 'reachable abstract states', len(seen), 3)
    chk.floor('C09.Q1', 'abstract transitions', n_trans, 9)
    chk.tables['states'] = [{'fsm': s[0], 'measured': s[1], 'flags': dict(s[2]), 'trace': list(t)} for s, t in seen.items()]
    chk.tables['constructor'] = {k: fmt(v)[:60] for k, v in fields.items()}

    # ---- Q2: poller default instant is at least the grace period in the past
    from . import C13
    C13.check_default_instant(fb, chk, 'C09.Q2')

    # a publication is a call of the segment writer; that the call stores the record on every one of its paths -- no early
    # return that silently keeps what an earlier daemon or an earlier outcome left in the segment -- is C02.S1's statement,
    # and "clients must see Unknown" depends on it
    from . import C02
    n_imp = common.import_obligations(ctx, chk, C02, 'C09', LEVEL, lambda o: o['rule'] == 'C02.S1' and o['key'] == 'write:has-data-write', 'C09.Q3')
    if not getattr(chk, '_nested', False):
        chk.floor('C09.Q3', 'paths of the segment write checked for storing the record (imported)', n_imp, 1)
