"""C16 Segment files are validated on open, and repaired by the daemon: the open path is
a decision list (PSI over ShmReader::new with helpers inlined) compared with the documented
outcome per failing check; the repair chain is checked by table agreement."""
from .. import psi, arith, mir
from ..psi import fmt
from . import common
from .open_model import OpenModel, layout

LEVEL = 'other'

MAGIC_DOC = bytes([0x41, 0x4D, 0x5A, 0x4E, 0x43, 0x42, 0x02, 0x00])


def _self_field(v):
    """dotted field path of `self` a value was read from (through casts / NonNull wrappers), or None"""
    v = arith.strip_casts(v)
    names = []
    while v[0] == 't' and v[1] == 'field':
        names.append(str(v[2][1]))
        v = v[2][0]
    if v[0] == 't' and v[1] == 'deref' and v[2][0][0] == 'sym' and names:
        return '.'.join(reversed(names))
    return None


def _find_aggs(v, tystr, out, depth=0):
    if depth > 6 or not isinstance(v, tuple) or not v:
        return out
    if v[0] == 'agg':
        if v[1] == tystr and v[2] is not None:
            out.append(v)
        for f in v[3]:
            _find_aggs(f, tystr, out, depth + 1)
    return out


def unmap_rules(fb, chk):
    is_unmap = lambda n: n.split('::')[-1] == 'munmap'
    is_map = lambda n: n.split('::')[-1] == 'mmap'
    owners = [b for b in fb.bodies(common.SHM) if b.name == 'drop' and (b.impl_trait or '').endswith('Drop') and b.impl_self and
              common.reaches_call(fb, b, is_unmap)]
    n_ob = 0
    n_failed = [0]
    for d in owners:
        chk.saw(d)
        slots = None
        for p in common.mk_engine(fb).run(d):
            for ef in p.effects:
                if ef['kind'] == 'call' and is_unmap(ef['callee']) and len(ef['args']) >= 2:
                    slots = (_self_field(ef['args'][0]), _self_field(ef['args'][1]))
        if not slots or None in slots:
            chk.ob('C16.V6', 'unmap:%s:arguments-are-own-fields' % d.impl_self.split('::')[-1], False, d.where(0),
                   'Drop for %s calls munmap with arguments that are not fields of the value being dropped' % d.impl_self)
            continue
        ptr_f, len_f = slots
        adt = None
        for c in fb.crates:
            adt = adt or c.adts.get(d.impl_self)
        names = [f['name'] for f in adt['variants'][0]['fields']] if adt else []

        def by_path(eng_, v, dotted):
            """the value at a dotted field path of a struct value (through nested private structs)"""
            for part in dotted.split('.'):
                if v is None or v[0] != 'agg':
                    return None
                a_ = eng_.find_adt(v[1])
                nms = [f['name'] for f in a_['variants'][0]['fields']] if a_ and a_.get('variants') else []
                if part not in nms or len(nms) != len(v[3]):
                    return None
                v = v[3][nms.index(part)]
            return v
        if ptr_f.split('.')[0] not in names or len_f.split('.')[0] not in names:
            continue
        # every place such a value is built: the public constructors of the crate, explored with their helpers inlined
        from .startup_model import is_reader_new, init_reader_open
        init_reader_open(fb)
        for ctor in [b for b in fb.bodies(common.SHM) if b.name == 'new' and b.defkind != 'Closure' and (b.impl_self or '').endswith(('ShmReader', 'ShmWriter'))]:
            side_w = ctor.impl_self.endswith('ShmWriter')
            eng, qs = common.run_unrolled(fb, ctor, inline_depth=8, no_inline=(is_reader_new if side_w else None))
            for q in qs:
                # no owner of a mapping exists on a path where mmap failed: one built from the raw result before the
                # MAP_FAILED test is dropped on the error exit, and its Drop hands MAP_FAILED to munmap (EINVAL; here an
                # assertion failure, i.e. a crash instead of the system-call error)
                from .open_model import name_atom, truth_of
                failed_map = False
                for term, op, val, _ in q.conds:
                    a_ = name_atom(term, 16, 72, None, q.effects)
                    t_ = truth_of(op, val)
                    if a_ is not None and t_ is not None and a_[0] == 'mmap==MAP_FAILED' and t_ != a_[1]:
                        failed_map = True
                if failed_map:
                    for ef in q.effects:
                        if ef['kind'] == 'drop' and ef.get('ty', '').split('<')[0] == d.impl_self.split('<')[0]:
                            n_failed[0] += 1
                            chk.ob('C16.V6', 'unmap:%s:no-owner-of-a-failed-mapping' % d.impl_self.split('::')[-1], False, ef['site'][2],
                                   'on the path where mmap fails a %s built from its result is dropped: munmap(MAP_FAILED, ..) in its '
                                   'Drop (a crash where the system-call error is documented)' % d.impl_self.split('::')[-1])
                if not (q.kind == 'return' and q.value[0] == 'agg' and q.value[2] == 'Ok'):
                    continue
                for g in _find_aggs(q.value, d.impl_self, []):
                    pv0, lv0 = by_path(eng, g, ptr_f), by_path(eng, g, len_f)
                    if pv0 is None or lv0 is None:
                        continue
                    pv, lv = arith.strip_casts(pv0), arith.strip_casts(lv0)
                    maps = [(n, ef) for n, ef in enumerate(q.effects) if ef['kind'] == 'call' and is_map(ef['callee'])]
                    mine = [(n, ef) for n, ef in maps if any(y[0] == 't' and y[1] == 'call' and y[2][1] == n for y in psi.walk(pv))]
                    ok_ptr = len(mine) == 1
                    ok_len = False
                    detail = 'pointer field `%s` <- %s' % (ptr_f, fmt(pv)[:60])
                    if ok_ptr:
                        mlen = mine[0][1]['args'][1]
                        # (nix wraps the length in NonZeroUsize::new(len).unwrap())
                        core_ = lambda x: arith.strip_casts(x)
                        ml = core_(mlen)
                        for _ in range(6):
                            if ml[0] == 'agg' and len(ml[3]) == 1 and 'NonZero' in ml[1]:
                                ml = core_(ml[3][0])
                            elif ml[0] == 't' and ml[1] == 'call' and ml[2][0].split('::')[-1] in ('unwrap', 'expect', 'unwrap_unchecked', 'get') and \
                                    len(ml[2]) > 2 and ml[2][2][0] == 'agg' and ml[2][2][2] == 'Some' and ml[2][2][3]:
                                ml = core_(ml[2][2][3][0])       # NonZeroUsize::new(len).unwrap()
                            else:
                                break
                        ok_len = core_(lv) == ml
                        detail += '; mmap length %s; length field `%s` <- %s' % (fmt(mlen)[:60], len_f, fmt(lv)[:60])
                    n_ob += 1
                    chk.ob('C16.V6', 'unmap:%s:length-and-pointer-are-the-mapped-ones' % d.impl_self.split('::')[-1], ok_ptr and ok_len, q.where[2],
                           detail + ('' if ok_ptr and ok_len else ' -- munmap in Drop would be given a pointer / length other than '
                                     "what mmap returned / was given (unmapping more than was mapped destroys the caller's other mappings)"))
    chk.floor('C16.V6', 'mapping owners checked against their constructors', n_ob, 2)


def run(ctx, chk):
    fb = ctx.facts()
    chk.explanation = ('V1/V2: decision list of the open path: each check (open, read, short read, magic, version, generation, '
                       'declared size >= header, mmap, declared size >= header+record) with the error kind its failure yields, and '
                       'an Ok path that passes all of them. V3: the record pointer is formed only after the header+record size test. '
                       'V4: what wipe + first publication write satisfies those checks (same magic constant, size = segment_size() >= '
                       'header+record, version constant > 0, generation even non-zero by C11). V5: segment_size() = 72 = layout = '
                       'PROTOCOL.md. NOT decided: kernel error codes for odd path kinds.')
    chk.not_decided = ['which errno the kernel returns for directories / special files']
    m = OpenModel(fb, chk, 'C16.V1')
    if not m.ok:
        return
    H, R = m.hdr_size, m.rec_size
    full = H + R
    expect_fail = {
        'open<0': ('Syscall', 'open'),
        'read<0': ('Syscall', 'read SHM segment'),
        'read<header(%d)' % H: ('SegmentNotInitialized',),
        'magic==SHM_MAGIC': ('SegmentNotInitialized',),
        'version>0': ('SegmentNotInitialized',),
        'generation>0': ('SegmentNotInitialized',),
        'segsize>=%d' % H: ('SegmentMalformed',),
        'mmap==MAP_FAILED': ('Syscall', 'mmap SHM segment'),
        'segsize>=%d' % full: ('SegmentMalformed',),
    }
    seen_fail = {}
    ok_rows = []
    for row in m.rows:
        p = row['path']
        where = p.where[2]
        if row['unknown']:
            chk.ob('C16.V1', 'open:unclassified-atom', False, where, 'open path branches on an unrecognised condition: %s' % row['unknown'][:2])
        if row.get('signed_short'):
            chk.ob('C16.V1', 'open:failed-read-is-not-a-short-read', False, where,
                   'the short-read exit (%s) is taken on the signed return value of read before its sign is tested (%s): a failed '
                   'read (-1) is reported as a short file, not as the system-call error with its errno' % (row['result'], row['signed_short'][0]))
        failing = [a for a, passed in row['atoms'] if not passed]
        if row['result'] == ('Ok',):
            ok_rows.append(row)
            chk.ob('C16.V1', 'open:ok-passes-every-check', not failing, where, 'Ok path with failing checks %s' % failing)
            have = {a for a, _ in row['atoms']}
            for need in expect_fail:
                chk.ob('C16.V1' if 'seg' in need or 'magic' in need or 'version' in need or 'generation' in need else 'C16.V2',
                       'open:ok-requires:%s' % need, need in have, where,
                       'the successful open %s the check %s' % ('performs' if need in have else 'DOES NOT perform', need))
            continue
        if len(failing) != 1:
            chk.ob('C16.V1', 'open:error-path-shape', False, where, 'error path with %d failing checks: %s -> %s' % (len(failing), failing, row['result']))
            continue
        f = failing[0]
        want = expect_fail.get(f)
        seen_fail[f] = row['result']
        rule = 'C16.V2' if f.startswith(('open', 'read', 'mmap')) else 'C16.V1' if f != 'segsize>=%d' % full else 'C16.V3'
        chk.ob(rule, 'open:fail:%s' % f, want is not None and row['result'] == want, where,
               'failing check %s -> %s (documented %s)' % (f, row['result'], want))
    for f in expect_fail:
        chk.ob('C16.V1', 'open:fail-row-present:%s' % f, f in seen_fail, m.body.where(0),
               'an error path for a failing %s %s' % (f, 'exists' if f in seen_fail else 'is MISSING'), nontrivial=False)
    chk.floor('C16.V1', 'Ok paths of open', len(ok_rows), 1)
    # ---- V2 (flags): a client running as any user must be able to open a world-readable segment: the open is a plain
    # read-only open; flags that add permission requirements or change which file is opened (O_NOATIME needs ownership
    # or CAP_FOWNER, O_NOFOLLOW/O_DIRECTORY/O_PATH/O_DIRECT/O_EXCL/O_TRUNC/O_CREAT ...) are not accepted
    O_ACCMODE, O_CLOEXEC = 0o3, 0o2000000
    from .C02 import bits_of
    seen_open = set()
    for row in m.rows:
        for ef in row['path'].effects:
            if ef['kind'] == 'call' and not ef['tracing'] and ef['callee'].split('::')[-1] in ('open', 'openat', 'open64') and \
                    not ef['callee'].startswith('std::') and len(ef['args']) >= 2 and ef['site'] not in seen_open:
                seen_open.add(ef['site'])
                fl = None
                for a in ef['args'][1:3]:
                    if fl is None:
                        fl = bits_of(a)
                extra = None if fl is None else fl & ~(O_ACCMODE | O_CLOEXEC)
                chk.ob('C16.V2', 'open:flags-plain-read-only', fl is not None and (fl & O_ACCMODE) == 0 and not extra, ef['site'][2],
                       'the client open uses flags %s%s' % (oct(fl) if fl is not None else fmt(ef['args'][1])[:40],
                                                           '' if fl is None or not extra else ' -- extra bits %s (e.g. O_NOATIME 0o1000000 makes open(2) fail with EPERM '
                                                           'for a client that does not own the file)' % oct(extra)))
    chk.ob('C16.V2', 'open:open-call-found', bool(seen_open), m.body.where(0), 'open(2) call sites on the client open path: %d' % len(seen_open), nontrivial=False)
    # one owner per descriptor / mapping on the client open path: wrapping the raw descriptor a guard already owns into a second
    # owning type (File::from_raw_fd, OwnedFd::from_raw_fd) closes it twice on every path that drops the wrapper -- the
    # guard's own close then fails (a panic in the caller) or closes an unrelated descriptor
    n_fd = 0
    for ob_, bb_, t_, fn_ in common.reachable_calls(fb, m.body):
        nm_ = mir.callee_name(fn_)
        if nm_.split('::')[-1] in ('from_raw_fd', 'from_raw_socket') and fb.body(nm_) is None:
            # fine when the descriptor is fresh (the result of open/dup in the same function: the wrapper is its first owner)
            fresh = False
            for q_ in common.mk_engine(fb, no_inline=lambda x: True).run(ob_):
                for ef_ in q_.effects:
                    if ef_['kind'] == 'call' and ef_['site'][1] == bb_ and ef_['args']:
                        fresh = any(y[0] == 't' and y[1] == 'call' and y[2][0].split('::')[-1] in ('open', 'openat', 'open64', 'dup', 'dup2', 'dup3', 'fcntl', 'into_raw_fd')
                                    for y in psi.walk(ef_['args'][0]))
            if fresh:
                continue
            n_fd += 1
            chk.ob('C16.V2', 'open:one-owner-per-descriptor:%s' % ob_.path.split('::')[-1], False, ob_.where(bb_),
                   '%s gives a descriptor it was handed (not one it just opened) a second owner on the client open path' % nm_)
    chk.ob('C16.V2', 'open:one-owner-per-descriptor', n_fd == 0, m.body.where(0),
           '%d from_raw_fd call(s) reachable from the client open routine' % n_fd, nontrivial=False)
    # no descriptor is left behind: on every path of the client open routine -- the failing ones above all -- each descriptor
    # it opened is closed, dropped inside a value whose Drop closes it, or handed out inside such a value. (A client that
    # polls for the daemon's first publication opens a not-yet-valid file again and again.)
    closers = {b.impl_self for b in fb.bodies(common.SHM) if b.name == 'drop' and (b.impl_trait or '').endswith('Drop') and b.impl_self and
               common.reaches_call(fb, b, lambda n: n.split('::')[-1] == 'close')}
    std_owners = ('std::fs::File', 'std::os::fd::OwnedFd', 'std::os::fd::owned::OwnedFd')

    def holds(v, fd_t, depth=0):
        """is the descriptor inside a value of a type that closes it when dropped?"""
        if v is None or depth > 5 or not isinstance(v, tuple) or not v:
            return False
        if v[0] == 'agg':
            own = v[1] in closers or v[1].startswith(std_owners)
            if own and any(y == fd_t for y in psi.walk(v)):
                return True
            return any(holds(f, fd_t, depth + 1) for f in v[3])
        return False
    n_open = 0
    leak_sites = {}
    for row in m.rows:
        p_ = row['path']
        if p_.kind != 'return':
            continue
        for n_, ef in enumerate(p_.effects):
            if not (ef['kind'] == 'call' and not ef['tracing'] and ef['callee'].split('::')[-1] in ('open', 'openat', 'open64') and not ef['callee'].startswith('std::')):
                continue
            fd_t = psi.T('call', ef['callee'], n_, *ef['args'])
            failed = any(a == 'open<0' and not ok for a, ok in row['atoms'])
            if failed:
                continue
            n_open += 1
            released = False
            for e2 in p_.effects[n_ + 1:]:
                if e2['kind'] == 'call' and e2['callee'].split('::')[-1] == 'close' and any(y == fd_t for a in e2['args'] for y in psi.walk(a)):
                    released = True
                if e2['kind'] == 'drop' and holds(e2.get('value'), fd_t):
                    released = True
            if not released and holds(p_.value, fd_t):
                released = True
            key = ef['site'][2]
            leak_sites.setdefault(key, [True, None])
            if not released:
                leak_sites[key] = [False, '%s -> %s' % (p_.where[2], row['result'])]
    for key, (ok_, why) in sorted(leak_sites.items()):
        chk.ob('C16.V2', 'open:descriptor-released-on-every-path', ok_, key,
               'the descriptor opened at %s is closed or owned by a closing guard on every path of the open routine' % key if ok_ else
               'the descriptor opened at %s is neither closed nor owned by anything that closes it on the path ending at %s: every failed '
               'open attempt leaks a descriptor until the client can open nothing' % (key, why))
    chk.floor('C16.V2', 'opened descriptors followed to their release', n_open, 2)
    # ---- V3 the record pointer is formed only after the size test passed
    for row in m.rows:
        if row['adds']:
            passed = [a for a, ok in row['atoms'] if a == 'segsize>=%d' % full and ok]
            # the advance that reaches the record: the largest one on the path (field pointers inside the header are smaller)
            dists = [(common.ptr_advance_bytes(fb, e_), e_) for e_ in row['adds']]
            known = [(d_, e_) for d_, e_ in dists if d_ is not None]
            off, ef_ = max(known, key=lambda x: x[0]) if known else (None, row['adds'][0])
            if off is not None and off < H and all(d_ is not None for d_, _ in dists):
                continue            # only pointers into the header are formed on this path
            chk.ob('C16.V3', 'open:record-pointer-after-size-test', bool(passed), ef_['site'][2],
                   'pointer advanced by %s bytes on a path where the header+record size test %s' % (off, 'passed' if passed else 'WAS NOT MADE'))
            chk.ob('C16.V3', 'open:record-offset-is-header-size', off == H, ef_['site'][2],
                   'record pointer offset %s (header is %d bytes)' % (off, H))
    # ---- magic constant
    magic = fb.const('::SHM_MAGIC')
    if magic and 'bytes' in magic:
        raw = bytes.fromhex(magic['bytes'])
        words = [int.from_bytes(raw[i:i + 4], 'little') for i in (0, 4)]
        # doc gives the bytes as a big-endian listing of the two words
        doc_words = [int.from_bytes(MAGIC_DOC[0:4], 'big'), int.from_bytes(MAGIC_DOC[4:8], 'big')]
        chk.ob('C16.V1', 'magic:constant-matches-doc', words == doc_words, 'clock-bound-shm/src/shm_header.rs',
               'SHM_MAGIC = %s, PROTOCOL.md = %s' % ([hex(w) for w in words], [hex(w) for w in doc_words]))
        # what the open path actually compares the magic field with: both documented words, nothing else
        seen = getattr(m, 'magic_compared', None) if m.ok else None
        if seen is not None:
            chk.ob('C16.V1', 'magic:open-compares-both-documented-words', seen == [tuple(doc_words)], 'clock-bound-shm/src/shm_header.rs',
                   'the open path compares the magic field with %s (documented: %s)' % (
                       [[hex(w) for w in ws] for ws in seen], [hex(w) for w in doc_words]))
    else:
        chk.missing('C16.V1', 'SHM_MAGIC constant')
    # ---- V8 the open entry points of the two client libraries add no outcome of their own: they succeed exactly when the shm
    # crate's open does and pass its error on (C17.Y9 re-evaluated under C16)
    if not getattr(chk, '_nested', False):
        from . import C17
        sub8 = type(chk)('C16', LEVEL, chk.tier)
        sub8._nested = True
        C17.open_close_rules(fb, sub8)
        for o in sub8.obs:
            if o['rule'] == 'C17.Y9' and o['nontrivial'] and o['key'].startswith('open:'):
                chk.ob('C16.V8', '%s:%s' % (o['rule'], o['key']), o['ok'], o['where'], o['detail'])
    # ---- V6 what is unmapped is what was mapped: every owner of a mapping in the shm crate (a type whose Drop reaches
    # munmap) hands munmap the pointer mmap returned and the very length mmap was given, on every path that builds it.
    # (A larger length unmaps foreign memory when a client closes the segment -- a crash; a smaller one leaks.)
    unmap_rules(fb, chk)
    # ---- V5 segment size: the length the daemon maps on every successful start-up path (whatever helper computes it)
    from . import C04
    from .startup_model import StartupModel
    sm = StartupModel(fb, chk, 'C16.V5')
    info = C04.wipe_sequence(fb, chk, sm) if sm.ok else None
    seg_val = None
    if sm.ok:
        lens = set()
        for sp in sm.paths:
            if not sp.ok:
                continue
            for n, ef in sp.maps:
                got = None
                for a in ef['args']:
                    o = C04.lossless_origin(a)
                    if psi.is_int_const(o) and o[1] > 0 and a[0] != 'c' and got is None:
                        got = o[1]
                lens.add(got)
        seg_val = lens.pop() if len(lens) == 1 else None
        chk.ob('C16.V5', 'segment-size:72', seg_val == 72 and seg_val >= full and seg_val % 8 == 0, sm.body.where(0),
               'the daemon maps a segment of %s bytes (header %d + record %d = %d, rounded to 8)' % (seg_val, H, R, full))
    # ---- V4 repair chain (details of wipe in C04.T6; here: agreement of the constants)
    for info in (info['all'] if info is not None else []):
        img = info['image']
        hf = {name: (off, w) for off, w, name in C04.header_fields(fb)}
        vals = [C04.image_value(img, *hf['magic0']), C04.image_value(img, *hf['magic1']), C04.image_value(img, *hf['segsize'])]
        magic_ok = magic is not None and 'bytes' in magic and vals[:2] == [int.from_bytes(bytes.fromhex(magic['bytes'])[i:i + 4], 'little') for i in (0, 4)]
        chk.ob('C16.V4', 'repair:wipe-writes-the-validated-magic', magic_ok, info['where'], 'wipe writes magic words %s' % [hex(v) if isinstance(v, int) else v for v in vals[:2]])
        chk.ob('C16.V4', 'repair:wipe-truncates-the-file', bool(info['truncates']), info['where'],
               'the re-created file is cut to the documented size via %s' % info['truncates'] if info['truncates'] else
               'wipe never truncates: a longer unusable file keeps its old length (not the documented 72 bytes)')
        chk.ob('C16.V4', 'repair:declared-size-is-segment-size', vals[2] is not None and vals[2] == info['segsize_arg'] == seg_val == info['map_len'], info['where'],
               'wipe declares size %s; mapped segment = %s; header + record rounded = %s; mapped length on this path = %s' % (vals[2], seg_val, info['segsize_arg'], info['map_len']))
        # the bytes actually written make the file as long as the layout says: a seek past the end, or a shorter fill,
        # leaves a re-created file whose header promises more than the file holds
        hdr_size = C04.layout(fb, '::ShmHeader')['size']
        chk.ob('C16.V4', 'repair:written-file-is-the-documented-length', img.total is not None and img.total == 72 == vals[2]
               and bool(img.zero_from(hdr_size)), info['where'],
               'the re-created file holds %s written bytes (header declares %s, documented total 72); bytes after the %d-byte header all zero: %s' % (
                   img.total, vals[2], hdr_size, img.zero_from(hdr_size)))
    if sm.ok:
        C04.check_new(fb, chk, rule_prefix='C16.V4', m=sm)
        # clients run as other users: whatever explicit permission bits the daemon's start-up applies to the segment file
        # must leave it readable by others (no explicit mode at all = the process umask decides, as today)
        from .C02 import bits_of as _bits
        seen_mode = set()
        for sp in sm.paths:
            for n, ef in sp.calls:
                last = ef['callee'].split('::')[-1]
                if ef['site'] in seen_mode:
                    continue
                if last in ('mode', 'set_mode', 'from_mode', 'fchmod', 'chmod', 'umask', 'fchmodat') and 'nix::sys::stat::Mode' not in ef['callee']:
                    seen_mode.add(ef['site'])
                    m_ = None
                    for a in ef['args'][::-1]:
                        if m_ is None:
                            m_ = _bits(a)
                    okm = m_ is not None and ((m_ & 0o004) != 0 if last != 'umask' else (m_ & 0o004) == 0)
                    chk.ob('C16.V4', 'repair:file-mode-keeps-others-readable', okm, ef['site'][2],
                           '%s(%s) on the start-up path of the daemon%s' % (ef['callee'], oct(m_) if m_ is not None else '?',
                                                                           '' if okm else ' -- clients running as other users can no longer open the segment'))
