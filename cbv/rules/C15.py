"""C15 Any worker death ends the daemon: wiring rules over the thread manager, the
per-thread Context and both worker loops.  Necessary conditions; latency is not decided."""
from .. import psi, mir, arith
from ..psi import fmt, T
from . import common
from .poller_model import PollerModel, is_chrony_query
from .updater_model import UpdaterModel, is_shm_write

LEVEL = 'other'
MAX_WAIT_NS = 5_000_000_000

BLOCKING_DENY = ('std::thread::sleep', 'std::thread::park', 'Mutex', 'Condvar', 'RwLock', 'Barrier', '::join', 'std::io::stdin',
                 'std::process::', 'wait', 'std::net::', 'accept', 'std::sync::mpsc::Receiver::<T>::iter',
                 'std::sync::mpsc::Receiver::<T>::recv_deadline')


def variant_of(eng, st, v):
    """variant name of an enum value, looking through a reference to a promoted constant"""
    if v[0] == 'ref':
        v = eng.load(st, v[1])
    if v[0] == 'agg':
        return v[2]
    return None


def run(ctx, chk):
    fb = ctx.facts()
    chk.explanation = ('N1: Drop for Context notifies MainThread with ThreadPanic/ThreadTerminate on every path. N2: each spawned '
                       'closure owns a Context by value, paired with the mailbox of the same id and handed by value to its worker, '
                       'whose Context is dropped on every normal and unwinding exit; no forget/leak of a Context. N3: the manager '
                       'loop broadcasts and leaves on ThreadTerminate, ThreadPanic and a recv error, then joins every handle. N4: the '
                       'broadcast sends ThreadAbort to every id != MainThread and consumes the lazy iterator. N5: after ThreadAbort '
                       'each worker loop reaches return without another blocking call. N6: blocking calls in worker loops are the '
                       'own mailbox (bounded timeout <= 5 s for the poller), the chrony query and the sysfs read only. N7: main '
                       'returns right after thread_manager::run. NOT decided: actual latencies.')
    chk.not_decided = ['wall-clock exit latency', 'blocking inside chrony_candm::blocking_query_uds (bounded by its own timeout)']
    from . import poller_model as _pm
    _pm.init_names(fb)
    tmb = common.thread_manager(fb)
    ctx_ty = common.context_type(fb)
    bcb = common.abort_broadcast(fb)
    _CTX[0] = ctx_ty
    _FB[0] = fb
    if tmb is None or ctx_ty is None:
        chk.missing('C15.N3', 'thread manager (daemon function spawning the workers) / per-thread context type with a notifying Drop')
        return
    chk.saw(tmb)
    ids = common_variant_names(fb, '::ChannelId')
    msgs = common_variant_names(fb, '::Message')

    # ------------------------------------------------------------ N1 Drop for Context
    drop_targets = []
    drops = [b for b in fb.bodies(common.DAEMON) if b.name == 'drop' and b.impl_self == ctx_ty]
    # N10: the notification, the broadcast and the joins happen whatever the log level: nothing the manager, the broadcast or
    # Context::drop evaluates as an argument of a log macro does part of the work or can panic
    common.log_hazard_obligations(fb, chk, 'C15.N10', [tmb, bcb] + drops[:1], 'the thread manager, the abort broadcast and Context::drop')
    if not drops:
        chk.missing('C15.N1', 'impl Drop for Context')
    else:
        d = drops[0]
        chk.saw(d)
        eng = common.mk_engine(fb)
        n = 0
        for p in eng.run(d):
            if p.kind == 'unreachable':
                continue
            chk.analysed['paths'] += 1
            n += 1
            pan = None
            for term, op, val, _ in p.conds:
                if term[0] == 't' and term[1] == 'call' and term[2][0].endswith('panicking'):
                    pan = (op == '!=' and set(val) == {0}) or (op == '==' and val == 1)
            lookups = [ef for ef in p.effects if ef['kind'] == 'call' and ef['callee'].endswith('HashMap::<K, V, S, A>::get')]
            sends = [ef for ef in p.effects if ef['kind'] == 'call' and ef['callee'].endswith('Sender::<T>::send')]
            tgt = variant_of(eng, p.state, lookups[0]['args'][1]) if lookups else None
            drop_targets.append((p.kind, tgt, p.where[2]))
            found = any(t[0] == 't' and t[1] == 'discr' and 'get#' in fmt(t) and ((op == '==' and v == 1)) for t, op, v, _ in p.conds)
            if found:
                m = sends[0]['args'][1] if sends else None
                kind = m[2] if m is not None and m[0] == 'agg' else None
                want = 'ThreadPanic' if pan else 'ThreadTerminate'
                chk.ob('C15.N1', 'drop:notifies:%s' % want, kind == want, p.where[2],
                       'panicking=%s: sends %s (must send %s)' % (pan, kind, want))
        chk.floor('C15.N1', 'paths of Drop for Context', n, 2)

    # ------------------------------------------------------------ N2/N3 manager
    web_field_types = []
    for c_ in fb.crates:
        a_ = c_.adts.get(ctx_ty)
        if a_ and a_.get('variants'):
            for f_ in a_['variants'][0]['fields']:
                ts_ = c_.types[f_['ty']]['s'] if 'ty' in f_ else ''
                if ts_.startswith(common.DAEMON + '::') and 'ChannelId' not in ts_.split('<')[0]:
                    web_field_types.append(ts_.split('<')[0])      # (the dispatch box; the mailbox side is the map it came with)

    def keep_opaque(x):
        by_value_ctx = any(x.crate.tystr(x.locals[i]['ty']) == ctx_ty for i in range(1, x.argc + 1))
        # helpers with their own loops (the web constructor) and the broadcast are analysed on their own
        own_loop = bool(x.back_edges()) and not common.reaches_call(fb, x, lambda nm: nm.split('::')[-1] in ('recv', 'recv_timeout', 'try_recv'))
        # the constructor of the channel web (it returns the mailboxes *and* the dispatch box, i.e. both field types of a
        # Context) is one provenance step, however it builds its maps (a loop, `for_each`, `fold`)
        rt = x.tystr(x.locals[0]['ty'])
        web_ctor = bool(web_field_types) and all(ft in rt for ft in web_field_types) and x.defkind != 'Closure' and not x.impl_trait \
            and ctx_ty.split('<')[0] not in rt
        return by_value_ctx or (bcb is not None and x.path == bcb.path) or own_loop or web_ctor or x.crate.name != common.DAEMON
    eng = common.mk_engine(fb, no_inline=keep_opaque)
    paths = [p for p in eng.run(tmb) if p.kind != 'unreachable']
    chk.analysed['paths'] += len(paths)
    spawn_seen = {}
    web_ids = set()
    main_ids = set()
    for p in paths:
        for ef in p.effects:
            if ef['kind'] == 'call' and not ef['tracing'] and ef['callee'].split('::')[-1] in ('recv', 'recv_timeout', 'try_recv'):
                rv = ef['pointees'][0] if ef.get('pointees') and ef['pointees'][0] is not None else ef['args'][0]
                mid = mailbox_id_of(eng, p, rv, ids.values()) or mailbox_id_of(eng, p, ef['args'][0], ids.values())
                if mid:
                    main_ids.add(mid)
    MAIN = sorted(main_ids)[0] if len(main_ids) == 1 else None
    chk.ob('C15.N3', 'manager:receives-on-one-mailbox', MAIN is not None, tmb.where(0),
           'the manager receives the death notices on the mailbox of %s' % (sorted(main_ids) or 'NO identifiable id'))
    _MAIN[0] = MAIN
    for kind_, tgt_, where_ in drop_targets:
        chk.ob('C15.N1', 'drop:addresses-main-thread', kind_ == 'return' and tgt_ is not None and tgt_ == MAIN, where_,
               'Drop for Context looks up the channel of %s; the manager listens on %s' % (tgt_, MAIN))
    for p in paths:
        calls = [(n, ef) for n, ef in enumerate(p.effects) if ef['kind'] == 'call' and not ef['tracing']]
        for k, v in p.state.store.items():
            if v[0] == 'agg' and v[3] and all(f[0] == 'agg' and f[1].endswith('ChannelId') for f in v[3]):
                web_ids |= {f[2] for f in v[3]}
        for n, ef in calls:
            if common.is_thread_spawn(ef['callee']):
                c = ef['args'][-1]          # (Builder::spawn takes the builder first)
                if c[0] != 'agg' or not c[1].startswith('closure:'):
                    continue
                ctxs = [f for f in c[3] if f[0] == 'agg' and f[1] == ctx_ty]
                skey = (c[1], fmt(ctxs[0][3][0]) if ctxs and ctxs[0][3] else '')
                if skey in spawn_seen:
                    continue
                spawn_seen[skey] = (c, ctxs, ef, p)
    # nothing on the manager's paths (helpers inlined) removes a sender from a dispatch box
    narrowed = []
    for p in paths:
        for ef in p.effects:
            if ef['kind'] != 'call' or ef['tracing'] or not ef.get('fn'):
                continue
            last = ef['callee'].split('::')[-1]
            if 'HashMap' in ef['callee'] and last in ('remove', 'retain', 'clear', 'drain', 'remove_entry', 'extract_if', 'take'):
                ob_ = fb.body(ef['site'][0])
                tys = [ob_.crate.types[t_]['s'] for t_ in (ef['fn'].get('targs') or [])] if ob_ is not None else []
                if any('mpsc::Sender' in s_ for s_ in tys) and ef['site'] not in [x['site'] for x in narrowed]:
                    narrowed.append(ef)
    for ef in narrowed:
        chk.ob('C15.N2', 'web:sender-removed:%s' % ef['callee'].split('::')[-1], False, ef['site'][2],
               '%s removes senders from a dispatch box before the threads are spawned: a thread that lost the MainThread sender '
               'cannot report its death' % ef['callee'])
    chk.ob('C15.N2', 'web:all-ids-registered', set(ids.values()) <= web_ids and len(web_ids) >= 3, tmb.where(0),
           'channel web is created for ids %s' % sorted(web_ids))
    workers = {}
    for (cname, _ck), (c, ctxs, ef, p) in spawn_seen.items():
        where = ef['site'][2]
        if not ctxs:
            continue        # not a worker: a thread without a Context is judged by N9 (it must not be waited for)
        chk.ob('C15.N2', 'spawn:owns-context:%s' % cname.split('::')[-1], len(ctxs) == 1, where,
               'spawned closure captures %d Context value(s) by value' % len(ctxs))
        if len(ctxs) != 1:
            continue
        cx = ctxs[0]
        adt = eng.find_adt(cx[1]) or {}
        names = [f['name'] for f in adt.get('variants', [{}])[0].get('fields', [])]
        f = dict(zip(names, cx[3]))
        cid = f.get('channel_id', ('x',))
        cid = cid[2] if cid[0] == 'agg' else None
        mbox = f.get('mbox')
        mb_id = mailbox_id_of(eng, p, mbox, ids.values())
        chk.ob('C15.N2', 'spawn:mailbox-matches-id:%s' % cid, cid is not None and mb_id == cid, where,
               'Context{channel_id: %s} holds the mailbox of %s' % (cid, mb_id))
        # the dispatch box a thread is given is the web's own box or a plain clone of it: the thread's death notice
        # (Drop for Context) needs the MainThread sender, the poller needs the writer's
        dbox = [v_ for k_, v_ in f.items() if v_ is not mbox and v_[0] in ('agg', 't') and 'DispatchBox' in (v_[1] if v_[0] == 'agg' else fmt(v_))]
        okd, whyd = False, 'no DispatchBox field in the Context'
        if dbox:
            okd, whyd = dispatch_box_is_plain_clone(eng, p, dbox[0], mbox)
        chk.ob('C15.N2', 'spawn:dispatch-box-is-the-full-web:%s' % cid, okd, where, whyd)
        # the closure hands the Context by value to its worker
        cb = fb.body(cname[len('closure:'):])
        wk = None
        if cb is not None:
            chk.saw(cb)
            for q in common.mk_engine(fb, no_inline=lambda x: True).run(cb, args=[c]):
                for e2 in q.effects:
                    if e2['kind'] == 'call' and not e2['tracing'] and any(a == cx for a in e2['args']):
                        wk = e2['callee']
                        wk_args = list(e2['args'])
        wb = fb.body(wk) if wk else None
        by_value = wb is not None and any(wb.crate.tystr(wb.locals[i]['ty']) == ctx_ty for i in range(1, wb.argc + 1))
        chk.ob('C15.N2', 'spawn:context-moved-to-worker:%s' % cid, by_value, where,
               'closure passes its Context by value to %s' % wk)
        if wb is not None:
            workers[cid] = wb
            WORKER_ENTRY[cid] = (wb, wk_args)
    chk.floor('C15.N2', 'spawned workers', len(workers), 2)
    # what each worker is: follow the Context to the loop that finally owns it
    loops = {}
    kinds_seen = {}
    for cid, wb in workers.items():
        holder = final_holder(fb, wb)
        loops[cid] = holder
        chk.saw(holder)
        kind = 'poller' if common.reaches_call(fb, holder, is_chrony_query) else \
            'writer' if reaches_write(fb, holder) else 'unknown'
        kinds_seen.setdefault(kind, []).append(cid)
        if kind == 'writer':
            WRITER_ID[0] = cid
        chk.ob('C15.N2', 'spawn:id-matches-worker:%s' % cid, kind in ('poller', 'writer') and cid != MAIN and len(kinds_seen[kind]) == 1, holder.where(0),
               'thread %s runs %s (a %s loop)' % (cid, holder.path.split('::')[-1], kind))
        ok, why = context_dropped_on_all_exits(holder)
        chk.ob('C15.N2', 'worker:context-dropped-on-every-exit:%s' % cid, ok, holder.where(0), why)
    # no forget / leak of a Context anywhere in the daemon
    for b in fb.bodies(common.DAEMON):
        for bb, t, fn in common.user_calls(b):
            nm = mir.callee_name(fn) if fn else ''
            if nm.endswith(('mem::forget', 'ManuallyDrop::<T>::new', 'Box::<T, A>::leak', 'Box::<T>::leak', 'Rc::<T>::new', 'Arc::<T>::new',
                            'Box::<T>::into_raw', 'mem::transmute')):
                targs = [b.crate.types[t_]['s'] for t_ in (fn.get('targs') or [])]
                if any(ctx_ty in s for s in targs):
                    chk.ob('C15.N2', 'context:not-forgotten:%s' % b.path.split('::')[-1], False, b.where(bb),
                           '%s applied to a Context: its Drop notification would never run' % nm)
    # ---- N3 manager loop table
    rows = {}
    late_waits = {}
    pushes = spawns = 0
    for p in paths:
        calls = [ef for ef in p.effects if ef['kind'] == 'call' and not ef['tracing']]
        names = [ef['callee'].split('::')[-1] for ef in calls]
        if 'recv' not in names:
            continue
        pushes = max(pushes, names.count('push'))
        spawns = max(spawns, names.count('spawn'))
        ri = names.index('recv')
        rterm = T('call', calls[ri]['callee'], p.effects.index(calls[ri]), *calls[ri]['args'])
        okp = T('field', T('as', rterm, 'Ok'), '0')
        cls = None
        for term, op, val, _ in p.conds:
            if term == T('discr', rterm) and op == '==' and val == 1:
                cls = 'recv-error'
            if term == T('discr', okp):
                cls = msgs.get(val, str(val)) if op == '==' else 'other'
        after = names[ri + 1:]
        left = p.kind == 'return' or 'into_iter' in after or 'join' in after
        after_full = [ef['callee'] for ef in calls[ri + 1:]]
        did_bc = (bcb is not None and bcb.path in after_full) or (bcb is None and any(
            ef['callee'].endswith(('Sender::<T>::send', 'DispatchBox::<K, M>::send')) and ef['args'][-1][0] == 'agg' and ef['args'][-1][2] == 'ThreadAbort'
            for ef in calls[ri + 1:]))
        rows.setdefault(cls, set()).add(('broadcast' if did_bc else 'no-broadcast', 'leave' if left else 'stay',
                                         'join' if 'join' in after or p.kind == 'return' else 'no-join'))
        # once the manager has told everybody to stop, the only thing it waits for is the threads themselves: another wait on
        # a mailbox (a `recv`, or the blocking iterator of a Receiver whose sender the manager itself still holds) never ends
        if did_bc:
            bi = max([k for k, ef in enumerate(calls) if k > ri and ((bcb is not None and ef['callee'] == bcb.path) or
                      (ef['args'] and ef['args'][-1][0] == 'agg' and ef['args'][-1][2] == 'ThreadAbort'))] or [ri])
            for ef in calls[bi + 1:]:
                nm_ = ef['callee']
                waits = (nm_.endswith(('Receiver::<T>::recv', 'Receiver::<T>::recv_timeout', 'Receiver::<T>::recv_deadline')) or
                         ('mpsc::' in nm_ and nm_.endswith('::next') and ('Iter<' in nm_ or 'IntoIter<' in nm_) and 'TryIter<' not in nm_) or
                         nm_.endswith(('thread::park', 'Condvar::wait', 'Barrier::wait')))
                if waits:
                    late_waits.setdefault(ef['site'][2], nm_)
    chk.ob('C15.N3', 'manager:after-the-broadcast-only-joins-block', not late_waits, tmb.where(0),
           'after broadcasting ThreadAbort the manager %s' % ('waits for nothing but the joins' if not late_waits else
           'waits again on a mailbox: %s -- with every worker gone and its own sender alive this never returns' % sorted(late_waits.items())[:2]))
    for cls in ('ThreadTerminate', 'ThreadPanic', 'recv-error'):
        got = rows.get(cls)
        chk.ob('C15.N3', 'manager:%s' % cls, got is not None and all(r[0] == 'broadcast' and r[1] == 'leave' for r in got), tmb.where(0),
               'on %s the manager does %s (must broadcast ThreadAbort and leave the loop)' % (cls, sorted(got) if got else 'nothing: no such row'))
    n_joined, n_handles = joined_handles(fb, tmb)
    if n_handles == 0:
        # the manager proper may be a private function the public entry point hands its parameters to
        for _, _, fn_ in common.user_calls(tmb):
            nb_ = fb.body(mir.callee_name(fn_)) if fn_ else None
            if nb_ is not None and nb_.defkind != 'Closure' and nb_.crate.name == common.DAEMON and common.reaches_call(fb, nb_, common.is_thread_spawn):
                j_, h_ = joined_handles(fb, nb_)
                if h_ > n_handles:
                    n_joined, n_handles = j_, h_
    chk.ob('C15.N3', 'manager:joins-all-handles', n_joined == n_handles and n_handles >= 2 and joins_in_a_loop(fb, tmb), tmb.where(0),
           '%d thread handle(s) obtained, %d flow into a join; joined in a loop after the manager loop: %s' % (n_handles, n_joined, joins_in_a_loop(fb, tmb)))
    chk.tables['manager'] = {str(k): sorted(v) for k, v in rows.items()}
    # N9: every thread the manager waits for is a worker -- it owns a Context, so it is told to stop (N4), leaves its loop
    # when told (N5) and blocks only on bounded calls (N6). A joined thread of any other kind (a signal waiter, a timer)
    # that ends on its own schedule keeps run() from returning after a worker died.
    for where_, desc_, owns_ in joined_thread_closures(fb, tmb, ctx_ty):
        chk.ob('C15.N9', 'joined-thread-is-a-worker:%s' % desc_, owns_, where_,
               'the manager joins the thread started at %s, whose closure %s' % (where_, 'owns a Context' if owns_ else
               'does NOT own a Context: nothing tells it to stop when a worker dies, and the manager waits for it before returning'))

    # ------------------------------------------------------------ N4 broadcast
    bc = [bcb] if bcb is not None else []
    if not bc:
        chk.missing('C15.N4', 'abort broadcast (a daemon function called by the manager that sends ThreadAbort to the other threads)')
    else:
        b = bc[0]
        chk.saw(b)
        eng2 = common.mk_engine(fb, no_inline=lambda x: True)
        ps = [p for p in eng2.run(b) if p.kind == 'return']
        consumed = False
        flt = mp = None
        for p in ps:
            names = [ef['callee'].split('::')[-1] for ef in p.effects if ef['kind'] == 'call' and not ef['tracing']]
            def sends(cl):
                """does this closure / function value (transitively) send a message?"""
                cb_ = None
                if cl[0] == 'agg' and isinstance(cl[1], str) and cl[1].startswith('closure:'):
                    cb_ = fb.body(cl[1][len('closure:'):])
                elif cl[0] == 'fn':
                    cb_ = fb.body(mir.callee_name(cl[1]))
                return cb_ is not None and common.reaches_call(fb, cb_, lambda n_: n_.endswith(('Sender::<T>::send', 'DispatchBox::<K, M>::send')))
            for ei, ef in enumerate(p.effects):
                if ef['kind'] != 'call':
                    continue
                nm = ef['callee'].split('::')[-1]
                # the chain that matters is the one whose `map` / `for_each` closure does the sending; its filter is the
                # `filter` call that chain is built on (other iterator chains in the function -- counting results for a
                # log line -- are not the broadcast)
                if nm == 'map' and len(ef['args']) > 1 and sends(ef['args'][1]):
                    mp = ef['args'][1]
                    for ej, ef2 in enumerate(p.effects[:ei]):
                        if ef2['kind'] == 'call' and ef2['callee'].split('::')[-1] == 'filter' and ('filter#%d(' % ej) in fmt(ef['args'][0]):
                            flt = ef2['args'][1]
                elif nm == 'filter' and flt is None and mp is None:
                    flt = ef['args'][1]
                elif nm == 'map' and mp is None:
                    mp = ef['args'][1]
                on_chain = any(x in fmt(ef['args'][0]) for x in ('map#', 'filter#', 'keys#')) if ef['args'] else False
                if nm == 'for_each' and on_chain and 'map#' not in fmt(ef['args'][0]) and len(ef['args']) > 1:
                    mp = ef['args'][1]          # the sends are made by the closure of a terminal for_each
                    consumed = True
                if nm in ('collect', 'for_each', 'count', 'last', 'fold', 'for_each_mut') and 'map#' in fmt(ef['args'][0]):
                    consumed = True
                    if nm == 'collect':
                        targs = [b.crate.types[t_]['s'] for t_ in ((ef['fn'] or {}).get('targs') or [])]
                        sc = [s_ for s_ in targs[1:] if s_.startswith(('std::result::Result', 'std::option::Option'))]
                        chk.ob('C15.N4', 'broadcast:consumer-does-not-short-circuit', not sc, ef['site'][2],
                               'the chain is collected into %s%s' % (targs[1:] or '?', ' -- collecting into Result/Option stops at the first '
                               'failed send (e.g. the dead worker\'s closed mailbox), so later workers never get ThreadAbort' if sc else ''))
                if nm in ('try_for_each', 'all', 'any', 'find', 'find_map', 'position', 'try_fold', 'take_while', 'map_while') and 'map#' in fmt(ef['args'][0]):
                    chk.ob('C15.N4', 'broadcast:consumer-does-not-short-circuit', False, ef['site'][2],
                           'the chain is driven by %s, which stops early' % nm)
            if 'keys' not in names and 'iter' not in names:
                chk.ob('C15.N4', 'broadcast:iterates-all-channels', False, p.where[2], 'broadcast does not iterate the dispatch box: %s' % names)
        if flt is None and mp is None and b.back_edges():
            explicit_loop_broadcast(fb, chk, b, ids)
            flt = mp = 'explicit-loop'
            consumed = True
        chk.ob('C15.N4', 'broadcast:iterator-consumed', consumed, b.where(0),
               'the lazy filter/map chain %s' % ('is consumed' if consumed else 'is never consumed: no ThreadAbort is sent'))
        # filter closure: true iff id != MainThread
        if flt == 'explicit-loop':
            pass
        elif flt is not None and ((flt[0] == 'agg' and flt[1].startswith('closure:')) or
                                  (flt[0] == 'fn' and fb.body(mir.callee_name(flt[1])) is not None)):
            is_fn = flt[0] == 'fn'
            fbod = fb.body(mir.callee_name(flt[1])) if is_fn else fb.body(flt[1][len('closure:'):])
            keep = {}
            if fbod is not None:
                chk.saw(fbod)
                for vi, vn in ids.items():
                    arg = ('ref', (('H', 900 + vi), ()))
                    e3 = common.mk_engine(fb)
                    for q in e3.run(fbod, args=([] if is_fn else [flt]) + [('ref', (('H', 800 + vi), ()))],
                                    store={(('H', 800 + vi), ()): arg, (('H', 900 + vi), ()): ('agg', _ENUM_KEY.get('::ChannelId', 'clock_bound_d::ChannelId'), vn, ())}):
                        if q.kind == 'return':
                            keep[vn] = q.value
            res = {}
            for vn, v in keep.items():
                if psi.is_int_const(v):
                    res[vn] = bool(v[1])
                elif v[0] == 't' and v[1] in ('ne', 'eq') and all(x[0] == 'agg' for x in v[2]):
                    r_ = v[2][0][2] != v[2][1][2]
                    res[vn] = r_ if v[1] == 'ne' else not r_
            want = {vn: vn != _MAIN[0] for vn in ids.values()}
            chk.ob('C15.N4', 'broadcast:filter-excludes-only-main', res == want, fbod.where(0) if fbod else b.where(0),
                   'filter keeps %s (must keep every id except MainThread)' % res)
        else:
            chk.ob('C15.N4', 'broadcast:filter-excludes-only-main', flt is None, b.where(0),
                   'no filter closure: %s' % ('every id is addressed' if flt is None else fmt(flt)[:60]), nontrivial=False)
        if mp == 'explicit-loop':
            pass
        elif mp is not None and mp[0] == 'agg' and mp[1].startswith('closure:'):
            mbod = fb.body(mp[1][len('closure:'):])
            ok = False
            if mbod is not None:
                chk.saw(mbod)
                for q in common.mk_engine(fb).run(mbod):
                    for ef in q.effects:
                        if ef['kind'] == 'call' and ef['callee'].endswith('Sender::<T>::send'):
                            m_ = ef['args'][1]
                            ok = m_[0] == 'agg' and m_[2] == 'ThreadAbort'
            chk.ob('C15.N4', 'broadcast:sends-thread-abort', ok, mbod.where(0) if mbod else b.where(0), 'map closure sends ThreadAbort to each kept id: %s' % ok)
        else:
            chk.missing('C15.N4', 'map closure of broadcast_abort')

    # ------------------------------------------------------------ N5/N6 worker loops
    for cid, holder in loops.items():
        abort_and_blocking(fb, chk, cid, holder, msgs)
    # N6 also outside the loops: nothing a worker thread runs from its entry point to its loop (start-up, hand-over) may
    # block on another thread -- a worker parked there never reads its mailbox, so ThreadAbort cannot reach it
    for cid, wb in workers.items():
        seen_sites = set()
        for ob_, bb, t, fn in common.reachable_calls(fb, wb):
            nm = mir.callee_name(fn)
            if fb.body(nm) is not None or (ob_.path, bb) in seen_sites or common.callee_bodies(fb, fn):
                continue        # workspace code (a private trait method is judged by what its implementations call)
            seen_sites.add((ob_.path, bb))
            if nm.endswith(('Receiver::<T>::recv', 'Receiver::<T>::recv_timeout', 'Receiver::<T>::try_recv')):
                continue        # the mailbox reads are judged per loop above
            if any(x in nm for x in BLOCKING_DENY):
                chk.ob('C15.N6', 'blocking:%s:%s' % (cid, nm.split('::')[-1]), False, ob_.where(bb),
                       '%s (reached from the %s thread\'s entry point) can park the thread indefinitely; a parked worker never '
                       'sees ThreadAbort and the manager blocks in join()' % (nm, cid))
        chk.analysed['call_sites'] += len(seen_sites)

    # ------------------------------------------------------------ N7 main
    mains = [b for b in fb.bodies() if b.name == 'main' and b.crate.kind == 'bin' and b.crate.name == 'clockbound']
    if not mains:
        chk.missing('C15.N7', 'main')
    else:
        mb = mains[0]
        chk.saw(mb)
        e4 = common.mk_engine(fb, no_inline=lambda x: x.crate.kind != 'bin')
        n = 0
        for p in e4.run(mb):
            calls = [ef for ef in p.effects if ef['kind'] == 'call' and not ef['tracing']]
            idx = [i for i, ef in enumerate(calls) if ef['callee'] == tmb.path]
            if not idx:
                continue
            n += 1
            after = [ef['callee'] for ef in calls[idx[-1] + 1:]]
            chk.ob('C15.N7', 'main:returns-after-manager', p.kind == 'return' and not after, p.where[2],
                   'after thread_manager::run returns, main %s; later calls: %s' % (p.kind, after))
        chk.floor('C15.N7', 'main paths through the manager', n, 1)


def explicit_loop_broadcast(fb, chk, b, ids):
    """broadcast written as a `for` loop over the dispatch box: every iteration either skips MainThread or
    sends ThreadAbort to the iterated id, and only iterator exhaustion leaves the loop"""
    main_discr = [k for k, v in ids.items() if v == _MAIN[0]]
    main_discr = main_discr[0] if main_discr else None
    eng = common.mk_engine(fb)
    n_iter = 0
    for p in eng.run(b):
        if p.kind == 'unreachable':
            continue
        calls = [ef for ef in p.effects if ef['kind'] == 'call' and not ef['tracing']]
        nexts = [ef for ef in calls if ef['callee'].endswith('::next')]
        if not nexts:
            continue
        got_item = any(t[0] == 't' and t[1] == 'discr' and 'next#' in fmt(t) and fmt(t).count('(') <= 3 and op == '==' and v == 1
                       for t, op, v, _ in p.conds)
        if not got_item:
            chk.ob('C15.N4', 'broadcast:loop-ends-only-on-exhaustion', p.kind == 'return', p.where[2],
                   'iterator exhausted -> %s' % p.kind)
            continue
        n_iter += 1
        chk.ob('C15.N4', 'broadcast:loop-continues-after-each-id', p.kind == 'backedge', p.where[2],
               'an iteration with an id in hand ends as %s (must go on to the next id: a `break`/`return`/`?` here skips later workers)' % p.kind)
        is_main = None
        for t, op, v, _ in p.conds:
            n = common.cmp_const_right(t)
            if n and n[0] in ('eq', 'ne') and n[1][0] == 't' and n[1][1] == 'discr' and 'next#' in fmt(n[1]) and n[2] == main_discr:
                truth = (op == '!=' and set(v) == {0}) or (op == '==' and v == 1)
                is_main = truth if n[0] == 'eq' else not truth
            # `if let ChannelId::MainThread = id` / `match id { .. }`: a switch on the discriminant of the iterated id
            if is_main is None and t[0] == 't' and t[1] == 'discr' and 'next#' in fmt(t) and main_discr is not None and \
                    not (t[2][0][0] == 't' and t[2][0][1] == 'call') and 'Some).0' in fmt(t):
                if op == '==':
                    is_main = (v == main_discr)
                elif main_discr in v:
                    is_main = False
            n2 = common.cmp_norm(t)
            if n2 and n2[0] in ('eq', 'ne') and is_main is None:
                sides = [x for x in (n2[1], n2[2]) if x[0] == 'agg' and x[1].endswith('ChannelId')]
                other = [x for x in (n2[1], n2[2]) if not (x[0] == 'agg' and x[1].endswith('ChannelId'))]
                if len(sides) == 1 and sides[0][2] == _MAIN[0] and other and 'next#' in fmt(other[0]):
                    truth = (op == '!=' and set(v) == {0}) or (op == '==' and v == 1)
                    is_main = truth if n2[0] == 'eq' else not truth
        sends = [ef for ef in calls if ef['callee'].endswith('Sender::<T>::send')]
        lookup_failed = any(t[0] == 't' and t[1] == 'discr' and 'get#' in fmt(t) and ((op == '==' and v == 0) or (op == '!=' and 1 in v))
                            for t, op, v, _ in p.conds)
        if is_main is True:
            chk.ob('C15.N4', 'broadcast:filter-excludes-only-main', not sends, p.where[2], 'MainThread is skipped (sends: %d)' % len(sends))
        elif is_main is False:
            ok = lookup_failed or (len(sends) == 1 and sends[0]['args'][1][0] == 'agg' and sends[0]['args'][1][2] == 'ThreadAbort')
            chk.ob('C15.N4', 'broadcast:sends-thread-abort', ok, p.where[2],
                   'a non-main id gets %s' % ([fmt(s_['args'][1])[:30] for s_ in sends] or 'nothing'))
        else:
            chk.ob('C15.N4', 'broadcast:filter-excludes-only-main', False, p.where[2],
                   'an iteration does not decide on `id == MainThread`: %s' % [psi.fmt_cond(c)[:80] for c in p.conds][:3])
    chk.floor('C15.N4', 'broadcast loop iterations analysed', n_iter, 2)


def mailbox_id_of(eng, p, term, id_names):
    """the ChannelId a mailbox value was looked up with (get_mailbox, or the HashMap::remove it wraps, possibly via a helper)"""
    got = None
    for x in psi.walk(term) if term else []:
        if x[0] == 't' and x[1] == 'call' and isinstance(x[2][1], int) and x[2][1] < len(p.effects):
            ef0 = p.effects[x[2][1]]
            for a, pv in zip(ef0.get('args', []), ef0.get('pointees', [])):
                if pv is None and a[0] == 'ref':
                    pv = eng.load(p.state, a[1])
                if pv is not None and pv[0] == 'agg' and pv[1].endswith('ChannelId') and pv[2] in id_names:
                    got = pv[2]
    return got


def dispatch_box_is_plain_clone(eng, p, dbox, mbox):
    """the DispatchBox value is built from the channel web by Clone::clone only: the only calls in its provenance are
    clones and the call that created the web (the same call the mailbox map came from)"""
    def provenance_calls(v, stop=(), depth=0):
        out = []
        if v[0] == 't' and v[1] == 'call' and v[2][0] in stop:
            return [v]
        for x in ([v] if v[0] == 't' and v[1] == 'call' else []) + [y for y in psi.walk(v) if y is not v]:
            if x[0] == 't' and x[1] == 'call' and isinstance(x[2][1], int):
                out.append(x)
                if x[2][0] in stop:
                    continue
                if x[2][1] < len(p.effects) and depth < 4:
                    for pv in p.effects[x[2][1]].get('pointees') or []:
                        if pv is not None:
                            out += provenance_calls(pv, stop, depth + 1)
        return out
    mcalls = provenance_calls(mbox) if mbox is not None else []
    web = {c[2][0] for c in mcalls if 'clock_bound_d' in c[2][0]}
    dcalls = [c for c in provenance_calls(dbox, stop=web)]
    # arguments of the web constructor itself (the id list) are not part of the box's provenance
    def inside_web(c):
        return any(c is not w and any(y == c for y in psi.walk(w)) for w in dcalls if w[2][0] in web)
    dcalls = [c for c in dcalls if not inside_web(c)]
    other = sorted({c[2][0] for c in dcalls if not c[2][0].endswith('Clone>::clone') and c[2][0] not in web})
    from_web = any(c[2][0] in web for c in dcalls)
    if other:
        return False, 'the dispatch box handed to the thread is produced by %s, not by cloning the channel web' % other
    if not from_web:
        return False, 'the dispatch box handed to the thread does not come from the call that created its mailbox (%s)' % sorted(web)
    return True, 'dispatch box = clone of the web created by %s' % sorted(web)


_ENUM_KEY = {}


def common_variant_names(fb, suffix):
    for c in fb.crates:
        for k, a in c.adts.items():
            if k.startswith('clock_bound_d::') and k.endswith(suffix) and a['kind'] == 'enum':
                _ENUM_KEY[suffix] = k
                return {v.get('discr', v['index']): v['name'] for v in a['variants']}
    return {}


_CARRIER = {}


def carries_context(fb, crate, tystr, depth=0):
    """is this type the Context, or a workspace struct (a per-thread state struct, a builder) that owns one by value?"""
    ctx_ty = common.context_type(fb)
    base = tystr.split('<')[0]
    if tystr == ctx_ty:
        return True
    key = (id(fb), base)
    if key in _CARRIER:
        return _CARRIER[key]
    _CARRIER[key] = False
    res = False
    if depth < 3 and base.startswith(common.DAEMON + '::'):
        for c_ in fb.crates:
            for k_, a_ in c_.adts.items():
                if k_.split('<')[0] != base or a_.get('kind') != 'struct' or not a_.get('variants'):
                    continue
                for f_ in a_['variants'][0]['fields']:
                    if 'ty' in f_ and carries_context(fb, c_, c_.types[f_['ty']]['s'], depth + 1):
                        res = True
    _CARRIER[key] = res
    return res


def final_holder(fb, wb, depth=0):
    """follow a by-value Context argument through worker entry points to the function that keeps it until it returns;
    the Context may travel inside a struct built around it (a builder, a per-thread state struct): a call that takes the
    carrier by value and gives a carrier back is a construction step, one that does not give it back owns it from then on"""
    if depth > 5:
        return wb
    last = None
    for bb, t, fn in common.user_calls(wb):
        nm = mir.callee_name(fn) if fn else None
        nb = fb.body(nm) if nm else None
        if nb is None or nb.argc < 1 or nb.defkind == 'Closure':
            continue
        for i, a in enumerate(t['args']):
            if i + 1 > nb.argc or a.get('k') != 'move' or a['p']['proj']:
                continue
            if carries_context(fb, wb.crate, wb.crate.tystr(wb.locals[a['p']['l']]['ty'])) and \
                    carries_context(fb, nb.crate, nb.crate.tystr(nb.locals[i + 1]['ty'])):
                returns_carrier = carries_context(fb, nb.crate, nb.crate.tystr(nb.locals[0]['ty']))
                if not returns_carrier:
                    last = nb
    if last is not None:
        return final_holder(fb, last, depth + 1)
    return wb


def reaches_write(fb, b, seen=None):
    seen = seen or set()
    if b.path in seen:
        return False
    seen.add(b.path)
    for bb, t, fn in common.user_calls(b):
        nm = mir.callee_name(fn) if fn else ''
        if fn and (is_shm_write(fn['path']) or is_shm_write(nm)):
            return True
        for nb in (common.callee_bodies(fb, fn) if fn else []):      # (through private traits: every implementation)
            if reaches_write(fb, nb, seen):
                return True
    return False


_CTX = [None]
_FB = [None]
_MAIN = [None]
WRITER_ID = [None]


def context_dropped_on_all_exits(b, ctx_local=None, depth=0):
    """the by-value Context parameter is dropped on every path to `return` and to `resume`; handing it by value to a
    workspace function counts when that function in turn drops (or hands on) the parameter on all of its exits"""
    if ctx_local is None:
        for i in range(1, b.argc + 1):
            if b.crate.tystr(b.locals[i]['ty']) == _CTX[0]:
                ctx_local = i
    if ctx_local is None and _FB[0] is not None:
        for i in range(1, b.argc + 1):
            if carries_context(_FB[0], b.crate, b.crate.tystr(b.locals[i]['ty'])):
                ctx_local = i          # (a per-thread struct that owns the Context: dropping it drops the Context)
    if ctx_local is None:
        return False, 'no by-value Context parameter'
    # the value may travel through temporaries (`_5 = move _1; call f(move _5)`)
    holders = {ctx_local}
    grew = True
    while grew:
        grew = False
        for blk in b.blocks:
            for st_ in blk['stmts']:
                if st_['k'] == 'assign' and st_['r'].get('k') == 'use' and not st_['p']['proj'] and st_['p']['l'] not in holders:
                    o = st_['r'].get('op') or st_['r'].get('x') or {}
                    if o.get('k') == 'move' and o['p']['l'] in holders and not o['p']['proj']:
                        holders.add(st_['p']['l'])
                        grew = True
                # ... or into a per-thread struct built around it (`PollerThread { ctx, poller, .. }`): whoever owns that
                # struct owns the Context, and dropping the struct drops it
                if st_['k'] == 'assign' and st_['r'].get('k') == 'agg' and not st_['p']['proj'] and st_['p']['l'] not in holders:
                    for o in st_['r'].get('ops') or []:
                        if o.get('k') == 'move' and o['p']['l'] in holders and not o['p']['proj']:
                            holders.add(st_['p']['l'])
                            grew = True
    drops = {i for i, blk in enumerate(b.blocks) if blk['term']['k'] == 'drop' and blk['term']['p']['l'] in holders and
             (not blk['term']['p']['proj'] or b.tystr(blk['term']['p']['ty']) == _CTX[0])}     # (a partially moved struct: field by field)
    handed = []
    if depth < 4 and _FB[0] is not None:
        for i, blk in enumerate(b.blocks):
            t = blk['term']
            if t['k'] != 'call' or not t['func'].get('fn'):
                continue
            for k, a in enumerate(t['args']):
                if a.get('k') == 'move' and a['p']['l'] in holders and not a['p']['proj']:
                    nbs = common.callee_bodies(_FB[0], t['func']['fn'])
                    if len(nbs) == 1 and k + 1 <= nbs[0].argc:
                        ok2, why2 = context_dropped_on_all_exits(nbs[0], k + 1, depth + 1)
                        if not ok2:
                            return False, 'the Context is handed to %s, where: %s' % (nbs[0].path.split('::')[-1], why2)
                        drops.add(i)
                        handed.append(nbs[0].path.split('::')[-1])
    if not drops:
        return False, 'Context parameter _%d is never dropped (moved away or leaked)' % ctx_local
    # normal exits
    skip = b.flag_false_edges(drops)       # drop flags: false only once the value has been dropped / handed on
    reach = b.reachable(0, avoid=drops, skip_edges=skip)
    bad_ret = [r for r in b.return_blocks() if r in reach]
    # unwinding exits
    reach_u = b.reachable(0, avoid=drops, unwind=True, skip_edges=skip)
    bad_res = [i for i in reach_u if b.blocks[i]['term']['k'] == 'resume']
    if bad_ret:
        return False, 'a path reaches return without dropping the Context (bb%s)' % bad_ret
    if bad_res:
        return False, 'an unwinding path reaches resume without dropping the Context (bb%s): a panic would not be reported' % bad_res
    return True, 'Context _%d is dropped on every path to return and to resume (drop blocks %s%s)' % (ctx_local, sorted(drops), '; handed on to %s' % handed if handed else '')


def joined_handles(fb, b):
    """(number of thread handles obtained by the manager that flow into a JoinHandle::join, number obtained): a handle is the
    result of thread::spawn or of a workspace helper that returns a JoinHandle"""
    borrows = {}
    for blk in b.blocks:
        for st_ in blk['stmts']:
            if st_['k'] == 'assign' and st_['r'].get('k') in ('ref', 'rawptr') and not st_['p']['proj']:
                borrows[st_['p']['l']] = st_['r']['p']['l']
    srcs = []
    for bb, t, fn in b.calls():
        if not fn:
            continue
        nm = mir.callee_name(fn)
        dty = b.tystr(b.locals[t['dest']['l']]['ty'])
        nb = fb.body(nm)
        if common.is_thread_spawn(nm) or ('JoinHandle' in dty and nb is not None and common.reaches_call(fb, nb, common.is_thread_spawn)):
            srcs.append(t['dest']['l'])
        elif nb is not None and 'JoinHandle' not in dty and common.reaches_call(fb, nb, common.is_thread_spawn):
            # a helper that spawns and keeps the handle in something it was lent (`supervisor.start(..)` pushing onto
            # `self.handles`): the lent value now holds a handle
            for a in t['args']:
                for l in common._op_locals(a):
                    if l in borrows:
                        srcs.append(('lent', bb, borrows[l]))
    joined = 0
    for s_ in srcs:
        reach = common.local_flow(b, {s_[2] if isinstance(s_, tuple) else s_})
        ok = False
        for bb, t, fn in b.calls():
            if not fn:
                continue
            nm = mir.callee_name(fn)
            ls = [l for a in t['args'] for l in common._op_locals(a)]
            hit = any(l in reach or borrows.get(l) in reach for l in ls)
            if nm.endswith('JoinHandle::<T>::join') and hit:
                ok = True
            if nm.split('::')[-1] in ('for_each', 'map', 'try_for_each') and hit:
                ok = True       # (that the closure joins is checked by join_loop_over_handles)
            nb = fb.body(nm)
            if nb is not None and hit and nb.defkind != 'Closure' and join_loop_over_handles(nb):
                ok = True       # a helper that joins, in a loop, what it is handed
        joined += ok
    return joined, len(srcs)


def joins_in_a_loop(fb, b):
    """the manager, or a helper it calls, joins handles in a loop"""
    if join_loop_over_handles(b):
        return True
    for bb, t, fn in b.calls():
        nb = fb.body(mir.callee_name(fn)) if fn else None
        if nb is not None and nb.defkind != 'Closure' and nb.crate.name == common.DAEMON and join_loop_over_handles(nb):
            return True
    return False


SPAWNS = common.THREAD_SPAWNS


def _closure_owns(fb, crate, tix, ctx_ty, body=None, depth=0):
    """does a closure type (by type-table index) capture a Context by value -- directly, or through a callable it was handed
    (a type parameter of a spawning helper: the closures its callers pass)"""
    t = crate.types[tix]
    if depth > 4:
        return False
    if t.get('k') == 'closure':
        for u in t.get('upvars') or []:
            ut = crate.types[u]
            if ut['s'] == ctx_ty:
                return True
            if ut.get('k') in ('closure', 'param') and _closure_owns(fb, crate, u, ctx_ty, body, depth + 1):
                return True
        return False
    if t.get('k') == 'param' and body is not None:
        gens = list(getattr(body, 'generics', None) or [])
        if t['s'] in gens:
            ix = gens.index(t['s'])
            for cb in fb.bodies():
                for bb, tm, fn in cb.calls():
                    if fn and body.path in {mir.callee_name(fn), fn['path']}:
                        targs = ((fn.get('resolved') or {}).get('targs')) or fn.get('targs') or []
                        if len(targs) == len(gens) and _closure_owns(fb, cb.crate, targs[ix], ctx_ty, cb, depth + 1):
                            return True
    return False


def joined_thread_closures(fb, b, ctx_ty):
    """[(where, description, owns a Context?)] for every thread whose handle the manager obtains (a spawn of its own, or a
    workspace helper returning a handle) and joins"""
    out = []
    is_sp = lambda n: n.endswith(SPAWNS)

    def spawn_sites(body, depth=0, seen=None):
        seen = seen or set()
        if body.path in seen or depth > 4:
            return []
        seen.add(body.path)
        res = []
        for bb, t, fn in body.calls():
            if not fn:
                continue
            nm = mir.callee_name(fn)
            if is_sp(nm):
                res.append((body, bb, t))
            else:
                nb = fb.body(nm)
                if nb is not None and nb.crate.name == common.DAEMON and common.reaches_call(fb, nb, is_sp):
                    res += spawn_sites(nb, depth + 1, seen)
        return res
    for bb, t, fn in b.calls():
        if not fn:
            continue
        nm = mir.callee_name(fn)
        dty = b.tystr(b.locals[t['dest']['l']]['ty'])
        if 'JoinHandle' not in dty:
            continue
        direct = is_sp(nm)
        helper = fb.body(nm) if not direct else None
        if not direct and not (helper is not None and common.reaches_call(fb, helper, is_sp)):
            continue
        reach = common.local_flow(b, {t['dest']['l']})
        joined = False
        for b2, t2, f2 in b.calls():
            if not f2:
                continue
            ls = [l for a in t2['args'] for l in common._op_locals(a)]
            if any(l in reach for l in ls) and (mir.callee_name(f2).endswith('JoinHandle::<T>::join') or
                                                mir.callee_name(f2).split('::')[-1] in ('for_each', 'map', 'try_for_each', 'into_iter', 'push', 'extend')):
                joined = True
        if not joined:
            continue
        sites = [(b, bb, t)] if direct else spawn_sites(helper)
        for sb, sbb, st_ in sites:
            cl = st_['args'][-1] if st_['args'] else None
            owns = False
            if cl is not None and cl.get('k') in ('copy', 'move') and not cl['p']['proj']:
                owns = _closure_owns(fb, sb.crate, sb.locals[cl['p']['l']]['ty'], ctx_ty, sb)
            elif cl is not None and cl.get('k') == 'const' and 'ty' in cl:
                owns = _closure_owns(fb, sb.crate, cl['ty'], ctx_ty, sb)
            out.append((sb.where(sbb), sb.path.split('::')[-1], owns))
    return out


def join_loop_over_handles(b):
    """is there a loop after the manager loop whose body calls JoinHandle::join?"""
    for tail, head in b.back_edges():
        loop = b.natural_loop(tail, head)
        for i in loop:
            t = b.blocks[i]['term']
            if t['k'] == 'call' and t['func'].get('fn') and mir.callee_name(t['func']['fn']).endswith('JoinHandle::<T>::join'):
                return True
    # ... or a `for_each` / `map(..).collect()` over the handles whose closure joins
    for bb, t, fn in b.calls():
        if fn and mir.callee_name(fn).split('::')[-1] in ('for_each', 'map', 'try_for_each'):
            for b2 in b.crate.bodies:
                if b2.defkind == 'Closure' and b2.path.startswith(b.path + '::{closure') and any(
                        f2 and mir.callee_name(f2).endswith('JoinHandle::<T>::join') for _, _, f2 in b2.calls()):
                    return True
    return False


def abort_and_blocking(fb, chk, cid, holder, msgs):
    eng = common.mk_engine(fb)
    paths = [p for p in eng.run(holder) if p.kind != 'unreachable']
    chk.analysed['paths'] += len(paths)
    heads = {h for t, h in holder.back_edges()}
    n_abort = 0
    ext = {}
    for p in paths:
        calls = [(n, ef) for n, ef in enumerate(p.effects) if ef['kind'] == 'call' and not ef['tracing']]
        for n, ef in calls:
            ext.setdefault(ef['callee'], ef)
        # paths on which ThreadAbort was received
        abort = False
        for term, op, val, _ in p.conds:
            if term[0] == 't' and term[1] == 'discr' and op == '==' and msgs.get(val) == 'ThreadAbort' and 'recv' in fmt(term) and \
                    fmt(term).rstrip(')').endswith('Ok).0'):
                abort = True
        if not abort:
            continue
        n_abort += 1
        if p.kind == 'return':
            chk.ob('C15.N5', 'abort:leaves-loop:%s' % cid, True, p.where[2], 'ThreadAbort path returns directly')
            continue
        if p.kind != 'backedge':
            chk.ob('C15.N5', 'abort:leaves-loop:%s' % cid, False, p.where[2], 'ThreadAbort path ends as %s' % p.kind)
            continue
        # continue from the loop head with this path's state of the holder frame
        # (the frame that holds the loop: the holder itself, or a helper it called with the Context borrowed)
        def resume(p_):
            fr = p_.state.frames[-1]
            lb = fr.body
            store = {k: v for k, v in p_.state.store.items() if not (k[0][0] == 'L' and k[0][1] != fr.fid)}
            store = {(((('L', 0, k[0][2])), k[1]) if k[0][0] == 'L' else k): v for k, v in store.items()}
            args = [p_.state.store.get((('L', fr.fid, i), ())) for i in range(1, lb.argc + 1)]
            return [q for q in common.mk_engine(fb).run(lb, args=args, start_bb=fr.bb, store=store) if q.kind != 'unreachable']
        cont = resume(p)
        ok = bool(cont)
        detail = []
        # (nested loops -- a drain loop inside the wait loop: the exit may pass several loop heads, none of them doing anything)
        rounds = 0
        while cont and rounds < 4:
            rounds += 1
            nxt = []
            for q in cont:
                later = [ef['callee'].split('::')[-1] for ef in q.effects if ef['kind'] == 'call' and not ef['tracing']]
                if q.kind == 'backedge' and not later and rounds < 4 and q.state.frames[-1].bb != p.state.frames[-1].bb:
                    nxt += resume(q)
                elif q.kind != 'return' or later:
                    ok = False
                    detail.append((q.kind, later[:4]))
            cont = nxt
        chk.ob('C15.N5', 'abort:leaves-loop:%s' % cid, ok, p.where[2],
               'after ThreadAbort the loop head exits to return with no further call' if ok else
               'after ThreadAbort the worker keeps going: %s' % detail[:3])
    chk.floor('C15.N5', 'ThreadAbort paths in the %s loop' % cid, n_abort, 1)
    # N8: an iteration that goes round again must have looked at the mailbox, otherwise ThreadAbort is never seen
    n_back = 0
    for p in paths:
        if p.kind != 'backedge':
            continue
        n_back += 1
        names = [ef['callee'] for ef in p.effects if ef['kind'] == 'call' and not ef['tracing']]
        polled = any(n.endswith(('Receiver::<T>::recv', 'Receiver::<T>::recv_timeout', 'Receiver::<T>::try_recv')) for n in names)
        chk.ob('C15.N8', 'loop:every-iteration-reads-the-mailbox:%s' % cid, polled, p.where[2],
               'an iteration of the %s loop returns to the loop head %s' % (cid, 'after reading its mailbox' if polled else
               'WITHOUT reading its mailbox (calls: %s): ThreadAbort can be ignored forever' % [n.split('::')[-1] for n in names][:6]))
    chk.floor('C15.N8', 'looping paths in the %s loop' % cid, n_back, 1)
    # ---- N6 blocking calls
    for nm, ef in sorted(ext.items()):
        if fb.body(nm) is not None:
            continue
        short = nm.split('::')[-1]
        site = ef['site'][2]
        if nm.endswith('Receiver::<T>::recv') or nm.endswith('Receiver::<T>::recv_timeout'):
            own = 'mbox' in fmt(ef['args'][0])
            chk.ob('C15.N6', 'blocking:%s:%s' % (cid, short), own, site, '%s on %s' % (short, fmt(ef['args'][0])[:40]))
            if short == 'recv_timeout':
                d = timeout_value(fb, holder, ef['args'][1])
                if d is None:
                    d = entry_timeout_bound(fb, cid)       # an upper bound will do: seen from the thread's entry point
                chk.ob('C15.N6', 'blocking:%s:timeout-bounded' % cid, d is not None and 0 < d <= MAX_WAIT_NS, site,
                       'poll wait is %s ns (must be a constant <= %d ns so ThreadAbort is seen within a few seconds)' % (d, MAX_WAIT_NS))
        elif any(x in nm for x in BLOCKING_DENY):
            chk.ob('C15.N6', 'blocking:%s:%s' % (cid, short), False, site, '%s can block the worker loop indefinitely' % nm)
    chk.analysed['call_sites'] += len(ext)


WORKER_ENTRY = {}       # channel id -> (worker entry body, the argument values the spawned closure passes it, in the manager's terms)


def _ub_int(v, depth=0):
    """an upper bound of an integer term: a constant, `x.clamp(lo, hi)` / `min(a, b)` with a constant bound, through casts"""
    if depth > 6 or not isinstance(v, tuple):
        return None
    if psi.is_int_const(v):
        return v[1]
    if v[0] == 't' and v[1] in ('cast', 'conv'):
        return _ub_int(v[2][0], depth + 1)
    if v[0] == 't' and v[1] == 'call':
        last = v[2][0].split('::')[-1]
        args = [a for a in v[2][2:]]
        if last == 'clamp' and len(args) == 3:
            return _ub_int(args[2], depth + 1)
        if last == 'min' and len(args) == 2:
            bs = [b for b in (_ub_int(args[0], depth + 1), _ub_int(args[1], depth + 1)) if b is not None]
            return min(bs) if bs else None
    return None


def _ub_ns(v, depth=0):
    l = common.lin_time(v)
    if l is not None and not l.terms:
        return l.const
    if v[0] == 't' and v[1] == 'call' and depth < 4:
        last = v[2][0].split('::')[-1]
        args = list(v[2][2:])
        if last == 'clamp' and len(args) == 3:
            return _ub_ns(args[2], depth + 1)            # Duration::clamp(lo, hi)
        if last == 'min' and len(args) == 2:
            bs = [b for b in (_ub_ns(args[0], depth + 1), _ub_ns(args[1], depth + 1)) if b is not None]
            return min(bs) if bs else None
    if v[0] == 't' and v[1] in ('dur_from_millis', 'dur_from_secs', 'dur_from_micros', 'dur_from_nanos'):
        b = _ub_int(v[2][0])
        k = {'dur_from_millis': 10**6, 'dur_from_secs': 10**9, 'dur_from_micros': 10**3, 'dur_from_nanos': 1}[v[1]]
        return None if b is None else b * k
    return None


def entry_timeout_bound(fb, cid):
    """upper bound (ns) of every mailbox wait of the worker thread `cid`, with the thread explored from its entry point and
    the arguments the manager's closure passes (so that a period kept in a per-thread struct, set by a builder, or clamped by
    the manager before it is handed over is seen with its value or its bound); None when some wait has no bound"""
    ent = WORKER_ENTRY.get(cid)
    if ent is None:
        return None
    wb, args = ent
    args = [(('ref', (('S', ('sym', 'caller-place-%d' % i)), ())) if (a is not None and a[0] == 'ref' and a[1][0][0] == 'L') else a)
            for i, a in enumerate(args)]
    from . import poller_model as _pm
    try:
        eng = common.mk_engine(fb, inline_depth=8, no_inline=lambda b: bool(b.impl_trait or b.provided_of) and b.name in (_pm.QUERY_METHODS | _pm.GRACE_METHODS))
        paths = eng.run(wb, args=args)
    except psi.PathLimit:
        return None
    worst, n = 0, 0
    for p in paths:
        for ef in p.effects:
            if ef['kind'] == 'call' and not ef['tracing'] and ef['callee'].endswith('Receiver::<T>::recv_timeout') and len(ef['args']) > 1:
                n += 1
                b = _ub_ns(ef['args'][1])
                if b is None:
                    return None
                worst = max(worst, b)
    return worst if n else None


def timeout_value(fb, holder, v):
    """ns value of the timeout operand: a constant, or a parameter whose only caller passes a constant"""
    l = common.lin_time(v)
    if l is not None and not l.terms:
        return l.const
    if v[0] == 'sym':
        idx = None
        for i in range(1, holder.argc + 1):
            if holder.debug_names.get(i) == v[1]:
                idx = i - 1
        vals = set()
        for b in fb.bodies(common.DAEMON):
            for bb, t, fn in common.user_calls(b):
                if fn and mir.callee_name(fn) == holder.path and idx is not None:
                    for q in common.mk_engine(fb, no_inline=lambda x: x.path == holder.path).run(b):
                        for ef in q.effects:
                            if ef['kind'] == 'call' and ef['callee'] == holder.path:
                                l2 = common.lin_time(ef['args'][idx])
                                vals.add(l2.const if l2 is not None and not l2.terms else None)
        if len(vals) == 1:
            return vals.pop()
    return None
