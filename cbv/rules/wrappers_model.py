"""Outcome tables of the two client entry points (Rust ClockBoundClient::now and the C
clockbound_now), extracted by PSI with the shm crate kept opaque: used by C01.W3, C05.E6,
C14.M4, C17.Y5."""
from .. import psi
from ..psi import fmt
from . import common

SHM_ERR = {0: 'SyscallError', 1: 'SegmentNotInitialized', 2: 'SegmentMalformed', 3: 'CausalityBreach'}
STATUS = {0: 'Unknown', 1: 'Synchronized', 2: 'FreeRunning'}


_PRIMS = [None, set()]


def _no_shm(b):
    """the shm crate's primitives stay opaque: taking a snapshot, evaluating a record at the current time, opening the
    segment -- and whatever they call. A convenience the shm crate offers on top of them (`reader.read_bound()` =
    snapshot()? then now()) is looked through, so that the tables still name the two primitives."""
    if b.crate.name != common.SHM:
        return False
    fb = _PRIMS[0]
    if fb is None:
        return True
    if not _PRIMS[1]:
        prims = [x for x in fb.bodies(common.SHM) if x.defkind != 'Closure' and (
            (x.name == 'snapshot' and (x.impl_self or '').endswith('ShmReader')) or
            (x.name == 'now' and (x.impl_self or '').endswith('ClockErrorBound')) or
            (x.name == 'new' and (x.impl_self or '').endswith('ShmReader')))]
        _PRIMS[1] = {x.path for x in prims}
    if b.path in _PRIMS[1]:
        return True
    # a wrapper: reaches a primitive and is not reached from one
    return not common.reaches_call(fb, b, lambda n: n in _PRIMS[1])


def call_of(v):
    """the innermost opaque call term a projection chain is rooted in"""
    while v[0] == 't' and v[1] in ('field', 'as', 'deref', 'conv', 'cast'):
        v = v[2][0]
    if v[0] == 'ref' and v[1][0][0] == 'S':
        return call_of(v[1][0][1])
    if v[0] == 't' and v[1] == 'call':
        return v
    return None


def proj_chain(v):
    """list of projection steps from the root call to v, e.g. ['as Ok', '.0', '.1']"""
    steps = []
    if v[0] == 'ref' and v[1][0][0] == 'S':
        tail = []
        for e in v[1][1]:
            tail.append('.%s' % (e[2] if e[2] is not None else e[1]) if e[0] == 'f' else 'as %s' % e[1])
        return proj_chain(v[1][0][1]) + tail
    while v[0] == 't' and v[1] in ('field', 'as', 'deref', 'conv', 'cast'):
        if v[1] == 'field':
            steps.append('.%s' % v[2][1])
        elif v[1] == 'as':
            steps.append('as %s' % v[2][1])
        v = v[2][0]
    return list(reversed(steps))


def describe(v):
    """normalise a result component: const, or (callee short name, projection chain)"""
    if v[0] == 'c' and isinstance(v[1], tuple) and v[1][0] == 'b' and set(str(v[1][1])) <= {'0'}:
        return ('empty', 'null')       # an all-zero pointer constant: the null pointer
    if v[0] == 'c':
        return ('const', v[1])
    # transparent wrappers
    while True:
        if v[0] == 'agg' and len(v[3]) == 1:
            v = v[3][0]
            continue
        if v[0] == 't' and v[1] == 'call' and v[2][0].endswith('::from') and len(v[2]) == 3:
            v = v[2][2]
            continue
        break
    if v[0] == 'c':
        return ('const', v[1])
    c = call_of(v)
    if c is not None:
        nm = c[2][0].split('::')[-1]
        if nm in ('null', 'null_mut', 'new') and len(c[2]) == 2:
            return ('empty', nm)
        if nm in ('as_ptr', 'to_owned', 'to_string', 'to_str', 'expect', 'unwrap', 'into_owned', 'to_string_lossy'):
            # conversions of the detail string: follow the first argument
            for a in c[2][2:]:
                d = describe(a)
                if d[0] == 'from':
                    return d
        if v[0] == 'ref':
            return ('from', nm, tuple(proj_chain(v)))
        return ('from', nm, tuple(proj_chain(v)))
    return ('other', fmt(v)[:120])


class Wrapper:
    def __init__(self, fb, body, chk):
        self.body = body
        self.rows = []
        chk.saw(body)
        eng = common.mk_engine(fb, no_inline=_no_shm)
        self.engine = eng
        paths = [p for p in eng.run(body) if p.kind != 'unreachable']
        chk.analysed['paths'] += len(paths)
        for p in eng.inlined:
            chk.analysed['functions'].add(p)
        self.paths = paths
        for p in paths:
            self.rows.append(self.row(p))

    def row(self, p):
        calls = [ef for ef in p.effects if ef['kind'] == 'call' and not ef['tracing']]
        seq = [ef['callee'].split('::')[-1] for ef in calls if ef['callee'].startswith(common.SHM)]
        stage = None
        err = None
        status_in = None
        for term, op, val, _ in p.conds:
            if term[0] != 't' or term[1] != 'discr' or op != '==':
                continue
            inner = term[2][0]
            c = call_of(inner)
            if c is None:
                continue
            nm = c[2][0].split('::')[-1]
            chain = proj_chain(inner)
            if not chain:                      # discr(call): Ok/Err of that stage
                if val == 1:
                    stage = nm
            elif chain == ['as Err', '.0']:
                err = SHM_ERR.get(val, val)
            elif chain[:2] == ['as Ok', '.0'] and chain[-1] == '.2':
                status_in = STATUS.get(val, val)
        out = None
        # Rust client: Result value; C client: pointer return + writes through ctx/output
        if p.kind == 'return' and p.value[0] == 'agg' and p.value[2] in ('Ok', 'Err'):
            inner = p.value[3][0]
            if p.value[2] == 'Err' and inner[0] == 'agg':
                f = inner[3]
                out = ('err', f[0][2] if f[0][0] == 'agg' else fmt(f[0]), describe(f[1]), describe(f[2]))
            elif p.value[2] == 'Ok' and inner[0] == 'agg':
                f = inner[3]
                st = f[2][2] if f[2][0] == 'agg' else describe(f[2])
                out = ('ok', describe(f[0]), describe(f[1]), st)
        elif p.kind == 'return':
            # C: error path stores into (*ctx).err and returns its address; ok path writes *output
            # the error record is whatever the returned pointer points to (a field of *ctx, whatever its name)
            errv = None
            if p.value[0] == 'ref':
                pv = self.engine.load(p.state, p.value[1])
                if pv[0] == 'agg':
                    errv = pv
            if errv is None:
                for k, v in p.state.store.items():
                    if k[0][0] == 'S' and k[1] and k[1][-1][2] == 'err' and v[0] == 'agg':
                        errv = v
            w = [ef for ef in calls if ef['callee'].endswith('::write') and len(ef['args']) == 2 and ef['args'][1][0] == 'agg']
            if stage is not None and errv is not None:
                f = errv[3]
                out = ('err', f[0][2] if f[0][0] == 'agg' else fmt(f[0]), describe(f[1]), describe(f[2]))
                out = out + (fmt(p.value)[:80],)
            elif w:
                f = w[0]['args'][1][3]
                st = f[2][2] if f[2][0] == 'agg' else describe(f[2])
                out = ('ok', describe(f[0]), describe(f[1]), st, fmt(p.value)[:80])
        return {'stage': stage, 'shm_err': err, 'status_in': status_in, 'out': out, 'calls': seq, 'path': p}


def load(fb, chk, rule):
    if _PRIMS[0] is not fb:
        _PRIMS[0], _PRIMS[1] = fb, set()
    rust = [b for b in fb.find(crate=common.CLIENT, name='now') if (b.impl_self or '').endswith('ClockBoundClient')]
    cee = [b for b in fb.find(crate=common.FFI, name='clockbound_now')]
    out = {}
    if rust:
        out['rust'] = Wrapper(fb, rust[0], chk)
    else:
        chk.missing(rule, 'ClockBoundClient::now')
    if cee:
        out['c'] = Wrapper(fb, cee[0], chk)
    else:
        chk.missing(rule, 'clockbound_now')
    return out
