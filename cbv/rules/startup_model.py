"""Model of the writer's start-up (ShmWriter::new) extracted by PSI with every workspace helper
inlined except the client's open routine: used by C04, C11, C16, C17 and C01.

The anchors are semantic, not names of private helpers:
  probe   = a call to ShmReader::new (the client's open routine; public API of the shm crate)
  create  = an effect that creates / truncates the backing file (File::create, OpenOptions with
            create/truncate, open(2) with O_CREAT/O_TRUNC)
  fwrite  = a write to that file (typed byteorder writes, write_all)
  map     = a call to mmap
  stores  = atomic / raw-pointer writes into the mapping (seqlock_model.classify_effects)
"""
from .. import psi, arith, mir
from ..psi import fmt, T
from . import common
from .seqlock_model import classify_effects

O_CREAT, O_TRUNC = 0o100, 0o1000
TYPED_WRITES = {'write_u8': 1, 'write_i8': 1, 'write_u16': 2, 'write_i16': 2, 'write_u32': 4, 'write_i32': 4,
                'write_u64': 8, 'write_i64': 8}


READER_OPEN = set()       # paths of the client's open routine: ShmReader::new and the functions it delegates to that also
                          # return a ShmReader (a crate-internal `open` the public `new` wraps); filled by init_reader_open(fb)
_RO_FOR = [None]


def init_reader_open(fb):
    if _RO_FOR[0] is fb:
        return
    _RO_FOR[0] = fb
    READER_OPEN.clear()
    for b in fb.bodies(common.SHM):
        if b.name == 'new' and (b.impl_self or '').endswith('ShmReader') and b.defkind != 'Closure':
            READER_OPEN.add(b.path)
            for ob, bb, t, fn in common.reachable_calls(fb, b):
                nb = fb.body(mir.callee_name(fn))
                if nb is not None and nb.defkind != 'Closure' and 'ShmReader' in nb.tystr(nb.locals[0]['ty']) and \
                        nb.tystr(nb.locals[0]['ty']).startswith(('std::result::Result<clock_bound_shm::reader::ShmReader', 'clock_bound_shm::reader::ShmReader',
                                                                 'std::result::Result<clock_bound_shm::ShmReader', 'clock_bound_shm::ShmReader')):
                    READER_OPEN.add(nb.path)


def is_reader_new(b):
    return (b.name == 'new' and (b.impl_self or '').endswith('ShmReader')) or b.path in READER_OPEN


def is_probe_call(name):
    return name.endswith('ShmReader::new') or name in READER_OPEN


def _bits(v):
    from .C02 import bits_of
    return bits_of(v)


def create_kind(ef):
    """how a call effect creates/truncates a file, or None"""
    name = ef['callee']
    last = name.split('::')[-1]
    if name.endswith('File::create') or name.endswith('File::create_new'):
        return 'File::create (create + truncate)'
    if 'OpenOptions' in name and last in ('create', 'truncate', 'create_new') and len(ef['args']) > 1:
        a = ef['args'][1]
        if not psi.is_int_const(a) or a[1] != 0:
            return 'OpenOptions::%s(%s)' % (last, fmt(a)[:10])
        return None
    if last in ('open', 'openat') and len(ef['args']) >= 2 and not name.startswith('std::'):
        for a in ef['args'][1:3]:
            fl = _bits(a)
            if fl is not None and fl & (O_CREAT | O_TRUNC):
                return '%s(flags %s)' % (last, oct(fl))
        return None
    if last in ('set_len', 'ftruncate', 'truncate') and 'OpenOptions' not in name:
        return '%s(%s)' % (last, fmt(ef['args'][-1])[:30])
    return None


def truncates(kind):
    return kind is not None and ('truncate' in kind or 'set_len' in kind or 'File::create (' in kind or
                                 ('flags' in kind and int(kind.split('flags ')[1].rstrip(')'), 8) & O_TRUNC))


class StartupPath:
    def __init__(self, p):
        self.p = p
        self.calls = [(n, ef) for n, ef in enumerate(p.effects) if ef['kind'] == 'call' and not ef['tracing']]
        self.probes = [(n, ef) for n, ef in self.calls if is_probe_call(ef['callee'])]
        self.creates = [(n, ef, create_kind(ef)) for n, ef in self.calls if create_kind(ef)]
        self.maps = [(n, ef) for n, ef in self.calls if ef['callee'].split('::')[-1] == 'mmap']
        self.ok = p.kind == 'return' and p.value[0] == 'agg' and p.value[2] == 'Ok'
        self.probe_result = self._probe_truth()

    def _probe_truth(self):
        """'ok' | 'err' | 'undecided' (probe called, result not branched on) | None (probe not called)"""
        if not self.probes:
            return None
        n, ef = self.probes[0]
        call = T('call', ef['callee'], n, *ef['args'])
        leaf = T('discr', call)
        compat = set()
        for d in (0, 1):
            good = True
            for c in self.p.conds:
                if not arith.mentions(c[0], leaf) and c[0] != leaf:
                    continue
                h = arith.cond_holds(c, {leaf: d})
                if h is False:
                    good = False
            if good:
                compat.add(d)
        if compat == {0}:
            return 'ok'
        if compat == {1}:
            return 'err'
        return 'undecided'

    def file_writes(self):
        """the writes made to the created file, in order: ('typed', width, value) | ('bytes', value-term)"""
        out = []
        if not self.creates:
            return out
        first = self.creates[0][0]
        for n, ef in self.calls:
            if n < first:
                continue
            last = ef['callee'].split('::')[-1]
            if last in TYPED_WRITES and len(ef['args']) >= 2 and 'ByteOrder>::' not in ef['callee'] and 'byteorder::ByteOrder::' not in ef['callee']:
                out.append(('typed', TYPED_WRITES[last], ef['args'][1], ef))
            elif last in ('write_all', 'write') and ('io::Write' in ef['callee'] or 'File' in ef['callee']) and len(ef['args']) >= 2:
                buf = ef['pointees'][1] if len(ef.get('pointees') or []) > 1 and ef['pointees'][1] is not None else ef['args'][1]
                out.append(('bytes', None, buf, ef))
            elif last in ('set_len', 'ftruncate') and len(ef['args']) >= 2:
                out.append(('setlen', None, ef['args'][1], ef))
        return out


class FileImage:
    """what a start-up path writes to the file it created: (offset, length, ('val', term) | ('fill', byte-term)) segments"""

    def __init__(self, sp):
        from ..summaries import flatten_bytes
        self.segs = []
        self.problems = []
        off = 0
        for kind, width, v, ef in sp.file_writes():
            if kind == 'typed':
                self.segs.append((off, width, ('val', v)))
                off += width
            elif kind == 'setlen':
                # set_len / ftruncate: the file ends exactly there; the kernel zero-fills any extension (the cursor stays)
                from .C04 import lossless_origin
                o = lossless_origin(v)
                n = o[1] if psi.is_int_const(o) else v[1] if psi.is_int_const(v) else None
                end = max([a + b for a, b, _ in self.segs if b is not None] + [0])
                if n is None or n < end:
                    self.problems.append('the file is cut or sized to a length that is not understood at %s: %s' % (ef['site'][2], fmt(v)[:120]))
                    break
                if n > end:
                    self.segs.append((end, n - end, ('fill', psi.C(0, 'u8'))))
                self.setlen_end = n
            else:
                f = flatten_bytes(v)
                if f is None:
                    self.problems.append('a buffer written at %s is not understood: %s' % (ef['site'][2], fmt(v)[:160]))
                    self.segs.append((off, None, ('unknown', v)))
                    break
                for n, c in f:
                    self.segs.append((off, n, c))
                    off += n
        self.total = max([off] + [a + b for a, b, _ in self.segs if b is not None]) if not self.problems else None

    @staticmethod
    def _zero(t):
        return psi.is_int_const(t) and t[1] == 0

    def value_at(self, off, width):
        """the term stored in [off, off+width): a typed value exactly there, const 0 when the range is zero-filled, else None"""
        for o, n, c in self.segs:
            if o == off and n == width and c[0] == 'val':
                return c[1]
        covered = 0
        for o, n, c in self.segs:
            if n is None:
                return None
            lo, hi = max(o, off), min(o + n, off + width)
            if lo < hi:
                if not ((c[0] == 'fill' and self._zero(c[1])) or (c[0] == 'val' and self._zero(c[1]))):
                    return None
                covered += hi - lo
        return psi.C(0, 'u8') if covered == width else None

    def zero_from(self, off):
        """is everything from `off` to the end zero, and does a boundary exist at `off`?"""
        if self.total is None:
            return False
        if self.total == off:
            return True
        return self.value_at(off, self.total - off) is not None and all(not (o < off < o + n) or c[0] == 'fill' for o, n, c in self.segs)

    def describe(self):
        return ['%s+%s %s %s' % (o, n, c[0], fmt(c[1])[:40]) for o, n, c in self.segs]


class StartupModel:
    def __init__(self, fb, chk, rule):
        self.fb = fb
        self.ok = False
        cands = [b for b in fb.bodies(common.SHM) if b.name == 'new' and (b.impl_self or '').endswith('ShmWriter')
                 and b.defkind != 'Closure']
        if not cands:
            chk.missing(rule, 'ShmWriter::new')
            return
        self.body = cands[0]
        chk.saw(self.body)
        from .seqlock_model import pointer_roles
        pointer_roles(fb)
        init_reader_open(fb)
        self.engine = common.mk_engine(fb, inline_depth=8, no_inline=is_reader_new)
        raw = [p for p in self.engine.run(self.body) if p.kind != 'unreachable']
        chk.analysed['paths'] += len(raw)
        for x in self.engine.inlined:
            chk.analysed['functions'].add(x)
        self.paths = [StartupPath(p) for p in raw]
        self.ok = True

    def reachable_bodies(self):
        """ShmWriter::new and the workspace functions it reaches, the client open routine excluded"""
        out = {}
        work = [self.body]
        while work:
            b = work.pop()
            if b.path in out or is_reader_new(b):
                continue
            out[b.path] = b
            for bb, t, fn in common.user_calls(b):
                nm = mir.callee_name(fn) if fn else ''
                nb = self.fb.body(nm)
                if nb is None and fn and fn.get('defkind') == 'Closure':
                    nb = self.fb.body(fn['path'])
                if nb is not None:
                    work.append(nb)
        return out
