"""Model of the client-side evaluation extracted by PSI from ClockErrorBound::now()
(with the bound computation inlined): used by C01, C05, C06, C12, C14."""
from .. import psi
from ..psi import T, fmt
from ..summaries import payload
from . import common
from .common import Lin, lin_time, time_atom

GRACE_NS = 5_000_000_000


class ClientModel:
    def __init__(self, fb, chk, rule):
        self.fb = fb
        self.ok = False
        bodies = [b for b in fb.find(crate=common.SHM, name='now', impl_self='ClockErrorBound')]
        if not bodies:
            chk.missing(rule, 'ClockErrorBound::now (public client entry point)')
            return
        self.body = bodies[0]
        chk.saw(self.body)
        self.engine = common.mk_engine(fb)
        self.paths = [p for p in self.engine.run(self.body) if common.feasible_opaque_errors(fb, p)]
        chk.analysed['paths'] += len(self.paths)
        for p in self.engine.inlined:
            chk.analysed['functions'].add(p)
        self.ok = True
        self.infos = [self.classify(p) for p in self.paths]

    def classify(self, p):
        """per path: clock reads in order, identified leaves, canonical atoms"""
        reads = []
        for ef in p.effects:
            if ef['kind'] == 'call' and common.is_clock_read(ef['callee']):
                cid = ef['args'][0][1] if ef['args'] and psi.is_int_const(ef['args'][0]) else None
                reads.append((cid, ef))
        info = {'path': p, 'reads': reads, 'real': None, 'mono': None, 'atoms': [], 'stored': None,
                'drift_ok': None}
        # leaves: the Ok payload of each read
        for n, ef in enumerate(p.effects):
            if ef['kind'] == 'call' and common.is_clock_read(ef['callee']):
                cid = ef['args'][0][1] if ef['args'] and psi.is_int_const(ef['args'][0]) else None
                leaf = payload(T('call', ef['callee'], n, *ef['args']), 'Ok')
                if cid == common.CLOCK_REALTIME and info['real'] is None:
                    info['real'] = leaf
                elif cid in common.MONOTONIC_FAMILY and info['mono'] is None:
                    info['mono'] = leaf
        for c in p.conds:
            info['atoms'] += common.time_atoms(c)
            term, op, val, _ = c
            if term[0] == 't' and term[1] == 'discr' and term[2][0] == self.leaf_self('clock_status') and op == '==':
                info['stored'] = val
        # the stored statuses this path is taken for: every value of the record's status discriminant that falsifies none
        # of the path's conditions (covers `match`, `==` on the enum, `!=`, guards ...)
        from .. import arith
        leaf = T('discr', self.leaf_self('clock_status'))
        compat = []
        for k in (0, 1, 2):
            if all(arith.cond_holds(c, {leaf: k}) is not False for c in p.conds if arith.mentions(c[0], leaf) or c[0] == leaf):
                compat.append(k)
        info['stored_set'] = compat
        info['status_leaf'] = self.leaf_self('clock_status')
        return info

    def leaf_self(self, field):
        """the record field with that role in the published layout (named by offset, see common.abi_names)"""
        return T('field', T('deref', ('sym', 'self')), common.abi_names(self.fb)['rec'].get(field, field))

    def age_unit(self, info):
        """age = mono - as_of as a {leaf: coeff} dict"""
        if info['mono'] is None:
            return None
        return {info['mono']: 1, self.leaf_self('as_of'): -1}

    def void_unit(self, info):
        if info['mono'] is None:
            return None
        return {info['mono']: 1, self.leaf_self('void_after'): -1}
