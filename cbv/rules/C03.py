"""C03 Snapshots never go back and catch up: guard table of the exits of snapshot() that
serve the cache, pairing of cached generation and cached record, freshness of every other
Ok exit.  Necessary structural conditions; interleaving-level monotonicity is not decided."""
from .. import psi, arith
from ..psi import fmt
from . import common
from .seqlock_model import ReaderModel, is_record_read
from .C02 import parity_of

LEVEL = 'other'


def guard_reasons(p, evs, snap_gen_leaf):
    """which of the documented reasons justify serving the cache on this path"""
    reasons = set()
    vloads = [e.term for e in evs if e.kind == 'vload']
    gloads = [e.term for e in evs if e.kind == 'gload']
    for a, b in common.known_equal(p.conds):
        for x, y in ((a, b), (b, a)):
            if x in vloads and psi.is_int_const(y) and y[1] == 0:
                reasons.add('version==0')
            if x in gloads and psi.is_int_const(y) and y[1] == 0:
                reasons.add('generation==0')
            if x in gloads and y in snap_gen_leaf:
                reasons.add('generation==cached')
    # `x == 0` spelled as an unsigned range test: x < 1, !(x >= 1), x <= 0
    for term, op, val, _ in p.conds:
        cc = common.cmp_const_right(term)
        t = common.cond_truth(op, val)
        if cc is None or t is None:
            continue
        ug = common.unsigned_ge(cc[0], cc[2])
        if ug is not None and ug[0] == 1 and (ug[1] != t):       # the path has established not (x >= 1)
            if cc[1] in vloads:
                reasons.add('version==0')
            if cc[1] in gloads:
                reasons.add('generation==0')
    # a switch on the loaded value itself (`match version { 0 => .. }`)
    for term, op, val, _ in p.conds:
        if op == '==' and val == 0:
            if term in vloads:
                reasons.add('version==0')
            if term in gloads:
                reasons.add('generation==0')
    # odd generation: the atoms on the first generation load only allow odd values
    for g in gloads[:1]:
        par, zero, n = parity_of(g, g, p.conds)
        if par == {1}:
            reasons.add('generation odd')
        if n == 1 and zero:
            reasons.add('generation==0')
    return reasons


def run_rules(ctx, chk):
    fb = ctx.facts()
    chk.explanation = ('G1: every exit of snapshot() that returns the cache without accepting a fresh copy is guarded by one of '
                       '{version==0, generation==0, generation==cached generation, generation odd}; G2: the cached generation is '
                       'assigned only together with the cached record, from the generations compared equal; G3: beyond the early '
                       'exits the only Ok exit is the acceptance, anything else is Err; G4: a re-loaded generation is adopted as '
                       'the reference only if even. NOT decided: monotonicity over interleavings (follows on paper with C02, C11).')
    chk.not_decided = ['interleaving-level monotonicity / catch-up']
    r = ReaderModel(fb, chk, 'C03.G1')
    if not r.ok:
        return
    # the cached-generation field: whatever field of self the acceptance path assigns next to the record copy
    snap_gen_leaf = set()
    for p in r.paths:
        stores = r.self_stores(p)
        if p.kind == 'return' and p.value[0] == 'agg' and p.value[2] == 'Ok' and \
                any(is_record_read(v) for v in stores.values()):
            for k, v in stores.items():
                if not is_record_read(v) and r.is_cache_field(k):
                    leaf = psi.T('deref', ('sym', 'self'))
                    for part in str(k).split('.'):
                        leaf = psi.T('field', leaf, part)
                    snap_gen_leaf.add(leaf)
    if not snap_gen_leaf:
        chk.missing('C03.G2', 'acceptance path of snapshot() that caches a generation with the record')
    reasons_seen = set()
    n_accept = 0
    for p, evs in zip(r.paths, r.evs):
        stores = r.self_stores(p)
        cache = r.returns_cache(p)
        stores = {k: v for k, v in stores.items() if r.is_cache_field(k)}      # (statistics and the like are not cache state)
        rec_fields = [k for k, v in stores.items() if is_record_read(v)]
        gen_fields = [k for k, v in stores.items() if k not in rec_fields]
        gloads = [e.term for e in evs if e.kind == 'gload']
        if p.kind == 'return' and p.value[0] == 'agg' and p.value[2] == 'Ok':
            if rec_fields:
                n_accept += 1
                # G2 pairing
                for gf in gen_fields:
                    v = stores[gf]
                    eq = any(v in (a, b) and a in gloads and b in gloads for a, b in common.known_equal(p.conds))
                    chk.ob('C03.G2', 'accept:cached-generation-is-the-compared-one', eq, p.where[2],
                           'self.%s <- %s, which is one of the two generations compared equal: %s' % (gf, fmt(v)[:70], eq))
                chk.ob('C03.G2', 'accept:generation-cached-with-record', bool(gen_fields), p.where[2],
                       'acceptance assigns record field(s) %s and generation field(s) %s' % (rec_fields, gen_fields))
            else:
                why = guard_reasons(p, evs, snap_gen_leaf)
                reasons_seen |= why
                chk.ob('C03.G1', 'cache-exit:%s' % ('+'.join(sorted(why)) if why else 'UNGUARDED'), bool(why), p.where[2],
                       'cache served because {%s}' % ', '.join(sorted(why)) if why else
                       'an exit returns the cached record without any of the documented reasons; atoms on this path: %s' %
                       [psi.fmt_cond(c)[:90] for c in p.conds])
                chk.ob('C03.G2', 'cache-exit:no-cached-state-change', not stores, p.where[2],
                       'fields assigned on a cache-serving path: %s' % sorted(stores))
        elif p.kind == 'return':
            chk.ob('C03.G3', 'other-exit-is-err', p.value[0] == 'agg' and p.value[2] == 'Err', p.where[2], 'exit value %s' % fmt(p.value)[:60])
            chk.ob('C03.G2', 'err-exit:no-cached-state-change', not stores, p.where[2], 'fields assigned: %s' % sorted(stores))
        elif p.kind == 'backedge':
            # G2: generation must not be cached without the record; G4: adoption guarded by evenness
            chk.ob('C03.G2', 'retry:no-cached-state-change', not stores, p.where[2], 'fields assigned on a retry path: %s' % sorted(stores))
            fr = p.state.frames[0] if p.state.frames else None
            gl = [e for e in evs if e.kind == 'gload']
            if fr is not None and len(gl) >= 2:
                # the local that holds the reference generation: destination of the first generation load
                site = gl[0].ef['site']
                dest = r.body.blocks[site[1]]['term']['dest']['l'] if site[0] == r.body.path else None
                cur = p.state.store.get((('L', fr.fid, dest), ())) if dest is not None else None
                later = [e.term for e in gl[1:]]
                if cur is not None and cur in later:
                    par, zero, n = parity_of(cur, cur, p.conds)
                    chk.ob('C03.G4', 'retry:adopts-only-even', par == {0}, p.where[2],
                           're-loaded generation adopted as the new reference with parity set %s (zero possible: %s)' % (par, zero))
                elif cur is not None and cur != gl[0].term:
                    chk.ob('C03.G4', 'retry:reference-generation-is-a-load', False, p.where[2],
                           'reference generation replaced by %s' % fmt(cur)[:80])
    # G3 (CFG form): every assignment of an Ok(..) result in the body lies on an explored path, so no
    # Ok exit escapes the guard table (e.g. one placed after the retry loop, which PSI does not unroll)
    visited = set()
    for p in r.paths:
        for fid, path, bb in p.state.trace:
            visited.add((path, bb))
    n_ok_sites = n_err_sites = 0
    for b in [r.body] + [r.fb.body(x) for x in sorted(r.engine.inlined) if r.fb.body(x) is not None]:
        ret_ty = b.crate.tystr(b.locals[0]['ty'])
        if not ret_ty.startswith('std::result::Result'):
            continue
        for i, blk in enumerate(b.blocks):
            if blk['cleanup']:
                continue
            for s_ in blk['stmts']:
                if s_['k'] == 'assign' and s_['p']['l'] == 0 and not s_['p']['proj'] and s_['r']['k'] == 'agg':
                    vn = s_['r'].get('vname')
                    if vn == 'Ok':
                        n_ok_sites += 1
                        seen_it = (b.path, i) in visited
                        chk.ob('C03.G3', 'ok-exit-explored', seen_it, b.where(i),
                               'an Ok(..) exit at %s is %s' % (b.where(i), 'covered by the guard table' if seen_it else
                                                                'NOT reachable within one loop iteration: an Ok exit after the retry loop '
                                                                'serves data without any of the documented guards'))
                    elif vn == 'Err':
                        n_err_sites += 1
    chk.ob('C03.G3', 'exits:ok-or-err-only', n_ok_sites >= 1 and n_err_sites >= 1, r.body.where(0),
           '%d Ok exit sites, %d Err exit sites (snapshot and the helpers it inlines)' % (n_ok_sites, n_err_sites), nontrivial=False)
    from .. import core as _core
    if not isinstance(ctx, _core.FixtureCtx) and not getattr(chk, '_nested', False):
        from . import C11
        sub = type(chk)('C03', LEVEL, chk.tier)
        sub._nested = True
        sub._is_control = True
        C11.run_rules(ctx, sub)
        for o in sub.obs:
            if o['rule'] in ('C11.P1', 'C11.P2', 'C11.P3') and o['nontrivial']:
                chk.ob('C03.G5', '%s:%s' % (o['rule'], o['key']), o['ok'], o['where'],
                       'a completed publication must leave an even, non-zero, changed generation or readers keep serving their cache: ' + o['detail'])
        # ... and a restarted daemon must continue the generation sequence of a segment readers may still have mapped:
        # re-creating a usable segment (including one left mid-update) restarts it at 0, so a later publication can
        # coincide with a generation a reader has cached (C04.T1)
        from . import C04
        sub = type(chk)('C03', LEVEL, chk.tier)
        sub._nested = True
        sub._is_control = True
        C04.run(ctx, sub)
        n6 = 0
        for o in sub.obs:
            if o['rule'] == 'C04.T1' and o['nontrivial']:
                n6 += 1
                chk.ob('C03.G6', '%s:%s' % (o['rule'], o['key']), o['ok'], o['where'],
                       'a restarted daemon keeps the generation sequence of a usable segment: ' + o['detail'])
            elif o['rule'] == 'C04.T2' and o['key'].startswith('new:file-mutator') and not o['ok']:
                # a file operation the start-up analysis does not account for (rename, unlink, link ...): a segment replaced
                # by a *different file* leaves every attached reader on the old one, where no publication ever arrives
                chk.ob('C03.G6', '%s:%s' % (o['rule'], o['key']), False, o['where'],
                       'attached readers must see the publications of a restarted daemon (the segment is re-initialised in '
                       'place, same file): ' + o['detail'])
        chk.floor('C03.G6', 'restart obligations', n6, 2)
    for need in ('version==0', 'generation==0', 'generation==cached', 'generation odd'):
        chk.ob('C03.G1', 'reason-present:%s' % need, need in reasons_seen, r.body.where(0),
               'an early exit for "%s" %s' % (need, 'exists' if need in reasons_seen else 'is MISSING (the reader would wait on / mis-handle this state)'),
               nontrivial=False)
    chk.floor('C03.G3', 'accept sites', n_accept, 1)
    # ---- G7 the give-up exit: when the retry budget runs out (the writer stalled or died mid-update) the call fails and leaves
    # the cache as it was -- the next call, finding the generation still odd, serves the record the reader already returned,
    # not an empty one. The budget is a constant, so the exit is reached only with the loop-carried locals forgotten.
    n7 = 0
    # (the loop may sit in a private helper of snapshot(): every shm function on its call paths that has a loop is explored
    # as a root of its own, its loop-carried locals forgotten)
    roots7 = [r.body] + [b7 for b7 in {x.path: x for x, _, _, _ in common.reachable_calls(fb, r.body)}.values()
                         if b7.crate.name == common.SHM and b7.path != r.body.path and b7.defkind != 'Closure' and b7.back_edges()]
    for root7 in roots7[:1]:
        eng7 = common.mk_engine(fb, havoc_loops=True)
        eng7.havoc_inner = True          # (the retry loop may sit in a helper snapshot() calls: forget its loop state as well)
        for p in eng7.run(root7):
            if p.kind != 'return' or not (p.value[0] == 'agg' and p.value[2] == 'Err'):
                continue
            stores = {k: v for k, v in r.self_stores(p).items() if r.is_cache_field(k) or r.is_cache_field(k.split('.')[-1])}
            n7 += 1
            chk.ob('C03.G7', 'give-up-exit:no-cached-state-change', not stores, p.where[2],
                   'the exit taken when the retries are used up assigns %s' % (sorted(stores) or 'no cache field'))
    chk.analysed['paths'] += n7
    chk.floor('C03.G7', 'error exits of snapshot() reached with the loop state forgotten', n7, 1)


def _was_first(fr, key, first, r):
    """the local is the one the first generation load was assigned to (found from any early path)"""
    local = key[0][2]
    name = fr.body.debug_names.get(local)
    if name is None:
        return False
    # the variable compared in the accept test: its debug name holds `first` on paths without adoption
    for p in r.paths:
        for k, v in p.state.store.items():
            if k[0][0] == 'L' and k[0][2] == local and not k[1] and v == first:
                return True
    return False


CONTROLS = [('C03.G1', 'cache-exit:UNGUARDED'), ('C03.G3', 'ok-exit-explored'), ('C03.G4', 'retry:adopts-only-even')]


def run(ctx, chk):
    """the rules on /repo, then the positive controls: the same rules must fire on fixtures/shm_broken"""
    import sys
    from .. import core
    run_rules(ctx, chk)
    if not getattr(chk, '_is_control', False) and not isinstance(ctx, core.FixtureCtx) and not chk.suffix:
        core.run_controls(chk, sys.modules[__name__], 'shm_broken', CONTROLS)
