"""C10 Only a fresh, well-formed report counts as synchronised: the classification of a
tracking report is extracted by PSI from the daemon's data-message handling and evaluated
for all 65 536 leap-status values x {reference time in the future} x {stale}."""
from .. import psi, arith
from ..psi import fmt, T
from . import common
from .updater_model import UpdaterModel

LEVEL = 'proof'


def oracle(leap, future, stale):
    if future:
        return 'Unknown'
    if leap in (0, 1, 2):
        return 'FreeRunning' if stale else 'Synchronized'
    if leap == 3:
        return 'FreeRunning'
    return 'Unknown'


def classify_atoms(info):
    """split the conditions of a data-message path into: conds on the leap-status leaf,
    the `future` atom, the `stale` atom, the rest"""
    leap_leaf = None
    leap_conds, future, stale, stale_term, rest = [], None, None, None, []
    for c in info['path'].conds:
        term, op, val, _ = c
        ft = fmt(term)
        leafs = [x for x in psi.walk(term) if x[0] == 't' and x[1] == 'field' and x[2][1] == 'leap_status']
        if leafs:
            leap_leaf = leafs[0]
            leap_conds.append(c)
            continue
        if term[0] == 't' and term[1] == 'discr' and term[2][0][0] == 't' and term[2][0][1] == 'systime_elapsed':
            future = (op == '==' and val == 1) or (op == '!=' and 0 in val)
            continue
        if term[0] == 't' and term[1] in ('gt', 'ge', 'lt', 'le') and 'systime_elapsed' in ft:
            truth = (op == '!=' and set(val) == {0}) or (op == '==' and val == 1)
            # normalise to "elapsed > threshold"
            a, b = term[2]
            if 'systime_elapsed' in fmt(a):
                older = truth if term[1] in ('gt', 'ge') else not truth
                thr, el = b, a
            else:
                older = truth if term[1] in ('lt', 'le') else not truth
                thr, el = a, b
            stale = older
            stale_term = (el, thr)
            continue
        # the same comparison made through `a.cmp(&b)` and a match on the Ordering (Less = -1, Equal = 0, Greater = 1)
        if term[0] == 't' and term[1] == 'discr' and term[2][0][0] == 't' and term[2][0][1] == 'ts_cmp' and 'systime_elapsed' in ft:
            a, b = term[2][0][2]
            flip = 'systime_elapsed' in fmt(b)
            if flip:
                a, b = b, a

            def sgn(x):
                return x - 256 if 127 < x < 256 else x - (1 << 64) if x >= (1 << 63) else x
            poss = {sgn(val)} if op == '==' else {-1, 0, 1} - {sgn(x) for x in val}
            if flip:
                poss = {-x for x in poss}
            if poss == {1}:
                stale, stale_term = True, (a, b)
                continue
            if poss and 1 not in poss:
                stale, stale_term = False, (a, b)
                continue
        rest.append(c)
    if stale is None:
        # the comparison spelled on the parts of the elapsed time (`e.as_secs() > t || (e.as_secs() == t && e.subsec_nanos()
        # > 0)`): decided by evaluation. E = the elapsed time, t = the one other quantity these conditions mention; the path
        # is "stale" when its conditions hold exactly for E > t seconds at every probe around the boundary.
        parts = [c for c in rest if any(x[0] == 't' and x[1] in ('dur_as_secs', 'dur_subsec_nanos') and 'systime_elapsed' in fmt(x) for x in psi.walk(c[0]))]
        if parts:
            els = {x[2][0] for c in parts for x in psi.walk(c[0]) if x[0] == 't' and x[1] in ('dur_as_secs', 'dur_subsec_nanos')}
            thrs = set()
            for c in parts:
                if c[0][0] == 't' and len(c[0][2]) == 2:
                    for side in c[0][2]:
                        if isinstance(side, tuple) and 'systime_elapsed' not in fmt(side) and arith.const_num(side) is None:
                            thrs.add(side)
            if len(els) == 1 and len(thrs) == 1:
                el, thr = els.pop(), thrs.pop()
                verdicts = set()
                for t_ in (0, 3, 8000):
                    for d_ in (-10**9, -1, 0, 1, 10**9 - 1, 10**9, 10**9 + 1):
                        e_ = t_ * 10**9 + d_
                        if e_ < 0:
                            continue
                        env = {el: e_, thr: t_}
                        hs = [arith.cond_holds(c, env) for c in parts]
                        if any(h is None for h in hs):
                            verdicts.add('?')
                        elif all(hs):
                            verdicts.add(e_ > t_ * 10**9)
                if verdicts == {True} or verdicts == {False}:
                    stale = verdicts.pop()
                    stale_term = (el, T('dur_from_secs', thr))
                    rest = [c for c in rest if c not in parts]
    return leap_leaf, leap_conds, future, stale, stale_term, rest


def run(ctx, chk):
    fb = ctx.facts()
    chk.explanation = ('Classification table of a tracking report (leap status x reference time in the future x older than '
                       '8 update intervals), extracted from the data-message paths of the writer dispatch loop (classifier '
                       'inlined) and evaluated exhaustively over all 65 536 leap-status values; staleness atom canonicalised: '
                       'elapsed(ref_time) vs 8 x last_update_interval of the same report.')
    chk.exhaustive = True
    m = UpdaterModel(fb, chk, 'C10.L1')
    if not m.ok:
        return
    data = [i for i in m.infos if i['msg_name'] == 'ClockErrorBoundData']
    chk.floor('C10.L4', 'data-message paths', len(data), 1)
    rows = []
    for i in data:
        leaf, lconds, future, stale, sterm, rest = classify_atoms(i)
        status = i['applied'][0] if len(i['applied']) == 1 else None
        rows.append((i, leaf, lconds, future, stale, sterm, status))
        if status is None:
            chk.ob('C10.L4', 'data:one-classification-per-report', False, i['path'].where[2],
                   'a data-message path applies %s statuses to the FSM' % i['applied'])
    where = m.dispatch.where(0)
    # ---- L2: staleness atom
    seen_stale = False
    for i, leaf, lconds, future, stale, sterm, status in rows:
        if sterm is None:
            continue
        seen_stale = True
        el, thr = sterm
        ref_ok = el[0] == 't' and 'ref_time' in fmt(el)
        c, factors = arith.monomial(strip_dur(thr))
        f_ok = len(factors) == 1 and fmt(arith.strip_casts(factors[0])).endswith('last_update_interval')
        same_report = ref_ok and f_ok and root_of(el) == root_of(factors[0])
        chk.ob('C10.L2', 'stale:multiplier-8', abs(c - 8.0) < 1e-9 and f_ok, i['path'].where[2],
               'staleness threshold = %g x %s' % (c, [fmt(f)[-60:] for f in factors]))
        chk.ob('C10.L2', 'stale:own-fields', same_report, i['path'].where[2],
               'staleness compares elapsed(%s) with the interval of %s' % (fmt(el)[-50:], fmt(factors[0])[-50:] if factors else None))
    chk.ob('C10.L2', 'stale:atom-present', seen_stale, where, 'a staleness comparison exists on the data paths', nontrivial=False)
    # ---- L1/L3/L4: exhaustive evaluation
    table = {}
    bad = {}
    n_eval = 0
    for leap in range(65536):
        for future in (False, True):
            for stale in (False, True):
                want = oracle(leap, future, stale)
                got = set()
                for i, leaf, lconds, pfut, pstale, sterm, status in rows:
                    if pfut is not None and pfut != future:
                        continue
                    if pstale is not None and pstale != stale:
                        continue
                    if leaf is not None:
                        env = {leaf: leap}
                        ok = True
                        for c in lconds:
                            h = arith.cond_holds(c, env)
                            if h is None:
                                bad[('uneval', fmt(c[0])[:80])] = c
                                ok = False
                                break
                            if not h:
                                ok = False
                                break
                        if not ok:
                            continue
                    got.add(status)
                n_eval += 1
                cls = 'leap0-2' if leap <= 2 else 'leap3' if leap == 3 else 'leap>=4'
                key = (cls, future, stale)
                table.setdefault(key, set()).update(got)
                if got != {want}:
                    bad.setdefault(('row', cls, future, stale, want), (leap, sorted(map(str, got))))
    chk.analysed['call_sites'] += n_eval
    for k, v in bad.items():
        if k[0] == 'uneval':
            chk.ob('C10.L1', 'leap:atom-not-evaluable', False, where, 'cannot evaluate leap-status atom %s' % k[1])
        else:
            _, cls, fut, st, want = k
            rule = 'C10.L3' if fut else 'C10.L1' if not st and cls != 'leap0-2' else 'C10.L4'
            chk.ob(rule, 'table:%s/future=%s/stale=%s' % (cls, fut, st), False, where,
                   'e.g. leap status %d: classified %s, oracle %s' % (v[0], v[1], want))
    for (cls, fut, st), got in sorted(table.items()):
        want = oracle({'leap0-2': 1, 'leap3': 3, 'leap>=4': 4}[cls], fut, st)
        rule = 'C10.L3' if fut else 'C10.L4'
        chk.ob(rule, 'table:%s/future=%s/stale=%s' % (cls, fut, st), got == {want}, where,
               '%s, ref time in future=%s, stale=%s -> %s (oracle %s) for every leap value of the class' %
               (cls, fut, st, sorted(map(str, got)), want))
    chk.tables['classification'] = {'%s/future=%s/stale=%s' % k: sorted(map(str, v)) for k, v in sorted(table.items())}
    chk.tables['evaluations'] = n_eval
    # ---- L1 separately on the From<u16> impl if it exists (named anchor from the property)
    conv = [b for b in fb.bodies(common.DAEMON) if b.name == 'from' and (b.impl_self or '').endswith('ChronyClockStatus')]
    for b in conv:
        chk.saw(b)
        eng = common.mk_engine(fb)
        ps = [p for p in eng.run(b) if p.kind == 'return']
        leaf = ('sym', b.debug_names.get(1, 'arg1'))
        wrong = None
        for leap in range(65536):
            got = set()
            for p in ps:
                if all(arith.cond_holds(c, {leaf: leap}) for c in p.conds):
                    got.add(p.value[2] if p.value[0] == 'agg' else fmt(p.value))
            want = oracle(leap, False, False)
            if got != {want} and wrong is None:
                wrong = (leap, sorted(got), want)
        chk.ob('C10.L1', 'from-u16:all-65536', wrong is None, b.where(0),
               'From<u16>: every leap value maps as specified' if wrong is None else
               'leap status %d -> %s, oracle %s' % wrong)


def strip_dur(v):
    """Duration::from_secs(x as u64) -> x"""
    while v[0] == 't' and (v[1] in ('dur_from_secs', 'dur_from_secs_f64', 'cast', 'conv') or
                           (v[1] == 'dur_new' and psi.is_int_const(v[2][1]) and v[2][1][1] == 0)):   # Duration::new(secs, 0)
        v = v[2][0]
    return v


def root_of(v):
    """the value a field chain is rooted in"""
    v = arith.strip_casts(v)
    while v[0] == 't' and v[1] in ('field', 'as', 'deref', 'systime_elapsed', 'conv', 'cast'):
        if v[1] == 'field' and v[2][1] in ('ref_time', 'last_update_interval'):
            return v[2][0]
        v = v[2][0]
    return v
