"""Helpers shared by the rule modules: engine construction, anchors found semantically,
linear normal form of time comparisons, clock-read leaves."""
from .. import mir, psi
from ..psi import T, C, fmt
from ..summaries import SUMMARIES, TIMESPEC, LIBC_TIMESPEC

# Linux ABI clock ids (libc 0.2, x86_64/aarch64 linux): part of the pinned summaries
CLOCK_REALTIME = 0
MONOTONIC_FAMILY = {1: 'CLOCK_MONOTONIC', 4: 'CLOCK_MONOTONIC_RAW', 6: 'CLOCK_MONOTONIC_COARSE', 7: 'CLOCK_BOOTTIME'}

SHM = 'clock_bound_shm'
DAEMON = 'clock_bound_d'
CLIENT = 'clock_bound_client'
FFI = 'clockbound'


def calls_path(body, needle):
    for _, t, fn in body.calls():
        if fn and (needle in (fn['path'],) or fn['path'].endswith(needle)):
            return True
    return False


def is_clock_reader(body):
    """a body that directly calls libc's clock_gettime"""
    for _, t, fn in body.calls():
        if fn and fn.get('name') == 'clock_gettime' and fn.get('crate') in ('libc', 'nix'):
            return True
    return False


CLOCK_READERS = set()       # paths of the workspace functions that wrap libc::clock_gettime (kept opaque by mk_engine)


def is_clock_read(name):
    """is the callee a clock read: libc's clock_gettime itself or one of the workspace wrappers around it?"""
    return name in CLOCK_READERS or name.split('::')[-1] == 'clock_gettime' or 'clock_gettime' in name.split('::')[-1]


def mk_engine(fb, inline_depth=6, no_inline=None, **kw):
    if not CLOCK_READERS or _ANCHORS.get('clock_fb') is not fb:
        _ANCHORS['clock_fb'] = fb
        CLOCK_READERS.clear()
        CLOCK_READERS.update(b.path for b in fb.bodies() if is_clock_reader(b))

    def flt(b):
        if is_clock_reader(b):
            return False
        if no_inline and no_inline(b):
            return False
        return True
    # a private trait of the analysed crate with a single implementation in the shipped build is looked through
    kw.setdefault('unique_impls', True)
    return psi.Engine(fb, inline_depth=inline_depth, summaries=SUMMARIES, inline_filter=flt, **kw)


def _op_locals(o):
    if isinstance(o, dict):
        if o.get('k') in ('copy', 'move') and 'p' in o:
            yield o['p']['l']
        elif 'p' in o and isinstance(o['p'], dict) and 'l' in o['p']:
            yield o['p']['l']
        for k, v in o.items():
            if k != 'p' and isinstance(v, (dict, list)):
                for x in _op_locals(v):
                    yield x
    elif isinstance(o, list):
        for e in o:
            for x in _op_locals(e):
                yield x


def local_flow(body, sources):
    """flow-insensitive forward taint over the locals of one MIR body: a local is reached when it is assigned from / returned
    by a call on / mutated through a `&mut` by a call on a reached local.  Returns the set of reached locals."""
    borrows = {}        # ref local -> borrowed local
    for b in body.blocks:
        for st in b['stmts']:
            if st['k'] == 'assign' and st['r'].get('k') in ('ref', 'rawptr') and not st['p']['proj']:
                borrows[st['p']['l']] = st['r']['p']['l']
    reached = set(sources)
    changed = True
    while changed:
        changed = False
        for b in body.blocks:
            for st in b['stmts']:
                if st['k'] != 'assign':
                    continue
                if any(l in reached for l in _op_locals(st['r'])) and st['p']['l'] not in reached:
                    reached.add(st['p']['l'])
                    changed = True
            t = b['term']
            if t['k'] == 'call':
                ls = [l for a in t['args'] for l in _op_locals(a)]
                if any(l in reached for l in ls):
                    new = {t['dest']['l']} | {borrows[l] for l in ls if l in borrows}
                    if not new <= reached:
                        reached |= new
                        changed = True
    return reached


def run_unrolled(fb, body, unroll=8, **kw):
    """paths of `body` with loops unrolled up to `unroll` times (a loop over a small constant table is then fully explored);
    when that explodes (an unbounded retry loop somewhere below), fall back to cutting every loop at its back edge.
    Returns (engine, paths)."""
    eng = mk_engine(fb, loop_unroll=unroll, **kw)
    try:
        return eng, eng.run(body)
    except psi.PathLimit:
        eng = mk_engine(fb, loop_unroll=0, **kw)
        return eng, eng.run(body)


def clock_read_id(v):
    """if v is the Ok payload (or the raw result) of a call to a clock-reading wrapper,
    return (clock id constant or None, call term)"""
    if v[0] == 't' and v[1] == 'payload' and v[2][1] == 'Ok':
        v = v[2][0]
    if v[0] == 't' and v[1] == 'as' and v[2][1] == 'Ok':
        v = v[2][0]
    if v[0] == 't' and v[1] == 'field' and v[2][0][0] == 't' and v[2][0][1] == 'as':
        inner = v[2][0][2][0]
        v = inner
    if v[0] == 't' and v[1] == 'call':
        name = v[2][0]
        if is_clock_read(name):
            args = v[2][2:]
            if args and psi.is_int_const(args[0]):
                return args[0][1], v
            return None, v
    return None


class Lin:
    """linear form sum(coeff * leaf) + const, in nanoseconds for time values"""

    def __init__(self, terms=None, const=0):
        self.terms = {k: v for k, v in (terms or {}).items() if v != 0}
        self.const = const

    def __add__(self, o):
        t = dict(self.terms)
        for k, v in o.terms.items():
            t[k] = t.get(k, 0) + v
        return Lin(t, self.const + o.const)

    def __sub__(self, o):
        return self + o.scale(-1)

    def scale(self, k):
        return Lin({a: b * k for a, b in self.terms.items()}, self.const * k)

    def key(self):
        return tuple(sorted((fmt(k), v) for k, v in self.terms.items()))

    def __repr__(self):
        parts = ['%+g*%s' % (v, fmt(k)) for k, v in sorted(self.terms.items(), key=lambda kv: fmt(kv[0]))]
        return ' '.join(parts) + (' %+d' % self.const if self.const or not parts else '')


def lin_time(v):
    """linear form (ns) of a TimeSpec / timespec / Duration valued term, or None"""
    k = v[0]
    if k == 'agg':
        if v[1] == TIMESPEC and len(v[3]) == 1:
            return lin_time(v[3][0])
        if v[1].endswith('timespec') and len(v[3]) == 2:
            s, ns = v[3]
            if psi.is_int_const(s) and psi.is_int_const(ns):
                return Lin({}, s[1] * 1_000_000_000 + ns[1])
            return None
        if v[1] == 'std::time::Duration' and len(v[3]) == 2 and psi.is_int_const(v[3][0]):
            ns = v[3][1]
            while ns[0] == 'agg' and len(ns[3]) == 1:
                ns = ns[3][0]
            if psi.is_int_const(ns):
                return Lin({}, v[3][0][1] * 1_000_000_000 + ns[1])
            if ns[0] == 'c' and isinstance(ns[1], tuple) and ns[1][0] == 'b':
                return Lin({}, v[3][0][1] * 1_000_000_000 + int.from_bytes(bytes.fromhex(ns[1][1]), 'little'))
            return None
    if k == 't':
        op, a = v[1], v[2]
        if op == 'ts_add':
            x, y = lin_time(a[0]), lin_time(a[1])
            return x + y if x is not None and y is not None else None
        if op == 'ts_sub':
            x, y = lin_time(a[0]), lin_time(a[1])
            return x - y if x is not None and y is not None else None
        if op == 'ts_nanoseconds' and psi.is_int_const(a[0]):
            return Lin({}, a[0][1])
        if op == 'ts_seconds' and psi.is_int_const(a[0]):
            return Lin({}, a[0][1] * 1_000_000_000)
        if op == 'ts_milliseconds' and psi.is_int_const(a[0]):
            return Lin({}, a[0][1] * 1_000_000)
        if op == 'ts_microseconds' and psi.is_int_const(a[0]):
            return Lin({}, a[0][1] * 1_000)
        if op == 'ts_from_duration':
            return lin_time(a[0])
        if op == 'dur_new' and psi.is_int_const(a[0]) and psi.is_int_const(a[1]):
            return Lin({}, a[0][1] * 1_000_000_000 + a[1][1])
        if op == 'dur_from_nanos' and psi.is_int_const(a[0]):
            return Lin({}, a[0][1])
        if op == 'dur_from_micros' and psi.is_int_const(a[0]):
            return Lin({}, a[0][1] * 1_000)
        if op == 'dur_from_secs' and psi.is_int_const(a[0]):
            return Lin({}, a[0][1] * 1_000_000_000)
        if op == 'dur_from_millis' and psi.is_int_const(a[0]):
            return Lin({}, a[0][1] * 1_000_000)
    if k == 'c' and isinstance(v[1], int):
        return Lin({}, v[1])
    return Lin({v: 1}, 0)


CMP = {'lt', 'le', 'gt', 'ge', 'Lt', 'Le', 'Gt', 'Ge'}


def time_atom(cond):
    """canonicalise a path condition on a time comparison to (Lin expr, rel) meaning
    `expr rel 0` with rel in {'<', '<='}; returns None if cond is not a comparison"""
    term, op, val, _site = cond
    truth = None
    if op == '==' and val in (0, 1):
        truth = bool(val)
    elif op == '!=' and set(val) == {0}:
        truth = True
    elif op == '!=' and set(val) == {1}:
        truth = False
    if truth is None:
        return None
    while term[0] == 't' and term[1] == 'Not' and len(term[2]) == 1:      # !(a < b) taken  ==  a < b not taken
        term = term[2][0]
        truth = not truth
    if term[0] != 't' or term[1] not in CMP:
        return None
    a, b = lin_time(term[2][0]), lin_time(term[2][1])
    if a is None or b is None:
        return None
    rel = term[1].lower()
    # a rel b  -> (a-b) rel 0
    d = a - b
    if not truth:
        rel = {'lt': 'ge', 'le': 'gt', 'gt': 'le', 'ge': 'lt'}[rel]
    if rel == 'lt':
        return d, '<'
    if rel == 'le':
        return d, '<='
    if rel == 'gt':
        return d.scale(-1), '<'
    return d.scale(-1), '<='


def time_atoms(cond):
    """all canonical atoms a path condition contributes: a comparison (time_atom) or a branch on the Ordering returned
    by `a.cmp(&b)` (Less = -1, Equal = 0, Greater = 1)"""
    a1 = time_atom(cond)
    if a1 is not None:
        return [a1]
    term, op, val, _site = cond
    if not (term[0] == 't' and term[1] == 'discr' and term[2][0][0] == 't' and term[2][0][1] == 'ts_cmp'):
        return []
    a, b = lin_time(term[2][0][2][0]), lin_time(term[2][0][2][1])
    if a is None or b is None:
        return []

    def sgn(x):
        return x - (1 << (x.bit_length() + (8 - x.bit_length() % 8) % 8)) if x > 127 else x
    if op == '==':
        poss = {sgn(val)}
    else:
        poss = {-1, 0, 1} - {sgn(x) for x in val}
    d = a - b
    if poss == {-1}:
        return [(d, '<')]
    if poss == {1}:
        return [(d.scale(-1), '<')]
    if poss == {0}:
        return [(d, '<='), (d.scale(-1), '<=')]
    if poss == {-1, 0}:
        return [(d, '<=')]
    if poss == {0, 1}:
        return [(d.scale(-1), '<=')]
    return []


NEG = {'lt': 'ge', 'le': 'gt', 'gt': 'le', 'ge': 'lt', 'eq': 'ne', 'ne': 'eq'}
FLIP = {'lt': 'gt', 'le': 'ge', 'gt': 'lt', 'ge': 'le', 'eq': 'eq', 'ne': 'ne'}


def cmp_norm(v):
    """(op, a, b) with op in lt/le/gt/ge/eq/ne for a comparison term, looking through Not(..)
    (negating) and lower/upper-case spellings; None if v is not a comparison"""
    neg = False
    while v[0] == 't' and v[1] == 'Not' and len(v[2]) == 1:
        neg = not neg
        v = v[2][0]
    if v[0] != 't' or v[1].lower() not in NEG or len(v[2]) != 2:
        return None
    op = v[1].lower()
    if neg:
        op = NEG[op]
    return op, v[2][0], v[2][1]


def cond_truth(op, val):
    if op == '!=' and set(val) == {0}:
        return True
    if op == '==' and val in (0, 1):
        return bool(val)
    return None


def known_equal(conds):
    """pairs (a, b) a path's conditions establish as equal: `a == b` taken, `a != b` not taken, through Not(..)"""
    out = []
    for term, op, val, _ in conds:
        n = cmp_norm(term)
        t = cond_truth(op, val)
        if n is None or t is None:
            continue
        cop, a, b = n
        if (cop == 'eq' and t) or (cop == 'ne' and not t):
            out.append((a, b))
    return out


def cmp_const_right(v):
    """(op, x, c) with the integer constant on the right-hand side, or None"""
    from .. import arith
    n = cmp_norm(v)
    if n is None:
        return None
    op, a, b = n
    ca, cb = arith.const_num(arith.strip_casts(a)), arith.const_num(arith.strip_casts(b))
    if cb is not None and ca is None:
        return op, a, cb
    if ca is not None and cb is None:
        return FLIP[op], b, ca
    return None


def unsigned_ge(op, c):
    """for an unsigned x: does `x op c` mean x >= k?  returns (k, truth) meaning the comparison is
    equivalent to (x >= k) == truth, or None"""
    if op == 'ge':
        return c, True
    if op == 'gt':
        return c + 1, True
    if op == 'lt':
        return c, False
    if op == 'le':
        return c + 1, False
    if op == 'ne' and c == 0:
        return 1, True
    if op == 'eq' and c == 0:
        return 1, False
    return None


INF = float('inf')


def interval_of(atoms, unit):
    """atoms: list of (Lin, rel). unit: dict leaf->coeff describing a quantity q = sum coeff*leaf.
    returns integer interval [lo, hi] (inclusive) that the atoms about q allow, and the
    list of atoms not about q"""
    lo, hi = -INF, INF
    rest = []
    ukey = Lin(unit).key()
    nkey = Lin(unit).scale(-1).key()
    for e, rel in atoms:
        if e.key() == ukey:      # q + c rel 0  -> q <(=) -c
            bound = -e.const - (1 if rel == '<' else 0)
            hi = min(hi, bound)
        elif e.key() == nkey:    # -q + c rel 0 -> q >(=) c
            bound = e.const + (1 if rel == '<' else 0)
            lo = max(lo, bound)
        else:
            rest.append((e, rel))
    return lo, hi, rest


def enum_variant_by_discr(fb, tystr_suffix, n):
    for c in fb.crates:
        for k, a in c.adts.items():
            if k.endswith(tystr_suffix) and a['kind'] == 'enum':
                for v in a['variants']:
                    if v.get('discr', v['index']) == n:
                        return v['name']
    return None


def status_of(fb, v, conds, enum_suffix='ClockStatus'):
    """resolve a status value to a variant name: constant variant, or a stored field whose
    discriminant the path has pinned"""
    if v[0] == 'agg' and v[2] is not None:
        return v[2]
    d = T('discr', v)
    for term, op, val, _ in conds:
        if term == d and op == '==':
            return enum_variant_by_discr(fb, enum_suffix, val)
    return None


_IMPLS = [None, None]


def impls_of(fb, fn):
    """workspace implementations a call to a trait method on a type parameter / trait object can dispatch to
    (class-hierarchy resolution: every impl of that trait method)"""
    if _IMPLS[0] is not fb:
        idx = {}
        for b in fb.bodies():
            if b.impl_trait and b.defkind != 'Closure' and not b.impl_trait.startswith(('std::', 'core::', 'alloc::')):
                idx.setdefault((b.impl_trait.split('<')[0], b.name), []).append(b)
        _IMPLS[0], _IMPLS[1] = fb, idx
    path = fn.get('path') or ''
    if '::' not in path:
        return []
    tr, meth = path.rsplit('::', 1)
    return _IMPLS[1].get((tr.split('<')[0], meth), [])


def concrete_type_args(fb, body, name, depth=0):
    """the concrete types a type parameter `name` of the generic function `body` is instantiated with at its call sites
    in the workspace (followed through generic callers)"""
    out = set()
    gens = list(getattr(body, 'generics', None) or [])
    if name not in gens or depth > 4:
        return out
    ix = gens.index(name)
    for cb in fb.bodies():
        for bb, t, fn in cb.calls():
            if not fn or body.path not in {mir.callee_name(fn), fn['path']}:
                continue
            targs = ((fn.get('resolved') or {}).get('targs')) or fn.get('targs') or []
            if len(targs) != len(gens):
                continue
            tt = cb.crate.types[targs[ix]]
            if tt.get('k') == 'param':
                out |= concrete_type_args(fb, cb, tt['s'], depth + 1)
            else:
                out.add(tt['s'])
    return out


def callee_bodies(fb, fn):
    """bodies a call site can run: the resolved workspace function / closure, else every workspace impl of the trait method"""
    nm = mir.callee_name(fn)
    nb = fb.body(nm) or (fb.body(fn['path']) if fn.get('defkind') == 'Closure' else None)
    if nb is not None:
        if nb.provided_of and not fn.get('resolved') and nb.path == fn.get('path'):
            # a trait method with a default body, called on a type parameter / trait object: the overriding impls, and the
            # default itself (an implementor that does not override it inherits it)
            return impls_of(fb, fn) + [nb]
        return [nb]
    return impls_of(fb, fn)


def closure_args(fb, body, t):
    """bodies of the closures handed to this call (by value or by reference), read off the argument types"""
    out = []
    for a in t.get('args') or []:
        pl = a.get('p') if isinstance(a, dict) else None
        if not pl or 'ty' not in pl:
            continue
        ty = body.ty(pl['ty'])
        while ty.get('k') in ('ref', 'ptr') and 'inner' in ty:
            ty = body.ty(ty['inner'])
        if ty.get('k') == 'closure':
            nb = fb.body(ty['def'])
            if nb is not None:
                out.append(nb)
    return out


def reaches_call(fb, body, pred, seen=None, depth=0):
    """does `body`, directly or through workspace callees (and closures), call something
    whose declared or resolved path satisfies pred?"""
    seen = seen if seen is not None else set()
    if body.path in seen or depth > 6:
        return False
    seen.add(body.path)
    for bb, t, fn in user_calls(body):
        if not fn:
            continue
        nm = mir.callee_name(fn)
        if pred(fn['path']) or pred(nm):
            return True
        for nb in callee_bodies(fb, fn):
            if pred(nb.path) or reaches_call(fb, nb, pred, seen, depth + 1):
                return True
    # closures written in the body (run here, or handed to a helper / adaptor that runs them)
    for d in body.closures_built():
        nb = fb.body(d)
        if nb is not None and reaches_call(fb, nb, pred, seen, depth + 1):
            return True
    return False


def reachable_calls(fb, body, seen=None, depth=0, stop=None):
    """every (body, bb, terminator, fn) call site in `body` and the workspace functions it reaches (not descending into
    functions for which stop(body) holds)"""
    seen = seen if seen is not None else set()
    if body.path in seen or depth > 6 or (stop is not None and depth > 0 and stop(body)):
        return
    seen.add(body.path)
    for bb, t, fn in user_calls(body):
        if not fn:
            continue
        yield body, bb, t, fn
        for nb in callee_bodies(fb, fn):
            yield from reachable_calls(fb, nb, seen, depth + 1, stop)
    for d in body.closures_built():
        nb = fb.body(d)
        if nb is not None:
            yield from reachable_calls(fb, nb, seen, depth + 1, stop)


_ANCHORS = {}


def _memo(fb, key, fn):
    if _ANCHORS.get('fb') is not fb:
        _ANCHORS.clear()
        _ANCHORS['fb'] = fb
    if key not in _ANCHORS:
        _ANCHORS[key] = fn()
    return _ANCHORS[key]


def daemon_main(fb):
    ms = [b for b in fb.bodies() if b.name == 'main' and b.crate.kind == 'bin' and b.crate.name == 'clockbound']
    return ms[0] if ms else None


THREAD_SPAWNS = ('thread::spawn', 'thread::Builder::spawn', 'thread::Builder::spawn_unchecked', 'thread::builder::Builder::spawn',
                 'thread::builder::Builder::spawn_unchecked')


def is_thread_spawn(nm):
    """std::thread::spawn or the named-thread form std::thread::Builder::spawn (the closure is the last argument)"""
    return nm.endswith(THREAD_SPAWNS)


def thread_manager(fb):
    """the daemon function that spawns the worker threads (semantic anchor: calls std::thread::spawn, is reached from
    the binary's main), whatever module it lives in"""
    def find():
        is_spawn = is_thread_spawn
        mb = daemon_main(fb)
        if mb is not None:
            # the entry point main hands control to: a daemon-library function main calls that (transitively) spawns threads
            # (main may get there through helpers of its own crate: `main -> start(cli) -> thread_manager::run`)
            work, seen_ = [mb], {mb.path}
            while work:
                cur = work.pop(0)
                for _, _, fn in user_calls(cur):
                    nb = fb.body(mir.callee_name(fn)) if fn else None
                    if nb is None or nb.defkind == 'Closure' or nb.path in seen_:
                        continue
                    seen_.add(nb.path)
                    if nb.crate.name == DAEMON and reaches_call(fb, nb, is_spawn):
                        return nb
                    if nb.crate.name == mb.crate.name:
                        work.append(nb)
        cands = [b for b in fb.bodies(DAEMON) if b.defkind != 'Closure' and
                 any(fn and is_spawn(mir.callee_name(fn)) for _, _, fn in user_calls(b))]
        return cands[0] if cands else None
    return _memo(fb, 'thread_manager', find)


def manager_slot(fb, tmb, want):
    """where a configuration value enters the thread manager: (parameter index (0-based), projection) with `want(type string)`
    true either for a parameter itself or for a field (at most two levels deep) of a parameter that is a struct of the
    daemon crate -- a `DaemonConfig { max_drift_ppb, phc_info }` handed over as one argument carries the same two values.
    None when no slot or more than one candidate is found."""
    found = []

    def fields_of(tystr, crate):
        a = crate.adts.get(tystr)
        if not a or a.get('kind') != 'struct' or not tystr.startswith(DAEMON + '::'):
            return []
        return [(i, f['name'], crate.tystr(f['ty'])) for i, f in enumerate(a['variants'][0]['fields'])]
    for i in range(1, tmb.argc + 1):
        ts = tmb.tystr(tmb.locals[i]['ty'])
        if want(ts):
            found.append((i - 1, ()))
            continue
        for fi, fn, fts in fields_of(ts, tmb.crate):
            if want(fts):
                found.append((i - 1, (('f', fi, fn),)))
            else:
                for gi, gn, gts in fields_of(fts, tmb.crate):
                    if want(gts):
                        found.append((i - 1, (('f', fi, fn), ('f', gi, gn))))
    return found[0] if len(found) == 1 else None


def slot_types(fb, tmb, slot):
    """type strings of the struct(s) a slot's projection goes through (functions building them are configuration plumbing)"""
    out = []
    ts = tmb.tystr(tmb.locals[slot[0] + 1]['ty'])
    for e in slot[1]:
        out.append(ts)
        a = tmb.crate.adts.get(ts)
        ts = tmb.crate.tystr(a['variants'][0]['fields'][e[1]]['ty'])
    return out


def context_type(fb):
    """type string of the per-thread context: the daemon type whose Drop impl sends a message (the death notice)"""
    def find():
        for b in fb.bodies(DAEMON):
            if b.name == 'drop' and (b.impl_trait or '').endswith('Drop') and b.impl_self and \
                    reaches_call(fb, b, lambda nm: nm.endswith(('Sender::<T>::send', 'DispatchBox::<K, M>::send'))):
                return b.impl_self
        return None
    return _memo(fb, 'context_type', find)


def builds_variant(fb, body, adt_suffix, variant, depth=0, seen=None):
    """does `body` (or a closure / workspace function it reaches) construct the given enum variant?"""
    seen = seen if seen is not None else set()
    if body.path in seen or depth > 5:
        return False
    seen.add(body.path)
    for blk in body.blocks:
        for s in blk['stmts']:
            if s['k'] == 'assign' and s['r']['k'] == 'agg' and (s['r'].get('adt') or '').endswith(adt_suffix) and s['r'].get('vname') == variant:
                return True
    for b2 in fb.bodies(body.crate.name):
        if b2.defkind == 'Closure' and b2.path.startswith(body.path + '::{closure') and builds_variant(fb, b2, adt_suffix, variant, depth + 1, seen):
            return True
    for bb, t, fn in user_calls(body):
        nb = fb.body(mir.callee_name(fn)) if fn else None
        if nb is not None and builds_variant(fb, nb, adt_suffix, variant, depth + 1, seen):
            return True
    return False


def reaches_call_c(fb, body, pred):
    """reaches_call, also looking into the closures written inside `body` (they may only be handed to an adaptor)"""
    if reaches_call(fb, body, pred):
        return True
    return any(b2.defkind == 'Closure' and b2.path.startswith(body.path + '::{closure') and reaches_call(fb, b2, pred)
               for b2 in fb.bodies(body.crate.name))


def abort_broadcast(fb):
    """the daemon function that tells every other thread to stop: builds Message::ThreadAbort, reaches a send, and is
    called from the thread manager (the manager itself if the broadcast is written inline)"""
    def find():
        tm = thread_manager(fb)
        if tm is None:
            return None
        cands = []
        for bb, t, fn in user_calls(tm):
            nb = fb.body(mir.callee_name(fn)) if fn else None
            if nb is not None and nb.crate.name == DAEMON and builds_variant(fb, nb, 'Message', 'ThreadAbort') and \
                    reaches_call_c(fb, nb, lambda nm: nm.endswith(('Sender::<T>::send', 'DispatchBox::<K, M>::send'))):
                cands.append(nb)
        # the broadcast proper is the innermost such function: one that merely calls it (a `supervise` helper holding the
        # manager loop, a method of a supervisor struct) is part of the manager, not the broadcast
        def own(b):
            def here(x):
                return any(s_['k'] == 'assign' and s_['r']['k'] == 'agg' and (s_['r'].get('adt') or '').endswith('Message') and
                           s_['r'].get('vname') == 'ThreadAbort' for blk in x.blocks for s_ in blk['stmts'])
            return here(b) or any(here(c) for c in fb.bodies(b.crate.name) if c.defkind == 'Closure' and c.path.startswith(b.path + '::{closure'))
        for _ in range(4):
            if not cands or own(cands[0]):
                break
            inner = []
            for bb, t, fn in user_calls(cands[0]):
                nb = fb.body(mir.callee_name(fn)) if fn else None
                if nb is not None and nb.crate.name == DAEMON and nb.defkind != 'Closure' and builds_variant(fb, nb, 'Message', 'ThreadAbort') and \
                        reaches_call_c(fb, nb, lambda nm: nm.endswith(('Sender::<T>::send', 'DispatchBox::<K, M>::send'))):
                    inner.append(nb)
            if not inner:
                break
            cands = inner
        return cands[0] if cands else None
    return _memo(fb, 'abort_broadcast', find)


HDR_ROLE_AT = {0: 'magic', 8: 'segsize', 12: 'version', 14: 'generation'}          # docs/PROTOCOL.md offsets
REC_ROLE_AT = {0: 'as_of', 16: 'void_after', 32: 'bound_nsec', 40: 'max_drift_ppb', 44: 'reserved1', 48: 'clock_status'}


def abi_names(fb):
    """{'hdr': {role: field name}, 'rec': {role: field name}}: what the struct fields at the documented offsets are
    called in this tree (so rules name fields by their place in the published layout, not by identifier)"""
    def find():
        out = {'hdr': {}, 'rec': {}}
        for c in fb.crates:
            for k, a in c.adts.items():
                if 'size' not in a or not a.get('variants'):
                    continue
                which = 'hdr' if k.endswith('::ShmHeader') else 'rec' if (k.startswith('clock_bound_shm::') and k.endswith('::ClockErrorBound')) else None
                if which is None:
                    continue
                table = HDR_ROLE_AT if which == 'hdr' else REC_ROLE_AT
                for f in a['variants'][0]['fields']:
                    if f['offset'] in table:
                        out[which].setdefault(table[f['offset']], f['name'])
        for which, table in (('hdr', HDR_ROLE_AT), ('rec', REC_ROLE_AT)):
            for role in table.values():
                out[which].setdefault(role, role)
        return out
    return _memo(fb, 'abi_names', find)


def segment_paths_used(fb):
    """{crate: the absolute-path string constant that reaches ShmWriter::new (daemon) / new_with_path (Rust client)}"""
    def find():
        used = {}

        def path_constants(q, ef):
            out = set()
            work = list(ef['args'][:1]) + [x for x in (ef.get('pointees') or [])[:1] if x is not None]
            seen = set()
            for _ in range(100):
                if not work:
                    break
                v = work.pop()
                if v in seen:
                    continue
                seen.add(v)
                for x in psi.walk(v):
                    if x[0] == 'c' and isinstance(x[1], tuple) and x[1][0] == 's' and x[1][1].startswith('/'):
                        out.add(x[1][1].rstrip('\0'))
                    if x[0] == 't' and x[1] == 'call' and isinstance(x[2][1], int) and x[2][1] < len(q.effects) and q.effects[x[2][1]]['kind'] == 'call':
                        e2 = q.effects[x[2][1]]
                        work += list(e2['args']) + [y for y in (e2.get('pointees') or []) if y is not None]
            return out
        for crate, callee_suffix in ((DAEMON, 'ShmWriter::new'), (CLIENT, 'new_with_path')):
            for b in fb.bodies(crate):
                if b.defkind == 'Closure' or not reaches_call(fb, b, lambda nm, cs=callee_suffix: nm.endswith(cs)):
                    continue
                eng_w = mk_engine(fb, no_inline=lambda x, cr=crate, cs=callee_suffix: x.crate.name != cr or x.path.endswith(cs))
                for q in eng_w.run(b):
                    for ef in q.effects:
                        if ef['kind'] == 'call' and ef['callee'].endswith(callee_suffix):
                            for s_ in path_constants(q, ef):
                                used.setdefault(crate, set()).add(s_)
        if DAEMON not in used:
            # the daemon takes the path as a run-time value (a command-line option): its *default* is the absolute path
            # the option parser is given -- a string constant handed to a `default_value`-like call in the binary crate
            dm = daemon_main(fb)
            found = set()
            for b in (fb.bodies(dm.crate.name) if dm is not None else []):
                for bb, t, fn in b.calls():
                    if not fn or fn['path'].split('::')[-1] not in ('default_value', 'default_value_os', 'default_value_t', 'default_missing_value',
                                                                     'unwrap_or', 'unwrap_or_else', 'get_or_insert'):
                        continue
                    for a in t.get('args') or []:
                        if isinstance(a, dict) and a.get('k') == 'const' and isinstance(a.get('str'), str) and a['str'].startswith('/'):
                            found.add(a['str'].rstrip('\0'))
            if len(found) == 1:
                used[DAEMON] = found
        return {k: (sorted(v)[0] if len(v) == 1 else 'several: %s' % sorted(v)) for k, v in used.items()}
    return _memo(fb, 'segment_paths_used', find)


PTR_ADVANCE = ('::add', '::byte_add', '::offset', '::byte_offset', '::wrapping_add', '::wrapping_byte_add')


def type_size(crate, tix):
    """size in bytes of a type-table entry, or None"""
    t = crate.types[tix]
    k = t.get('k')
    if 'size' in t:
        return int(t['size'])
    if k in ('int', 'uint', 'float'):
        return t['bits'] // 8
    if k == 'bool':
        return 1
    if k in ('ptr', 'ref', 'fnptr'):
        return 8 if crate.types[t['inner']].get('k') not in ('slice', 'str', 'dyn') else 16 if 'inner' in t else 8
    if k == 'adt':
        a = crate.adts.get(t['s'])
        if a and 'size' in a:
            return int(a['size'])
    return None


def ptr_advance_bytes(fb, ef):
    """byte distance of a raw-pointer advance effect (`p.add(n)`, `p.byte_add(n)`, `p.offset(n)`): n x size_of(pointee)
    for the element-wise forms; None when it is not such a call or not constant"""
    nm = ef['callee']
    if not (nm.startswith('std::ptr::') and nm.endswith(PTR_ADVANCE)) or len(ef['args']) < 2 or not psi.is_int_const(ef['args'][1]):
        return None
    n = ef['args'][1][1]
    if 'byte' in nm.split('::')[-1]:
        return n
    body = fb.body(ef['site'][0])
    targs = (ef.get('fn') or {}).get('targs') or []
    if body is None or not targs:
        return None
    t = body.crate.types[targs[0]]
    if t.get('k') in ('int', 'uint'):
        return n * (t['bits'] // 8)
    if t.get('k') == 'bool':
        return n
    if t.get('k') == 'adt':
        a = body.crate.adts.get(t['s'])
        if a and 'size' in a:
            return n * int(a['size'])
    return None


_ERRV = {}


def opaque_error_variants(fb, name):
    """the discriminants of the Err payloads a workspace function kept opaque (a clock-read wrapper) can return, found by
    exploring its own body; None when they cannot be enumerated"""
    key = (id(fb), name)
    if key in _ERRV:
        return _ERRV[key]
    _ERRV[key] = None
    b = fb.body(name)
    if b is None:
        return None
    eng = psi.Engine(fb, inline_depth=4, summaries=SUMMARIES)
    out = set()
    try:
        for p in eng.run(b):
            if p.kind != 'return' or p.value[0] != 'agg':
                continue
            if p.value[2] == 'Err':
                ev = p.value[3][0]
                d = eng.discr_of(b.crate, ev) if ev[0] == 'agg' else None
                if d is None or not psi.is_int_const(d):
                    return None
                out.add(d[1])
    except psi.PathLimit:
        return None
    _ERRV[key] = out
    return out


def feasible_opaque_errors(fb, p):
    """False when the path assumes that an opaque workspace call returned an error variant its body never returns
    (e.g. a `From` conversion of the error forked over every variant of a private error enum)"""
    for term, op, val, _ in p.conds:
        if not (term[0] == 't' and term[1] == 'discr' and op == '=='):
            continue
        x = term[2][0]
        if x[0] == 't' and x[1] == 'field' and x[2][0][0] == 't' and x[2][0][1] == 'as' and x[2][0][2][1] == 'Err':
            c = x[2][0][2][0]
            if c[0] == 't' and c[1] == 'call' and fb.body(c[2][0]) is not None:
                vs = opaque_error_variants(fb, c[2][0])
                if vs is not None and val not in vs:
                    return False
    return True


def c_string_literals(v):
    """C-string literals (text including the trailing NUL) found in a term: `"open\\0"` string constants, `b"open\\0"`
    byte-string constants (a reference to constant bytes) and literal byte arrays"""
    out = []
    for y in psi.walk(v):
        if y[0] == 'c' and isinstance(y[1], tuple) and y[1][0] == 's' and y[1][1].endswith('\0'):
            out.append(y[1][1])
        elif y[0] == 'ref' and y[1][0][0] == 'K' and isinstance(y[1][0][1], str):
            try:
                raw = bytes.fromhex(y[1][0][1])
            except ValueError:
                continue
            if raw.endswith(b'\0') and 1 < len(raw) < 64:
                out.append(raw.decode('latin-1'))
        elif y[0] == 'agg' and y[2] is None and y[3] and all(psi.is_int_const(e) and 0 <= e[1] < 256 for e in y[3]) and y[3][-1][1] == 0 and 1 < len(y[3]) < 64:
            out.append(bytes(e[1] for e in y[3]).decode('latin-1'))
    return out


_CALLERS = [None, None]


def callers_map(fb):
    """{callee path: set of caller paths} over every crate; a closure counts as called by the function it is written in"""
    if _CALLERS[0] is fb:
        return _CALLERS[1]
    m = {}
    for b in fb.bodies():
        if b.defkind == 'Closure' and '::{closure' in b.path:
            m.setdefault(b.path, set()).add(b.path.split('::{closure')[0])
        for bb, t, fn in b.calls():
            if not fn:
                continue
            hit = False
            for nm in {mir.callee_name(fn), fn['path']}:
                if fb.body(nm) is not None and nm != b.path:
                    m.setdefault(nm, set()).add(b.path)
                    hit = True
            if not hit:
                for nb in impls_of(fb, fn):         # a trait method on a type parameter: every implementation may be the callee
                    if nb.path != b.path:
                        m.setdefault(nb.path, set()).add(b.path)
    _CALLERS[0], _CALLERS[1] = fb, m
    return m


def only_reached_from(fb, path, roots, _seen=None):
    """is the function `path` one of `roots`, or a helper every caller chain of which ends in one of them?
    (a function nobody calls is not: it could be called by anyone)"""
    if path in roots:
        return True
    seen = _seen if _seen is not None else set()
    if path in seen:
        return True
    seen.add(path)
    cs = callers_map(fb).get(path, set())
    if not cs:
        return False
    return all(only_reached_from(fb, c, roots, seen) for c in cs)


def user_calls(body):
    """call sites that are not part of a tracing/log expansion"""
    for bb, t, fn in body.calls():
        if mir.in_tracing(body.blocks[bb]['tspan']):
            continue
        yield bb, t, fn


LOG_ARG_SAFE_LAST = {
    'elapsed', 'now', 'clone', 'to_string', 'to_owned', 'deref', 'as_ref', 'as_str', 'as_path', 'display', 'len', 'is_empty',
    'as_secs', 'as_millis', 'as_micros', 'as_nanos', 'as_secs_f64', 'as_secs_f32', 'subsec_nanos', 'subsec_millis', 'subsec_micros',
    'is_some', 'is_none', 'is_ok', 'is_err', 'current', 'id', 'name', 'errno', 'kind', 'raw_os_error', 'tv_sec', 'tv_nsec',
    'fmt', 'borrow', 'to_str', 'to_string_lossy', 'as_bytes', 'into', 'from', 'default', 'iter', 'keys', 'values', 'get',
    'saturating_sub', 'saturating_add', 'checked_sub', 'checked_add', 'wrapping_sub', 'wrapping_add', 'abs', 'min', 'max',
    'saturating_duration_since', 'checked_duration_since', 'panicking', 'as_ptr', 'is_null', 'eq', 'ne', 'cmp', 'partial_cmp',
    'unwrap_or', 'unwrap_or_default', 'unwrap_or_else', 'map', 'map_or', 'map_or_else', 'ok', 'err', 'and_then', 'or_else', 'filter',
    'as_deref', 'copied', 'cloned', 'first', 'last', 'to_vec', 'collect', 'join', 'count', 'format', 'to_uppercase', 'to_lowercase',
    'trim', 'contains', 'starts_with', 'ends_with', 'lt', 'le', 'gt', 'ge', 'not', 'file_name', 'extension', 'parent', 'exists',
    'type_name', 'type_name_of_val', 'size_of', 'size_of_val', 'load', 'as_secs_f64', 'duration_since_epoch', 'description',
    'source', 'os_error', 'last_os_error', 'to_path_buf', 'into_iter', 'enumerate', 'zip', 'rev', 'take', 'skip', 'chars', 'bytes',
}


def _inert_fn(fb, b, depth=0, seen=None):
    """a workspace function that cannot panic and has no effect as far as its own text shows: no checked operation, and every
    call is to an inert std accessor or to another such function"""
    seen = seen or set()
    if depth > 3 or b.path in seen:
        return False
    seen = seen | {b.path}
    for bk in b.blocks:
        if bk['cleanup']:
            continue
        t = bk['term']
        if t['k'] == 'assert':
            return False
        if t['k'] == 'call':
            fn = t['func'].get('fn')
            if not fn:
                return False
            nm = mir.callee_name(fn)
            if mir.in_tracing(bk['tspan']) or nm.startswith(('tracing', 'log::', 'std::fmt', 'core::fmt')) or nm.split('::')[-1] in LOG_ARG_SAFE_LAST:
                continue
            nb = fb.body(nm)
            if nb is None or not _inert_fn(fb, nb, depth + 1, seen):
                return False
    return True


def log_argument_hazards(fb, body):
    """[(where, description)] for operations evaluated as *arguments of a tracing / log macro* in `body` that can panic or
    have an effect: such an operation runs only when the event's level is enabled (always, for error!/warn!/info! in the
    shipped build; never, for debug!/trace! with release_max_level_info), so it must be neither something the function's
    behaviour depends on nor something that can take the thread down.  Found as call / assert terminators with a plain
    (non-expansion) span inside the region a tracing expansion's level test guards."""
    out = []
    seen_regions = set()
    for i, blk in enumerate(body.blocks):
        t = blk['term']
        if blk['cleanup'] or t['k'] != 'switch' or not mir.in_tracing(blk['tspan']):
            continue
        ip = body.ipdom(i)
        if ip is None:
            continue
        region, work = set(), [x for _, x in body.succ_edges(i)]
        while work:
            x = work.pop()
            if x == ip or x in region or body.blocks[x]['cleanup']:
                continue
            region.add(x)
            work.extend(body.succs(x))
        for x in sorted(region):
            if x in seen_regions:
                continue
            seen_regions.add(x)
            b2 = body.blocks[x]
            sp = b2['tspan']
            if sp.get('exp'):
                continue            # part of the macro's own expansion (format_args!, the callsite machinery)
            t2 = b2['term']
            if t2['k'] == 'assert':
                out.append((body.where(x), 'a checked operation (%s) evaluated inside a log macro argument' % t2['msg']))
            elif t2['k'] == 'call':
                fn = t2['func'].get('fn')
                nm = mir.callee_name(fn) if fn else 'indirect call'
                last = nm.split('::')[-1]
                if nm.startswith(('tracing', 'log::', 'std::fmt', 'core::fmt')) or last in LOG_ARG_SAFE_LAST:
                    continue
                nb = fb.body(nm) if fn else None
                if nb is not None and _inert_fn(fb, nb):
                    continue        # a workspace accessor that itself only calls inert things and checks nothing
                out.append((body.where(x), 'the call %s made inside a log macro argument (it can panic or has an effect, and '
                            'runs only when that log level is enabled)' % nm))
    return out


def closure_of(fb, roots):
    """the workspace bodies reachable from `roots` (class-hierarchy resolution of trait calls, tracing expansions skipped)"""
    out = {}
    for r in roots:
        if r is None:
            continue
        out[r.path] = r
        for ob, bb, t, fn in reachable_calls(fb, r):
            out[ob.path] = ob
            for nb in callee_bodies(fb, fn):
                out[nb.path] = nb
    return [out[k] for k in sorted(out)]


def log_hazard_obligations(fb, chk, rule, roots, what):
    """`rule`: the arguments of log macros in everything reachable from `roots` are inert (log_argument_hazards)"""
    bodies = closure_of(fb, roots)
    n = 0
    for b in bodies:
        hz = log_argument_hazards(fb, b)
        n += 1
        for where, desc in hz:
            chk.ob(rule, 'log-arguments-are-inert:%s' % b.path.split('::')[-1], False, where, desc + ' -- in %s' % what)
    chk.ob(rule, 'log-arguments-are-inert', True, roots[0].where(0) if roots and roots[0] is not None else '',
           '%d function(s) of %s scanned: nothing evaluated as a log macro argument can panic or has an effect' % (n, what),
           nontrivial=bool(n))


def find_one(chk, rule, bodies, what):
    if not bodies:
        chk.missing(rule, what)
        return None
    return bodies[0]


def import_obligations(ctx, chk, mod, pid, level, select, tag):
    """run another property's rules into a scratch checker and copy the obligations select(o) accepts, re-tagged `tag`
    (never from inside an import: no recursion)"""
    if getattr(chk, '_nested', False):
        return 0
    sub = type(chk)(pid, level, chk.tier)
    sub._nested = True
    getattr(mod, 'run_rules', mod.run)(ctx, sub)
    n = 0
    for o in sub.obs:
        if select(o):
            chk.ob(tag, '%s:%s' % (o['rule'], o['key']), o['ok'], o['where'], o['detail'])
            n += 1
    return n


def single_precision_sites(fb, root, crates):
    """(number of float assignments seen, [(function, block, where)] producing an f32) in `root` and the functions of the
    given crates it reaches, outside log expansions: assignments whose destination is f32 and calls returning f32"""
    n_float = 0
    narrow = []
    bodies = {root.path: root}
    for x, _, _, _ in reachable_calls(fb, root):
        bodies.setdefault(x.path, x)
    for ob in bodies.values():
        if ob.crate.name not in crates:
            continue
        for bi, blk in enumerate(ob.blocks):
            if mir.in_tracing(blk['tspan']):
                continue
            for st_ in blk['stmts']:
                if st_['k'] != 'assign' or 'ty' not in st_['p']:
                    continue
                ts_ = ob.tystr(st_['p']['ty'])
                if ts_ in ('f32', 'f64') and st_['r'].get('k') in ('bin', 'un', 'cast', 'use'):
                    n_float += 1
                    if ts_ == 'f32' and (ob.path, bi) not in [(a, b) for a, b, _ in narrow]:
                        narrow.append((ob.path, bi, ob.where(bi)))
            t_ = blk['term']
            if t_['k'] == 'call' and 'ty' in t_['dest'] and ob.tystr(t_['dest']['ty']) == 'f32' and (ob.path, bi) not in [(a, b) for a, b, _ in narrow]:
                narrow.append((ob.path, bi, ob.where(bi)))
    return n_float, narrow


ENDLESS_SOURCES = ('RepeatWith<', 'mpsc::Iter<', 'mpsc::IntoIter<', 'sync::mpsc::Iter<')
LOOPING_CONSUMERS = ('find', 'any', 'all', 'for_each', 'try_for_each', 'position', 'count', 'last', 'find_map', 'fold', 'try_fold')


def has_loop(fb, body):
    """does the function loop: a MIR back-edge, or a std iterator consumer driven by an endless source (`repeat_with(..)`,
    `rx.iter()`), which is a loop whose body is the adaptors' closures"""
    if body.back_edges():
        return True
    for bb, t, fn in body.calls():
        if not fn or fn['path'].split('::')[-1] not in LOOPING_CONSUMERS or not fn['path'].startswith('std::iter::Iterator::'):
            continue
        for a in t.get('args') or []:
            pl = a.get('p') if isinstance(a, dict) else None
            if pl and 'ty' in pl and any(src in body.tystr(pl['ty']) for src in ENDLESS_SOURCES):
                return True
    return False


DEBUG_ONLY_MACROS = ('debug_assert', 'debug_assert_eq', 'debug_assert_ne')
_EFFECT_LAST = ('store', 'swap', 'fetch_add', 'fetch_sub', 'fetch_or', 'fetch_and', 'fetch_xor', 'fetch_max', 'fetch_min', 'fetch_nand',
                'fetch_update', 'compare_exchange', 'compare_exchange_weak', 'send', 'try_send', 'write', 'write_all', 'write_volatile',
                'copy_nonoverlapping', 'copy', 'copy_from', 'copy_to', 'push', 'insert', 'remove', 'take', 'replace', 'set', 'set_len',
                'get_or_insert', 'get_or_insert_with', 'lock', 'recv', 'try_recv', 'recv_timeout', 'join', 'spawn', 'unwrap_or_else')


def debug_only_effects(fb, bodies):
    """[(body, block, where, callee)]: calls with an effect (an atomic write, a message, a copy, a mutation of a collection)
    evaluated as part of the *condition* of a `debug_assert!`: they run in debug builds and vanish from the release build
    that ships. Found like the log arguments: call terminators with a plain (non-expansion) span inside the region the
    macro's `cfg!(debug_assertions)` test guards."""
    out = []
    for b in bodies:
        for i, blk in enumerate(b.blocks):
            t = blk['term']
            exp = [e['name'] for e in (blk['tspan'].get('exp') or [])]
            if blk['cleanup'] or t['k'] != 'switch' or not any(n in DEBUG_ONLY_MACROS for n in exp) or not any('cfg' in n for n in exp):
                continue
            # the edge taken when debug assertions are off leads past the check: everything else reachable before that
            # point is the check (its failing branch diverges, so there is no post-dominator to use)
            skip = [x for v_, x in b.succ_edges(i) if v_ == 0]
            if len(skip) != 1:
                continue
            starts = [x for v_, x in b.succ_edges(i) if v_ != 0]
            region = {x for x in range(len(b.blocks)) if not b.blocks[x]['cleanup'] and x != skip[0] and
                      any(b.dominates(s_, x) for s_ in starts)}
            for x in sorted(region):
                b2 = b.blocks[x]
                t2 = b2['term']
                if b2['tspan'].get('exp') or t2['k'] != 'call' or not t2['func'].get('fn'):
                    continue
                nm = mir.callee_name(t2['func']['fn'])
                last = nm.split('::')[-1]
                mut_arg = any(isinstance(a, dict) and a.get('k') in ('move', 'copy') and 'ty' in a.get('p', {}) and
                              b.ty(a['p']['ty']).get('k') in ('ref', 'ptr') and b.ty(a['p']['ty']).get('mut') is True for a in t2.get('args') or [])
                nb = fb.body(nm)
                if last in _EFFECT_LAST or mut_arg or (nb is not None and not _inert_fn(fb, nb)):
                    out.append((b, x, b.where(x), nm))
    return out
