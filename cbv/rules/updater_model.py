"""Model of the daemon's segment-writer side extracted by PSI: the dispatch loop with its
handlers inlined (one path per message class x report classification), the FSM tables,
the constructor state.  Used by C01, C07, C08, C09, C10, C13, C15, C19."""
from .. import psi, mir, arith
from ..psi import fmt, T
from . import common

C_NONE = ('c', None, '?')
STATUS = ('Unknown', 'Synchronized', 'FreeRunning')


def is_shm_write(name):
    return name.endswith('ShmWrite::write') or name.endswith('ShmWrite>::write')


def is_recv(name):
    return name.endswith(('Receiver::<T>::recv', 'Receiver::<T>::recv_timeout', 'Receiver::<T>::try_recv', 'Receiver::<T>::recv_deadline'))


def is_apply(name):
    return name.endswith('::apply_chrony')


def fsm_step_input(ef):
    """if the effect (opaque or inlined call) is a step of the status state machine -- a daemon function
    that receives a ChronyClockStatus by value after its receiver -- return that status value"""
    if ef['kind'] not in ('call', 'inline') or ef.get('tracing'):
        return None
    callee = ef['callee']
    if 'clock_bound_d' not in callee or len(ef['args']) < 2:
        return None
    if callee.split('::')[-1] in ('eq', 'ne', 'clone', 'fmt', 'from'):
        return None
    a = ef['args'][1]
    if a[0] == 'agg' and a[1].endswith('ChronyClockStatus') and ef['args'][0][0] in ('ref', 't', 'sym', 'agg'):
        recv = fmt(ef['args'][0])
        if 'tracking' in recv and 'shm_clock_state' not in recv and 'state' not in recv:
            return None
        return a
    return None


def is_value(name):
    return name.endswith('FSMState::value') or name.endswith('as shm_writer::clock_state_fsm::FSMState>::value')


def variant_names(fb, suffix):
    for c in fb.crates:
        for k, a in c.adts.items():
            if k.startswith('clock_bound_d::') and k.endswith(suffix) and a['kind'] == 'enum':
                return {v.get('discr', v['index']): v['name'] for v in a['variants']}
    return {}


def _recv_effects(st):
    return [(n, ef) for n, ef in enumerate(st.effects) if ef['kind'] == 'call' and not ef['tracing'] and is_recv(ef['callee'])]


def _second_message(st, term, op, val):
    """does the path just learn that a receive other than its first one delivered a message (its Result is Ok)?"""
    if not (term[0] == 't' and term[1] == 'discr' and term[2][0][0] == 't' and term[2][0][1] == 'call' and is_recv(term[2][0][2][0])):
        return False
    is_ok = (op == '==' and val == 0) or (op == '!=' and 1 in val)
    if not is_ok:
        return False
    rs = _recv_effects(st)
    return bool(rs) and term[2][0][2][1] != rs[0][0]


def _last_recv_site(p):
    rs = _recv_effects(p)
    return (rs[-1][1]['site'][0], rs[-1][1]['site'][1]) if rs else None


class UpdaterModel:
    def __init__(self, fb, chk, rule):
        self.fb = fb
        self.ok = False
        # dispatch loop: a daemon function with a loop that receives from a mailbox and whose
        # inlined paths reach ShmWrite::write
        cands = []
        for b in fb.bodies(common.DAEMON):
            if b.defkind == 'Closure' or not common.has_loop(fb, b):
                continue
            # (the mailbox read may sit behind a private trait or helper: `ctx.next_message()`)
            if any(fn and (is_recv(mir.callee_name(fn)) or any(common.reaches_call(fb, nb, is_recv) for nb in common.callee_bodies(fb, fn)))
                   for _, _, fn in common.user_calls(b)) or (not b.back_edges() and common.reaches_call(fb, b, is_recv)):
                cands.append(b)       # (second form: the loop is an iterator chain, the receive sits in one of its closures)
        self.dispatch = None
        self.segment_problem = None
        for b in cands:
            # private traits with one implementation are looked through; the segment write itself stays an opaque call
            eng = common.mk_engine(fb, unique_impls=True, havoc_loops=True, no_inline=lambda x: is_shm_write(x.path))
            # One path describes the handling of ONE message. A loop that reads its mailbox at several places (a blocking
            # wait, then a drain of what queued up) is explored per receive site: a path ends ('cut') at the moment it
            # learns that a further receive delivered a message, and what happens to that message is explored from the
            # receive site itself, with everything the function did before forgotten.
            eng.cut_cond = _second_message
            paths = [p for p in eng.run(b) if p.kind != 'unreachable']
            done, todo = set(), []
            for p in paths:
                if p.kind == 'cut':
                    todo.append(_last_recv_site(p))
            while todo:
                site = todo.pop()
                if site is None or site in done:
                    continue
                done.add(site)
                if site[0] != b.path:
                    self.segment_problem = 'a second receive on one path sits inside %s (not in the loop function itself)' % site[0]
                    continue
                more = [p for p in eng.run(b, start_bb=site[1]) if p.kind != 'unreachable']
                for p in more:
                    if p.kind == 'cut':
                        todo.append(_last_recv_site(p))
                paths += more
            if any(any(ef['kind'] == 'call' and is_shm_write(ef['callee']) for ef in p.effects) for p in paths):
                self.dispatch = b
                self.engine = eng
                self.paths = paths
                break
        if self.dispatch is None:
            chk.missing(rule, 'dispatch loop of the segment writer (recv loop reaching ShmWrite::write)')
            return
        if self.segment_problem:
            chk.missing(rule, 'one message per path of the dispatch loop: %s' % self.segment_problem)
            return
        chk.saw(self.dispatch)
        chk.analysed['paths'] += len(self.paths)
        for p in self.engine.inlined:
            chk.analysed['functions'].add(p)
        self.msg_names = variant_names(fb, '::Message')
        self.infos = [self.classify(p) for p in self.paths]
        # the updater fields that feed the record
        self.field_of = {}     # record field index -> updater field name (from a path that does not update)
        for i in self.infos:
            for ceb in i['records']:
                for n, f in enumerate(ceb[3]):
                    nm = self.updater_field(f)
                    if nm and n not in self.field_of:
                        self.field_of[n] = nm
        # encoding of the status state machine: 'dyn' (boxed typestate objects stepped through a trait object; the step is
        # an opaque call) or 'enum' (a plain enum stepped by a statically resolved function that PSI inlines, so that the
        # state shows up as discriminant conditions / constant variants on the dispatch paths)
        self.step_fns = set()
        recvs = []
        for i in self.infos:
            self.step_fns |= i['step_callees']
            recvs += i['step_recv']
        self.state_field = None
        for r in recvs:
            nm = self.place_field(r)
            if nm:
                self.state_field = nm
        self.enum_mode = False
        self.state_enum = None
        bodies = [fb.body(c) for c in self.step_fns]
        if bodies and all(b is not None for b in bodies) and self.state_field:
            rt = bodies[0].tystr(bodies[0].locals[0]['ty'])
            adt = self.engine.find_adt(rt)
            if adt and adt['kind'] == 'enum':
                self.enum_mode = True
                self.state_enum = (rt, {v.get('discr', v['index']): v['name'] for v in adt['variants']})
        self._tables = None
        self.ok = True

    def place_field(self, v):
        """dotted updater-field name of a step receiver passed by value (`self.state`) or by reference (`&self.state`)"""
        if v[0] == 'ref':
            base, proj = v[1]
            if base[0] == 'S' and base[1][0] == 'sym' and proj and all(e[0] == 'f' for e in proj):
                return '.'.join(str(e[2] if e[2] is not None else e[1]) for e in proj)
            return None
        return self.updater_field(v)

    def state_leaf(self, upd):
        """the term of the updater's state field read at the start of a dispatch iteration"""
        v = upd
        for nm in (self.state_field or '').split('.'):
            v = T('field', v, nm)
        return v

    def published(self, chk, i, ceb):
        """(kind, status, from_step) of the status a path publishes: kind 'fsm' = the value of the state machine after this
        path's step (or of the held state when the path makes no step), 'const' = a fixed status, 'other'"""
        v = ceb[3][5]
        if not self.enum_mode:
            if v[0] == 'agg' and v[2] is not None:
                return ('const', v[2], False)
            if v[0] == 't' and v[1] == 'call' and 'clock_bound_d' in v[2][0] and len(v[2]) == 3:
                # a one-argument daemon method applied to the state object: the state's value()
                from_step = any(s_ is not None and any(x == s_ for x in psi.walk(v)) for s_ in i['steps']) or \
                    any(s_ is None for s_ in i['steps'])
                return ('fsm', fmt(v), from_step)
            return ('other', fmt(v)[:120], False)
        trans, values, _, _ = self.fsm_tables(chk)
        if not (v[0] == 'agg' and v[2] is not None):
            return ('other', fmt(v)[:120], False)
        new = i['stores'].get(self.state_field)
        if new is not None and new[0] == 'agg' and values.get(new[2]) == v[2] and i['applied']:
            return ('fsm', v[2], True)
        if new is None and not i['applied']:
            held = self.path_state(i)
            if held is not None and values.get(held) == v[2]:
                return ('fsm', v[2], False)
        return ('const', v[2], False)

    def path_state(self, i):
        """enum mode: the variant of the state field this path was taken for (from its discriminant conditions), or None"""
        if not self.enum_mode:
            return None
        names = self.state_enum[1]
        compat = set(names)
        for term, op, val, _ in i['path'].conds:
            if term[0] == 't' and term[1] == 'discr' and self.place_field(term[2][0]) == self.state_field:
                if op == '==':
                    compat &= {val}
                else:
                    compat -= set(val)
        return names[compat.pop()] if len(compat) == 1 else None

    @staticmethod
    def updater_field(v):
        """dotted path of the updater field if v is a plain read of one (leaf rooted in the updater),
        e.g. 'bound_nsec' or 'sample.as_of' for a field of a nested private struct"""
        names = []
        while v[0] == 't' and v[1] in ('field', 'as'):
            # `as(x, Some).0` = the payload of an Option held by the updater: path component `<Some>`
            names.append(str(v[2][1]) if v[1] == 'field' else '<%s>' % v[2][1])
            v = v[2][0]
        if not names:
            return None
        if v[0] == 'sym' or (v[0] == 't' and v[1] == 'deref' and v[2][0][0] == 'sym'):
            return '.'.join(reversed(names))
        return None

    def placeholder_record(self, i, f):
        """the updater holds its sample in an Option, this path is the one where it is None, and the record carries constant
        place-holders published as Unknown (there is no sample to carry)"""
        asof_f = self.field_of.get(0)
        if '.<Some>' not in str(asof_f):
            return False
        opt = str(asof_f).split('.<Some>')[0]
        none_here = any(t_[0] == 't' and t_[1] == 'discr' and self.updater_field(t_[2][0]) == opt and
                        ((op_ == '==' and val_ == 0) or (op_ == '!=' and 1 in val_)) for t_, op_, val_, _ in i['path'].conds)
        consts = all(not [y for y in psi.walk(x) if y[0] in ('sym',) or (y[0] == 't' and y[1] in ('call', 'deref'))] for x in (f[0], f[2]))
        st_unknown = f[-1][0] == 'agg' and f[-1][2] == 'Unknown'
        return none_here and consts and st_unknown

    def classify(self, p):
        info = {'path': p, 'msg': None, 'msg_name': None, 'recv_err': False, 'applied': [], 'records': [],
                'published': [], 'stores': {}, 'writes': 0, 'payload': None, 'steps': [], 'step_callees': set(), 'step_recv': []}
        recv_term = None
        for n, ef in enumerate(p.effects):
            if ef['kind'] == 'inline':
                a = fsm_step_input(ef)
                if a is not None:
                    if ef['site'][0] not in info['step_callees']:
                        info['applied'].append(a[2])
                        info['steps'].append(None)
                        info['step_recv'].append(ef['args'][0])
                    info['step_callees'].add(ef['callee'])
                continue
            if ef['kind'] != 'call' or ef['tracing']:
                continue
            nm = ef['callee']
            if is_recv(nm) and recv_term is None:
                recv_term = T('call', nm, n, *ef['args'])
            elif fsm_step_input(ef) is not None:
                a = fsm_step_input(ef)
                if ef['site'][0] not in info['step_callees']:
                    info['applied'].append(a[2])
                info['steps'].append(T('call', nm, n, *ef['args']))
                info['step_callees'].add(nm)
            elif is_shm_write(nm):
                info['writes'] += 1
                ceb = ef['pointees'][1] if len(ef['pointees']) > 1 else None
                if ceb is not None and ceb[0] == 'agg':
                    info['records'].append(ceb)
                    info['published'].append(ceb[3][-1])
        if recv_term is not None:
            okp = T('field', T('as', recv_term, 'Ok'), '0')
            info['payload'] = okp
            # the message variants this path is taken for: everything its atoms on discr(payload) leave over (a `match`, a
            # chain of `==` tests against known variants, a table scan ...)
            poss = set(self.msg_names)
            excluded = set()
            for term, op, val, _ in p.conds:
                if term == T('discr', recv_term) and op == '==':
                    info['recv_err'] = (val == 1)
                if term == T('discr', okp):
                    if op == '==':
                        poss &= {val}
                    else:
                        poss -= set(val)
                        excluded |= set(val)
            if len(poss) == 1 and (excluded or len(self.msg_names) == 1 or any(t_ == T('discr', okp) and o_ == '==' for t_, o_, _, _ in p.conds)):
                info['msg'] = next(iter(poss))
                info['msg_name'] = self.msg_names.get(info['msg'], str(info['msg']))
            elif excluded and poss:
                info['msg'] = 'other'
                info['msg_name'] = 'other(not %s)' % sorted(excluded)
        # field stores into the updater at the end of the path (dotted paths; struct values are expanded)
        for key, v in p.state.store.items():
            base, proj = key
            if proj and all(e[0] == 'f' for e in proj) and (base[0] == 'S' or (base[0] == 'L' and base[1] == 0 and base[2] <= self.dispatch.argc)):
                if base[0] == 'S' and not (base[1][0] == 'sym'):
                    continue
                self.expand_store(info['stores'], '.'.join(str(e[2] if e[2] is not None else e[1]) for e in proj), v)
        return info

    def expand_store(self, out, path, v):
        out[path] = v
        if v[0] == 'agg' and v[2] is not None and v[3]:
            adt = self.engine.find_adt(v[1])
            if adt and adt['kind'] == 'struct':
                names = [f['name'] for f in adt['variants'][0]['fields']]
                for nm, f in zip(names, v[3]):
                    self.expand_store(out, path + '.' + nm, f)
            elif v[2] == 'Some' and len(v[3]) == 1 and 'Option' in v[1]:
                self.expand_store(out, path + '.<Some>.0', v[3][0])

    # ------------------------------------------------------------ FSM tables
    def fsm_tables(self, chk):
        """(trans, values, passthrough, delegates): trans = {state type: {input status: next state type}},
        values = {state type: status its value() reports}; states are identified by their type string"""
        fb = self.fb
        if self._tables is not None:
            return self._tables
        if self.enum_mode:
            self._tables = self.enum_tables(chk)
            return self._tables
        trans = {}
        values = {}
        delegates = False
        passthrough = False

        def status_field(agg):
            for f in agg[3]:
                if f[0] == 'agg' and f[1].endswith('ClockStatus'):
                    return f[2]
            return None
        # step-shaped methods of the daemon: (&self, ChronyClockStatus) in a trait impl.  One that returns a freshly built
        # state object on every path is a row set of the transition table (for its Self type); one that returns the result
        # of another such method on the same receiver and input delegates (the dyn entry point apply_chrony -> transition)
        for b in fb.bodies(common.DAEMON):
            if b.defkind == 'Closure' or b.argc != 2:
                continue
            if not b.tystr(b.locals[2]['ty']).endswith('ChronyClockStatus'):
                continue
            eng = common.mk_engine(fb)
            rows, deleg, concrete = {}, False, True
            a2 = ('sym', b.debug_names.get(2, 'arg2'))
            for p in eng.run(b):
                chk.analysed['paths'] += 1
                if p.kind != 'return':
                    continue
                # the inputs this path is taken for: its atoms on discr(input), directly or behind an `as` cast
                # (`match chrony as u8 { 0 => .., 1 => .., _ => .. }`), evaluated for each of the three statuses
                atoms = [(op, val) for term, op, val, _ in p.conds if arith.strip_casts(term) == T('discr', a2)]
                inps = [STATUS[d] for d in (0, 1, 2)
                        if atoms and all((d == val) if op == '==' else (d not in val) for op, val in atoms)]
                v = p.value
                tgt = None
                if v[0] == 'ref':
                    pv = eng.load(p.state, v[1])
                    if pv[0] == 'agg':
                        tgt = pv[1]
                        if status_field(pv) is not None:
                            values.setdefault(tgt, status_field(pv))
                elif v[0] == 'agg' and status_field(v) is not None:
                    tgt = v[1]
                    values.setdefault(tgt, status_field(v))
                elif v[0] == 't' and v[1] == 'call' and len(v[2]) == 4 and v[2][3] == a2 and 'clock_bound_d' in v[2][0]:
                    deleg = True
                if tgt is None:
                    concrete = False
                for inp in inps:
                    rows[inp] = tgt
            if deleg and not rows:
                chk.saw(b)
                delegates = True
            elif concrete and rows:
                chk.saw(b)
                trans[b.impl_self] = rows
        # value-shaped methods: (&self) -> ClockStatus in a trait impl, returning a field of the state (or a constant per state)
        for b in fb.bodies(common.DAEMON):
            if b.defkind == 'Closure' or b.argc != 1 or not b.impl_trait or not b.tystr(b.locals[0]['ty']).endswith('ClockStatus'):
                continue
            if not any(b.impl_self.split('<')[0] == s_.split('<')[0] for s_ in trans):
                continue
            chk.saw(b)
            eng = common.mk_engine(fb)
            for p in eng.run(b):
                if p.kind != 'return':
                    continue
                v = p.value
                if v[0] == 't' and v[1] == 'field' and self.updater_field(v) is not None:
                    passthrough = True
                elif v[0] == 'agg' and v[1].endswith('ClockStatus') and not p.conds:
                    values[b.impl_self] = v[2]
                    passthrough = True
        self._tables = (trans, values, passthrough, delegates)
        return self._tables

    def enum_tables(self, chk):
        """tables of an enum-encoded state machine, read off the resolved step function (state x input -> state) and the
        function mapping a state to the ClockStatus it reports"""
        fb = self.fb
        rt, names = self.state_enum
        inputs = variant_names(fb, 'ChronyClockStatus')
        trans = {n: {} for n in names.values()}
        values = {}
        # outermost step function: the one called from the dispatch paths' own frames
        steps = [fb.body(c) for c in self.step_fns]
        callees_of = {b.path: {mir.callee_name(fn) for _, _, fn in common.user_calls(b) if fn} for b in steps}
        outer = [b for b in steps if not any(b.path in cs for p_, cs in callees_of.items() if p_ != b.path)] or steps
        b = outer[0]
        chk.saw(b)
        eng = common.mk_engine(fb)

        def arg_discr(term, argi):
            x = term[2][0] if term[0] == 't' and term[1] == 'discr' else None
            if x is None:
                return False
            nm = b.debug_names.get(argi, 'arg%d' % argi)
            return x == ('sym', nm) or x == T('deref', ('sym', nm))
        for p in eng.run(b):
            chk.analysed['paths'] += 1
            if p.kind != 'return':
                continue
            ss, cs = set(names), set(inputs)
            for term, op, val, _ in p.conds:
                for argi, cur in ((1, ss), (2, cs)):
                    if arg_discr(term, argi):
                        if op == '==':
                            cur &= {val}
                        else:
                            cur -= set(val)
            tgt = p.value[2] if p.value[0] == 'agg' and p.value[1] == rt else None
            for s_ in ss:
                for c_ in cs:
                    trans[names[s_]][inputs[c_]] = tgt
        for vb in fb.bodies(common.DAEMON):
            if vb.argc != 1 or vb.defkind == 'Closure':
                continue
            at = vb.tystr(vb.locals[1]['ty']).lstrip('&').replace('mut ', '').strip()
            if at != rt or not vb.tystr(vb.locals[0]['ty']).endswith('ClockStatus'):
                continue
            chk.saw(vb)
            nm = vb.debug_names.get(1, 'arg1')
            for p in common.mk_engine(fb).run(vb):
                if p.kind != 'return' or p.value[0] != 'agg':
                    continue
                ss = set(names)
                for term, op, val, _ in p.conds:
                    if term[0] == 't' and term[1] == 'discr' and term[2][0] in (('sym', nm), T('deref', ('sym', nm))):
                        if op == '==':
                            ss &= {val}
                        else:
                            ss -= set(val)
                for s_ in ss:
                    values[names[s_]] = p.value[2]
        return trans, values, True, True

    def initial_state(self, chk):
        """constructor state of the updater: {field: value}, FSM initial state name"""
        fb = self.fb
        # the updater type: the type of the dispatch loop's parameter the published records are read from; its
        # constructor: the daemon function returning that type (whatever either is called)
        upd_ty = None
        for i in self.infos:
            for ceb in i['records']:
                for f in ceb[3]:
                    x = f
                    while x[0] == 't' and x[1] in ('field', 'deref'):
                        x = x[2][0]
                    if x[0] == 'sym':
                        for k, nm in self.dispatch.debug_names.items():
                            if nm == x[1] and 1 <= k <= self.dispatch.argc:
                                upd_ty = self.dispatch.tystr(self.dispatch.locals[k]['ty']).lstrip('&').replace('mut ', '').strip().split('<')[0]
        if upd_ty in ('Self',) + tuple(self.dispatch.generics or ()) and self.dispatch.provided_of:
            # the loop is a method a private trait provides: `self` is the trait's only implementor
            impls_ = {b.impl_self.split('<')[0] for b in fb.bodies(common.DAEMON)
                      if b.impl_trait and b.impl_trait.split('<')[0] == self.dispatch.provided_of.split('<')[0] and b.impl_self}
            if len(impls_) == 1:
                upd_ty = impls_.pop()
        ctor = None
        # (the loop may be a method of a per-thread struct that *holds* the updater: the type some function constructs is
        # then the type of a field on the way to the published fields -- `self.updater.bound` -- and every name gets the prefix)
        prefix = ''
        ctors = []
        if upd_ty:
            common_pre = None
            for nm in self.field_of.values():
                parts = nm.split('.')[:-1]
                common_pre = parts if common_pre is None else [a for a, b in zip(common_pre, parts) if a == b][:min(len(common_pre), len(parts))]
            cands = [(upd_ty, '')]
            t_cur, pre = upd_ty, []

            def adt_by_base(base):
                for c_ in fb.crates:
                    for k_, a_ in c_.adts.items():
                        if k_.split('<')[0] == base and a_.get('variants'):
                            return a_
                return None
            for part in (common_pre or []):
                adt_ = adt_by_base(t_cur)
                fld = [f for f in (adt_ or {}).get('variants', [{}])[0].get('fields', []) if f.get('name') == part and 'ty' in f]
                if not fld:
                    break
                t_cur = self.dispatch.crate.types[fld[0]['ty']]['s'].lstrip('&').replace('mut ', '').strip().split('<')[0]
                pre.append(part)
                cands.append((t_cur, '.'.join(pre) + '.'))
            for ty_, pre_ in reversed(cands):       # (the struct closest to the published fields first: the updater itself)
                ctors = [b for b in fb.bodies(common.DAEMON)
                         if b.defkind != 'Closure' and b.tystr(b.locals[0]['ty']).split('<')[0] == ty_ and b.path != self.dispatch.path
                         and not (b.argc >= 1 and b.tystr(b.locals[1]['ty']).lstrip('&').replace('mut ', '').strip().split('<')[0] == ty_)]
                if ctors:
                    prefix = pre_
                    break
        self.ctor_prefix = prefix
        # several constructors (`new` delegating to a generic `with_tracker`): the outermost one, which fixes every part
        outer = [b for b in ctors if not any(o is not b and common.reaches_call(fb, o, lambda n, p_=b.path: n == p_) for o in ctors)]
        ctor = (outer or ctors or [None])[-1]
        if ctor is None:
            return None, None, None
        chk.saw(ctor)
        eng = common.mk_engine(fb)
        ps = [p for p in eng.run(ctor) if p.kind == 'return']
        if not ps or any(p.value[0] != 'agg' for p in ps) or len({p.value[1] for p in ps}) != 1:
            return ctor, None, None
        v = ps[0].value
        adt = eng.find_adt(v[1]) or {}
        names = [f['name'] for f in adt.get('variants', [{}])[0].get('fields', [])] if adt else []
        fields = {}
        for nm_, fv_ in zip(names, v[3]):
            self.expand_store(fields, prefix + nm_, fv_)        # nested private structs: dotted names, as for the stores
        # a constructor with several outcomes (it looks at something outside: what a predecessor left in the segment, a
        # file, the environment): a field that differs between them has no constant start value
        for p2 in ps[1:]:
            f2 = {}
            for nm_, fv_ in zip(names, p2.value[3]):
                self.expand_store(f2, prefix + nm_, fv_)
            for k_ in set(fields) | set(f2):
                if fields.get(k_) != f2.get(k_):
                    fields[k_] = T('varies', fields.get(k_) or C_NONE, f2.get(k_) or C_NONE)
        # FSM initial state: Box::<T>::default() with T from the call's type arguments
        init = None
        for ef in ps[0].effects:
            if ef['kind'] == 'call' and ef['callee'].endswith('Default>::default') and ef['fn']:
                targs = ef['fn'].get('targs') or []
                for t in targs:
                    ts = ctor.crate.types[t]['s']
                    if True:
                        # run Default::default of that type
                        for b in fb.bodies(common.DAEMON):
                            if b.name == 'default' and (b.impl_trait or '').endswith('Default') and b.impl_self and b.impl_self.split('<')[0] in ts:
                                chk.saw(b)
                                for p in common.mk_engine(fb).run(b):
                                    if p.kind == 'return' and p.value[0] == 'agg':
                                        init = (p.value[1], None)
                                        for f in p.value[3]:
                                            if f[0] == 'agg' and f[1].endswith('ClockStatus'):
                                                init = (p.value[1], f[2])
        if init is None and self.enum_mode and self.state_field in fields:
            v0 = fields[self.state_field]
            if v0[0] == 'agg' and v0[2] is not None:
                init = (v0[2], None)
        return ctor, fields, init


def type_param_name(tystr):
    """ShmClockState<...::Synchronized> -> 'Synchronized'"""
    if not tystr or '<' not in tystr:
        return None
    inner = tystr[tystr.index('<') + 1:tystr.rindex('>')]
    return inner.split('::')[-1]
