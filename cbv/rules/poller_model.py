"""Model of one iteration of the daemon's poll loop extracted by PSI: used by C01, C12, C13, C15."""
from .. import psi, mir
from ..psi import T, fmt
from . import common


def is_chrony_query(name):
    return name.endswith('::get_tracking') or 'chrony_candm::blocking_query' in name


def is_grace_query(name):
    return name.endswith('::is_within_grace_period')


def is_send(name):
    return name.endswith('mpsc::Sender::<T>::send') or name.endswith('DispatchBox::<K, M>::send')


class PollerModel:
    def __init__(self, fb, chk, rule):
        self.fb = fb
        self.ok = False
        cands = []
        for b in fb.bodies(common.DAEMON):
            if b.defkind == 'Closure':
                continue
            if b.back_edges() and common.reaches_call(fb, b, is_chrony_query) and \
                    common.reaches_call(fb, b, lambda n: n.endswith(('Receiver::<T>::recv', 'Receiver::<T>::recv_timeout', 'Receiver::<T>::try_recv'))):
                cands.append(b)
        if not cands:
            chk.missing(rule, 'poll loop (a daemon function with a loop that queries chronyd)')
            return
        self.body = cands[0]
        chk.saw(self.body)
        self.engine = common.mk_engine(fb)
        self.paths = [p for p in self.engine.run(self.body) if p.kind != 'unreachable']
        chk.analysed['paths'] += len(self.paths)
        for p in self.engine.inlined:
            chk.analysed['functions'].add(p)
        self.loops = [self.body.natural_loop(t, h) for t, h in self.body.back_edges()]
        self.infos = [self.classify(p) for p in self.paths]
        self.ok = True

    def in_loop(self, bb):
        return any(bb in l for l in self.loops)

    def classify(self, p):
        info = {'path': p, 'reads': [], 'query': None, 'sends': [], 'grace': None, 'recv': [], 'calls': []}
        for n, ef in enumerate(p.effects):
            if ef['kind'] != 'call' or ef['tracing']:
                continue
            name = ef['callee']
            info['calls'].append((n, name, ef))
            if 'clock_gettime' in name:
                cid = ef['args'][0][1] if ef['args'] and psi.is_int_const(ef['args'][0]) else None
                info['reads'].append((n, cid, ef))
            elif is_chrony_query(name) and info['query'] is None:
                info['query'] = (n, ef)
            elif is_send(name):
                info['sends'].append((n, ef))
            elif 'recv' in name.split('::')[-1]:
                info['recv'].append((n, ef))
        # truth of the grace-period query on this path
        for term, op, val, _ in p.conds:
            if term[0] == 't' and term[1] == 'call' and is_grace_query(term[2][0]):
                info['grace'] = (op == '!=' and set(val) == {0}) or (op == '==' and val == 1)
        return info

    def message_of(self, info):
        """the Message value sent on this path (last argument of the first send), or None"""
        if not info['sends']:
            return None
        _, ef = info['sends'][0]
        return ef['args'][-1]
