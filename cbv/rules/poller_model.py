"""Model of one iteration of the daemon's poll loop extracted by PSI: used by C01, C12, C13, C15."""
from .. import psi, mir
from ..psi import T, fmt
from . import common


QUERY_METHODS = {'get_tracking'}                 # refreshed from the code by init_names(fb)
GRACE_METHODS = {'is_within_grace_period'}
_NAMES_FOR = [None]


def init_names(fb):
    """names of the poller-trait methods, read off their shipped implementations: a *query* method is a trait-impl method
    of the daemon that reaches chrony_candm::blocking_query*; a *grace* method is one returning bool from
    Instant::elapsed() (so the rules do not depend on what the trait or its methods are called)"""
    if _NAMES_FOR[0] is fb:
        return
    _NAMES_FOR[0] = fb
    q, g = set(), set()
    qc = []
    for b in fb.bodies(common.DAEMON):
        # (methods of a trait impl, and methods the trait itself provides -- a default body the shipped poller inherits)
        if b.defkind == 'Closure' or not (b.impl_trait or b.provided_of) or (b.impl_trait or '').startswith('std::'):
            continue
        if common.reaches_call(fb, b, lambda n: n.startswith('chrony_candm::') and 'blocking_query' in n):
            qc.append(b)
        elif b.argc == 1 and b.tystr(b.locals[0]['ty']) == 'bool' and common.reaches_call(
                fb, b, lambda n: n.endswith(('Instant::elapsed', 'Instant::now', 'Instant::duration_since'))):
            g.add(b.name)
    # the query method proper is the innermost one: a trait method that merely reaches another candidate (a worker's `run`
    # behind a private trait) is a caller of the query, not the query
    for b in qc:
        others = {o.path for o in qc if o is not b}
        if not common.reaches_call(fb, b, lambda n: n in others):
            q.add(b.name)
    if q:
        QUERY_METHODS.clear()
        QUERY_METHODS.update(q)
    if g:
        GRACE_METHODS.clear()
        GRACE_METHODS.update(g)


def is_chrony_query(name):
    return (name.startswith('chrony_candm::') and 'blocking_query' in name) or (name.split('::')[-1] in QUERY_METHODS and 'clock_bound_d' in name)


def is_grace_query(name):
    return name.split('::')[-1] in GRACE_METHODS and 'clock_bound_d' in name


def mentions_query(v):
    return any(x[0] == 't' and x[1] == 'call' and is_chrony_query(x[2][0]) for x in psi.walk(v))


def is_send(name):
    return name.endswith('mpsc::Sender::<T>::send') or name.endswith('DispatchBox::<K, M>::send')


class PollerModel:
    def __init__(self, fb, chk, rule):
        self.fb = fb
        self.ok = False
        init_names(fb)
        cands = []
        for b in fb.bodies(common.DAEMON):
            if b.defkind == 'Closure':
                continue
            if b.back_edges() and common.reaches_call(fb, b, is_chrony_query) and \
                    common.reaches_call(fb, b, lambda n: n.endswith(('Receiver::<T>::recv', 'Receiver::<T>::recv_timeout', 'Receiver::<T>::try_recv'))):
                cands.append(b)
        if not cands:
            chk.missing(rule, 'poll loop (a daemon function with a loop that queries chronyd)')
            return
        self.body = cands[0]
        chk.saw(self.body)
        # an arbitrary iteration of the loop, not the first one: loop-carried locals are unknown at the loop header
        # (a loop written against private traits -- clock, link to the writer, PHC source -- is explored with the only
        # implementation each trait has; the poller's own query / grace methods stay opaque calls, as in the trait form)
        self.engine = common.mk_engine(fb, havoc_loops=True, unique_impls=True,
                                       no_inline=lambda b: bool(b.impl_trait or b.provided_of) and b.name in (QUERY_METHODS | GRACE_METHODS))
        self.paths = [p for p in self.engine.run(self.body) if p.kind != 'unreachable']
        chk.analysed['paths'] += len(self.paths)
        for p in self.engine.inlined:
            chk.analysed['functions'].add(p)
        self.loops = [self.body.natural_loop(t, h) for t, h in self.body.back_edges()]
        self.infos = [self.classify(p) for p in self.paths]
        self.ok = True

    def in_loop(self, bb):
        return any(bb in l for l in self.loops)

    def classify(self, p):
        info = {'path': p, 'reads': [], 'query': None, 'sends': [], 'grace': None, 'recv': [], 'calls': []}
        for n, ef in enumerate(p.effects):
            if ef['kind'] != 'call' or ef['tracing']:
                continue
            name = ef['callee']
            info['calls'].append((n, name, ef))
            if common.is_clock_read(name):
                cid = ef['args'][0][1] if ef['args'] and psi.is_int_const(ef['args'][0]) else None
                info['reads'].append((n, cid, ef))
            elif is_chrony_query(name) and info['query'] is None:
                info['query'] = (n, ef)
            elif is_send(name):
                info['sends'].append((n, ef))
            elif 'recv' in name.split('::')[-1]:
                info['recv'].append((n, ef))
        # truth of the grace-period query on this path
        for term, op, val, _ in p.conds:
            if term[0] == 't' and term[1] == 'call' and is_grace_query(term[2][0]):
                info['grace'] = (op == '!=' and set(val) == {0}) or (op == '==' and val == 1)
        return info

    def message_of(self, info):
        """the Message value sent on this path (last argument of the first send), or None"""
        if not info['sends']:
            return None
        _, ef = info['sends'][0]
        return ef['args'][-1]
