"""C06 Status decay: the decision table of the status returned by now() is extracted by
PSI and compared, region by region, with the oracle of DESIGN.md A.1."""
from .. import psi, arith
from ..psi import fmt
from . import common
from .client_model import ClientModel, GRACE_NS
from .common import interval_of, INF

LEVEL = 'proof'

STATUS = {0: 'Unknown', 1: 'Synchronized', 2: 'FreeRunning'}
ORACLE = {  # stored -> (R1: age<5s, R2: age>=5s & mono<void_after, R3: mono>=void_after)
    'Unknown': ('Unknown', 'Unknown', 'Unknown'),
    'Synchronized': ('Synchronized', 'FreeRunning', 'Unknown'),
    'FreeRunning': ('FreeRunning', 'FreeRunning', 'Unknown'),
}


def regions_of(model, info):
    """set of oracle regions {0,1,2} a path's atoms are compatible with, plus notes"""
    au, vu = model.age_unit(info), model.void_unit(info)
    lo, hi, rest = interval_of(info['atoms'], au)
    vlo, vhi, rest2 = interval_of(rest, vu)
    regs = set()
    below = lo <= GRACE_NS - 1          # some age < 5 s allowed
    above = hi >= GRACE_NS + 1          # some age > 5 s allowed
    before_void = vlo <= -1             # mono - void_after < 0 possible
    after_void = vhi >= 1               # mono - void_after > 0 possible
    if below and before_void:
        regs.add(0)
    if above and before_void:
        regs.add(1)
    if above and after_void:
        regs.add(2)
    return regs, (lo, hi), (vlo, vhi), rest2


def _rows(chk, m, info, p, stored, res, regs, age_iv, void_iv, rest, covered, table):
    # D2: atoms that compare the realtime reading against record instants
    for e, rel in rest:
        leaves = [fmt(k) for k in e.terms]
        if info['real'] is not None and any(fmt(info['real']) == l for l in leaves) and \
                any(l in (fmt(m.leaf_self('as_of')), fmt(m.leaf_self('void_after'))) for l in leaves):
            chk.ob('C06.D2', 'now:atom-on-realtime', False, p.where[2],
                   'status/age decision compares the REALTIME reading with a record instant: %r %s 0' % (e, rel))
    for r in regs:
        want = ORACLE[stored][r]
        key = '%s/R%d' % (stored, r + 1)
        covered.setdefault(key, set()).add(res)
        table.setdefault(key, set()).add(res)
        chk.ob('C06.D1', 'table:%s->%s' % (key, res), res == want, p.where[2],
               'stored=%s region=R%d (age in [%s,%s] ns, mono-void_after in [%s,%s]) -> %s, oracle %s' %
               (stored, r + 1, age_iv[0], age_iv[1], void_iv[0], void_iv[1], res, want))


def run(ctx, chk):
    fb = ctx.facts()
    chk.explanation = ('Decision table of the status component of ClockErrorBound::now() (bound computation '
                       'inlined), extracted over stored status x canonical time atoms, checked against the '
                       'oracle for every (stored status, region) pair; grace constant evaluated by rustc; '
                       'FFI status mapping table.')
    chk.exhaustive = True
    chk.assumptions = ['void_after >= as_of + 5 s (every daemon-written record; property statement)',
                       'threshold points themselves (age == 5 s, mono == void_after) accepted either way']
    m = ClientModel(fb, chk, 'C06.D1')
    if not m.ok:
        return
    table = {}
    covered = {}
    n_ok_paths = 0
    for info in m.infos:
        p = info['path']
        if p.kind != 'return' or p.value[0] != 'agg' or p.value[2] != 'Ok':
            continue
        n_ok_paths += 1
        tup = p.value[3][0]
        if tup[0] != 'agg' or len(tup[3]) != 3:
            chk.ob('C06.D1', 'now:result-shape', False, p.where[2], 'Ok payload is not a 3-tuple: %s' % fmt(tup)[:200])
            continue
        regs, age_iv, void_iv, rest = regions_of(m, info)
        for stored_k in info['stored_set']:
            stored = STATUS[stored_k]
            res = common.status_of(fb, tup[3][2], p.conds)
            if res is None and tup[3][2] == info['status_leaf']:
                res = stored            # the path hands the stored status through
            if res is None:
                chk.ob('C06.D1', 'now:result-status-unresolved', False, p.where[2],
                       'result status is not a variant nor the stored status: %s' % fmt(tup[3][2]))
                continue
            _rows(chk, m, info, p, stored, res, regs, age_iv, void_iv, rest, covered, table)
        continue
    # completeness: every (stored, region) pair is decided by some Ok path
    for s in ORACLE:
        for r in range(3):
            key = '%s/R%d' % (s, r + 1)
            chk.ob('C06.D1', 'covered:%s' % key, key in covered, m.body.where(0),
                   'no Ok path of now() covers %s' % key if key not in covered else 'covered by %s' % sorted(covered[key]),
                   nontrivial=False)
    chk.floor('C06.D1', 'Ok paths of now()', n_ok_paths, 1)
    chk.tables['extracted'] = {k: sorted(v) for k, v in sorted(table.items())}
    chk.tables['oracle'] = {'%s/R%d' % (s, i + 1): ORACLE[s][i] for s in ORACLE for i in range(3)}

    # D2 (positive form): the age atoms use a monotonic-family clock read
    monos = {info['reads'][1][0] if len(info['reads']) > 1 else None for info in m.infos if len(info['reads']) > 1}
    for info in m.infos:
        if info['path'].kind == 'return' and info['path'].value[2] == 'Ok':
            chk.ob('C06.D2', 'now:age-from-monotonic', info['mono'] is not None, info['path'].where[2],
                   'no monotonic-family clock read feeds the decision' if info['mono'] is None else
                   'age/void atoms are over the %s reading' % common.MONOTONIC_FAMILY.get(
                       [c for c, _ in info['reads'] if c in common.MONOTONIC_FAMILY][0]))
            break

    # D3: the grace constant as rustc evaluated it (informational cross-check; D1 already pins 5 s)
    k = fb.const('CLOCKBOUND_RESTART_GRACE_PERIOD')
    if k is not None and 'bytes' in k:
        raw = bytes.fromhex(k['bytes'])
        sec = int.from_bytes(raw[0:8], 'little', signed=True)
        ns = int.from_bytes(raw[8:16], 'little', signed=True)
        chk.ob('C06.D3', 'const:restart-grace', sec * 10**9 + ns == GRACE_NS, 'clock-bound-shm/src/lib.rs',
               'CLOCKBOUND_RESTART_GRACE_PERIOD evaluates to %d s %d ns' % (sec, ns))

    # D4: FFI status mapping is the identity on discriminants
    conv = [b for b in fb.find(crate=common.FFI, name='from') if (b.impl_self or '').endswith('clockbound_clock_status')]
    if not conv:
        chk.missing('C06.D4', 'From<ClockStatus> for clockbound_clock_status')
    else:
        b = conv[0]
        chk.saw(b)
        eng = common.mk_engine(fb)
        rows = {}
        for p in eng.run(b):
            chk.analysed['paths'] += 1
            if p.kind != 'return':
                continue
            # the source discriminants this path is taken for: the path's atoms on discr(value) (possibly behind an `as`
            # cast, `match value as u32 { 0 => .., 1 => .., _ => .. }`), evaluated for each of the three statuses
            atoms = [(op, val) for term, op, val, _ in p.conds
                     if arith.strip_casts(term)[0] == 't' and arith.strip_casts(term)[1] == 'discr']
            if not atoms or p.value[0] != 'agg':
                continue
            d = eng.discr_of(b.crate, p.value)
            for src in (0, 1, 2):
                if all((src == val) if op == '==' else (src not in val) for op, val in atoms):
                    rows[src] = (p.value[2], d[1] if psi.is_int_const(d) else None)
        for s in (0, 1, 2):
            got = rows.get(s)
            chk.ob('C06.D4', 'ffi-status:%d' % s, got is not None and got[1] == s, b.where(0),
                   'ClockStatus discriminant %d maps to %s' % (s, got))
        chk.tables['ffi_status'] = {str(k): v for k, v in rows.items()}
