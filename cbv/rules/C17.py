"""C17 Segment layout and C ABI match their published descriptions: table agreement between
rustc's layout_of, docs/PROTOCOL.md, and clang's view of clockbound.h."""
import os

from .. import psi, mir, doc as docmod, cabi
from ..psi import fmt
from . import common, wrappers_model
from .open_model import layout

LEVEL = 'other'

DOC_TO_RUST = {
    'Magic Number': ('hdr', 'magic'), 'Segment Size': ('hdr', 'segsize'), 'Version': ('hdr', 'version'),
    'Generation': ('hdr', 'generation'), 'As-Of Timestamp': ('rec', 'as_of'), 'Void-After Timestamp': ('rec', 'void_after'),
    'Bound': ('rec', 'bound_nsec'), 'Max Drift': ('rec', 'max_drift_ppb'), 'Reserved': ('rec', 'reserved1'),
    'Clock Status': ('rec', 'clock_status'),
}
C_TYPE_CLASS = {'int': ('int', 4), 'const char *': ('ptr', 8), 'struct timespec': ('timespec', 16)}


def rust_adt(fb, suffix, crate=None):
    for c in fb.crates:
        if crate and c.name != crate:
            continue
        for k, a in c.adts.items():
            if k.endswith(suffix):
                return k, a, c
    return None, None, None


def run(ctx, chk):
    fb = ctx.facts()
    chk.explanation = ('Y1: offsets/widths/total of ShmHeader + ClockErrorBound (rustc layout_of) = table parsed from the bit diagram '
                       'and type list of PROTOCOL.md. Y2: ClockStatus discriminants = doc. Y3: FFI #[repr(C)] enums/structs = clang\'s '
                       'enumerator values and record layouts of clockbound.h. Y4: the three exported signatures agree. Y5: both clients '
                       'make the same call sequence and return the same components / error tables. Y6: wipe\'s typed writes follow the '
                       'header. Y7: magic bytes. Y8: default path strings. NOT decided: C ABI of targets other than x86_64.')
    chk.not_decided = ['ABI on targets other than the build host (x86_64-unknown-linux-gnu)']
    try:
        d = docmod.parse_protocol(ctx.read('docs/PROTOCOL.md'))
    except Exception as e:       # noqa
        chk.ob('C17.Y1', 'doc:parse', False, 'docs/PROTOCOL.md', 'cannot parse the layout section: %s' % e)
        return
    hdr = layout(fb, '::ShmHeader')
    rec = layout(fb, '::ClockErrorBound')
    if not hdr or not rec:
        chk.missing('C17.Y1', 'layout of ShmHeader / ClockErrorBound')
        return
    H = hdr['size']
    chk.ob('C17.Y1', 'repr:header-and-record-are-repr-c', hdr.get('repr_c') and rec.get('repr_c'), 'clock-bound-shm/src',
           'ShmHeader repr(C)=%s, ClockErrorBound repr(C)=%s' % (hdr.get('repr_c'), rec.get('repr_c')))
    # documented fields and struct fields are paired by their place in the segment, not by name: a documented
    # field must have a struct field at its offset with its width, and every struct field must be documented
    by_off = {}
    for part, a, base in (('hdr', hdr, 0), ('rec', rec, H)):
        for f in a['variants'][0]['fields']:
            by_off[base + f['offset']] = (part, f)
    seen = set()
    for f in d['fields']:
        if f['name'] == 'Padding':
            continue
        hit = by_off.get(f['offset'])
        tys = f.get('types') or []
        tsize = sum(docmod.TYPE_SIZE.get(t, 0) for t in tys)
        key = DOC_TO_RUST.get(f['name'], (None, f['name'].lower().replace(' ', '_')))[1]
        if hit is None:
            chk.ob('C17.Y1', 'field:%s' % key, False, 'docs/PROTOCOL.md',
                   'documented field %r at offset %d (width %d) has no struct field at that offset; struct fields start at %s' % (
                       f['name'], f['offset'], f['size'], sorted(by_off)))
            continue
        part, r = hit
        seen.add((part, r['name']))
        chk.ob('C17.Y1', 'field:%s' % key, r['size'] == f['size'] and tsize == f['size'], 'docs/PROTOCOL.md',
               '%s: doc offset %d width %d (%s); Rust field %s at offset %d width %d' % (f['name'], f['offset'], f['size'], ','.join(tys), r['name'], f['offset'], r['size']))
    for off in sorted(by_off):
        part, r = by_off[off]
        chk.ob('C17.Y1', 'struct-field-documented:@%d' % off, (part, r['name']) in seen, 'docs/PROTOCOL.md',
               'field %s of the %s (segment offset %d) %s' % (r['name'], 'header' if part == 'hdr' else 'record', off,
                                                              'is documented' if (part, r['name']) in seen else 'IS NOT in PROTOCOL.md'))
    chk.ob('C17.Y1', 'total-size', d['total'] == H + rec['size'] + (8 - (H + rec['size']) % 8) % 8, 'docs/PROTOCOL.md',
           'documented total %d bytes; header %d + record %d rounded to 8 = %d' % (d['total'], H, rec['size'], H + rec['size'] + (8 - (H + rec['size']) % 8) % 8))
    # record pointee offset used by both sides = header size
    # ---- Y2
    _, st, _ = rust_adt(fb, '::ClockStatus', crate=common.SHM)
    if st:
        got = {v.get('discr', v['index']): v['name'] for v in st['variants']}
        chk.ob('C17.Y2', 'status-encoding', got == d['status'] and st.get('size') == 4, 'docs/PROTOCOL.md',
               'ClockStatus = %s (size %s); doc = %s (i32)' % (got, st.get('size'), d['status']))
    else:
        chk.missing('C17.Y2', 'ClockStatus')
    # ---- Y7 / Y8
    magic = fb.const('::SHM_MAGIC')
    if magic and 'bytes' in magic and d['magic']:
        raw = bytes.fromhex(magic['bytes'])
        words = [int.from_bytes(raw[i:i + 4], 'little') for i in (0, 4)]
        docw = [int.from_bytes(d['magic'][0:4], 'big'), int.from_bytes(d['magic'][4:8], 'big')]
        chk.ob('C17.Y7', 'magic', words == docw, 'clock-bound-shm/src/shm_header.rs', 'SHM_MAGIC words %s; doc bytes %s' % ([hex(w) for w in words], d['magic'].hex()))
    else:
        chk.missing('C17.Y7', 'SHM_MAGIC / documented magic')
    paths = {}
    for c in fb.crates:
        for k in c.consts:
            if k['name'] == 'CLOCKBOUND_SHM_DEFAULT_PATH' and 'str' in k:
                paths[c.name] = k['str']
    for cr, pth in common.segment_paths_used(fb).items():
        paths.setdefault(cr, pth)          # the constant that really reaches ShmWriter::new / new_with_path, whatever it is called
    # ---- C side
    hpath = os.path.join(ctx.repo, 'clock-bound-ffi/include/clockbound.h')
    cf = cabi.CFacts(hpath)
    if not cf.ok:
        chk.ob('C17.Y3', 'clang:parse-header', False, 'clock-bound-ffi/include/clockbound.h', 'clang: %s' % cf.error)
        return
    cpath = cf.macros.get('CLOCKBOUND_SHM_DEFAULT_PATH', '').strip('"')
    allp = dict(paths, **{'clockbound.h': cpath, 'PROTOCOL.md': d['path']})
    chk.ob('C17.Y8', 'default-path', len(set(allp.values())) == 1 and len(paths) >= 2, 'clock-bound-ffi/include/clockbound.h',
           'default segment path: %s' % allp)
    # ---- Y3 enums
    for ename in ('clockbound_err_kind', 'clockbound_clock_status'):
        k, a, _ = rust_adt(fb, '::' + ename, crate=common.FFI)
        cvals = cf.enums.get(ename)
        if a is None or cvals is None:
            chk.ob('C17.Y3', 'enum:%s' % ename, False, hpath, 'enum %s missing on the %s side' % (ename, 'Rust' if a is None else 'C'))
            continue
        rvals = [(v['name'], v.get('discr', v['index'])) for v in a['variants']]
        chk.ob('C17.Y3', 'enum:%s' % ename, rvals == cvals and a.get('repr_c') and a.get('size') == 4, 'clock-bound-ffi/src/lib.rs',
               'Rust %s (repr(C)=%s size %s) vs C %s' % (rvals, a.get('repr_c'), a.get('size'), cvals))
    # ---- Y3 structs
    for sname in ('clockbound_err', 'clockbound_now_result'):
        k, a, crate = rust_adt(fb, '::' + sname, crate=common.FFI)
        cr = cf.records.get(sname)
        if a is None or cr is None or 'layout' not in cr:
            chk.ob('C17.Y3', 'struct:%s' % sname, False, hpath, 'struct %s missing on the %s side' % (sname, 'Rust' if a is None else 'C'))
            continue
        rfields = [(f['name'], f['offset'], f['size'], crate.types[f['ty']]['s']) for f in a['variants'][0]['fields']]
        clay = cr['layout']
        ok = a.get('repr_c') and a['size'] == cr['size'] and len(rfields) == len(clay)
        rows = []
        for i, (rn, ro, rs, rt) in enumerate(rfields):
            if i >= len(clay):
                break
            cn, ct, co = clay[i]
            csize = (clay[i + 1][2] if i + 1 < len(clay) else cr['size']) - co
            kind_ok = True
            cls = C_TYPE_CLASS.get(ct)
            if cls:
                kind_ok = rs == cls[1] and ((cls[0] == 'ptr') == rt.startswith('*')) and ((cls[0] == 'timespec') == rt.endswith('timespec'))
            elif ct in cf.enums:
                kind_ok = rt.endswith('::' + ct)
            rows.append((rn, ro, rs, cn, co, ct))
            ok = ok and ro == co and kind_ok and rs <= csize
        chk.ob('C17.Y3', 'struct:%s' % sname, bool(ok), 'clock-bound-ffi/src/lib.rs',
               'Rust size %d vs C size %d; fields (rust name, off, size | C name, off, type): %s' % (a['size'], cr['size'], rows))
    # ---- Y4 signatures
    for fname, cfn in cf.funcs.items():
        bs = [b for b in fb.bodies(common.FFI) if b.name == fname]
        if not bs:
            chk.ob('C17.Y4', 'fn:%s' % fname, False, hpath, 'declared in clockbound.h but not exported by the Rust library')
            continue
        b = bs[0]
        chk.saw(b)
        rparams = [b.crate.types[b.locals[i]['ty']] for i in range(1, b.argc + 1)]
        rret = b.crate.types[b.locals[0]['ty']]
        ok = b.d.get('abi', '').startswith('C') and 'no_mangle' in b.d.get('flags', []) and len(rparams) == len(cfn['params'])
        desc = []
        for (cn, ct), rt in zip(cfn['params'], rparams):
            same = ptr_compatible(ct, rt, b.crate)
            ok = ok and same
            desc.append('%s: %s | %s%s' % (cn, ct, rt['s'], '' if same else ' MISMATCH'))
        same = ptr_compatible(cfn['ret'], rret, b.crate)
        ok = ok and same
        chk.ob('C17.Y4', 'fn:%s' % fname, ok, b.where(0), 'abi %s flags %s; %s; returns %s | %s' %
               (b.d.get('abi'), b.d.get('flags'), '; '.join(desc), cfn['ret'], rret['s']))
    for b in fb.bodies(common.FFI):
        if 'no_mangle' in b.d.get('flags', []):
            chk.ob('C17.Y4', 'exported:%s:declared' % b.name, b.name in cf.funcs, b.where(0),
                   'exported symbol %s %s in clockbound.h' % (b.name, 'is declared' if b.name in cf.funcs else 'IS NOT declared'))
    chk.floor('C17.Y4', 'C prototypes', len(cf.funcs), 3)
    # ---- Y5 both clients: same calls into the shm crate, same pass-through, same error table
    ws = wrappers_model.load(fb, chk, 'C17.Y5')
    if len(ws) == 2:
        seqs = {n: sorted({tuple(r['calls']) for r in w.rows}) for n, w in ws.items()}
        chk.ob('C17.Y5', 'clients:same-call-sequences', seqs['rust'] == seqs['c'], '', 'call sequences into the shm crate: %s' % seqs)
        # neither wrapper adds a failure (or a success) of its own: a call returns an error exactly when a call into the
        # shm crate failed, so the two clients cannot disagree on which segments / moments are errors
        for side, w in ws.items():
            n_rows = 0
            for r in w.rows:
                if r['path'].kind != 'return':
                    continue
                n_rows += 1
                out = r['out']
                good = out is not None and ((r['stage'] is None) == (out[0] == 'ok'))
                chk.ob('C17.Y5', 'clients:%s:error-iff-shm-call-failed' % side, good, r['path'].where[2],
                       '%s client: failing shm call = %s, outcome = %s%s' % (side, r['stage'], out[0] if out else 'unclassified',
                       '' if good else ' -- an outcome decided by the wrapper itself: the other client library does not make it'))
                if side == 'c' and out is not None:
                    # what the C caller is told: NULL exactly on success; on failure a pointer to the error record this very
                    # call filled in -- never a verdict left over from an earlier call on the same context
                    pv = r['path'].value
                    is_null = wrappers_model.describe(pv)[0] == 'empty' or (pv[0] == 'c' and pv[1] in (0, ('b', '0000000000000000')))
                    conds_on_ctx = [psi.fmt_cond(c)[:70] for c in r['path'].conds
                                    if c[0][0] == 't' and c[0][1] == 'discr' and wrappers_model.call_of(c[0][2][0]) is None and 'err' in fmt(c[0])]
                    if out[0] == 'ok':
                        good_p = is_null and not conds_on_ctx
                    else:
                        good_p = pv[0] == 'ref' and not is_null and not conds_on_ctx
                    chk.ob('C17.Y5', 'clients:c:returned-pointer-is-this-call-verdict', good_p, r['path'].where[2],
                           'outcome %s, returned pointer %s%s%s' % (out[0], fmt(pv)[:60],
                               ' (decided by the state an earlier call left in the context: %s)' % conds_on_ctx if conds_on_ctx else '',
                               '' if good_p else ' -- the C caller is told something else than what this call did (the Rust client '
                               'on the same segment at the same moment answers from this call alone)'))
            chk.floor('C17.Y5', 'returning paths of the %s client' % side, n_rows, 2)
        kmap = {'Syscall': 'CLOCKBOUND_ERR_SYSCALL', 'SegmentNotInitialized': 'CLOCKBOUND_ERR_SEGMENT_NOT_INITIALIZED',
                'SegmentMalformed': 'CLOCKBOUND_ERR_SEGMENT_MALFORMED', 'CausalityBreach': 'CLOCKBOUND_ERR_CAUSALITY_BREACH'}
        tr = {(r['stage'], r['shm_err']): r['out'] for r in ws['rust'].rows if r['out'] and r['out'][0] == 'err'}
        tc = {(r['stage'], r['shm_err']): r['out'] for r in ws['c'].rows if r['out'] and r['out'][0] == 'err'}
        for key in sorted(set(tr) | set(tc), key=str):
            a, b2 = tr.get(key), tc.get(key)
            same = a is not None and b2 is not None and kmap.get(a[1]) == b2[1] and \
                (a[2][0] == b2[2][0]) and (a[3][0] == b2[3][0])
            chk.ob('C17.Y5', 'clients:error-row:%s:%s' % key, same, '', 'Rust %s | C %s' % (a, b2))
        okr = [r['out'] for r in ws['rust'].rows if r['out'] and r['out'][0] == 'ok']
        okc = [r['out'] for r in ws['c'].rows if r['out'] and r['out'][0] == 'ok']
        same = bool(okr) and bool(okc) and all(o[1] == okr[0][1] and o[2] == okr[0][2] for o in okc)
        chk.ob('C17.Y5', 'clients:same-interval-components', same, '', 'Rust (%s, %s) | C (%s, %s)' % (
            okr[0][1] if okr else None, okr[0][2] if okr else None, okc[0][1] if okc else None, okc[0][2] if okc else None))
        # the C status enumerator carries the same number as the Rust status
        cst = dict((n, v) for n, v in cf.enums.get('clockbound_clock_status', []))
        rst = {v['name']: v.get('discr', v['index']) for v in (st or {'variants': []})['variants']}
        for r in ws['c'].rows:
            if r['out'] and r['out'][0] == 'ok' and r['status_in'] is not None:
                chk.ob('C17.Y5', 'clients:status-number:%s' % r['status_in'], cst.get(r['out'][3]) == rst.get(r['status_in']), '',
                       'status %s(%s) -> %s(%s)' % (r['status_in'], rst.get(r['status_in']), r['out'][3], cst.get(r['out'][3])))
    # ---- Y9 the open / close entry points of both clients are thin: a client is handed out exactly when the shm crate opened
    # the segment at the path the caller gave, a failure is the shm crate's error converted like the errors of now(), and the C
    # close releases what the C open allocated (so that the mapping and the descriptor are given back)
    open_close_rules(fb, chk)
    # ---- Y6 (wipe layout) is C04.T6; re-evaluated here
    from . import C04
    sub = type(chk)('C17', LEVEL, chk.tier)
    sub._nested = True
    info = C04.wipe_sequence(fb, sub)
    for inf in (info['all'] if info is not None else []):
        img = inf['image']
        want = C04.header_fields(fb)
        got = {name: C04.image_value(img, off, w) for off, w, name in want}
        chk.ob('C17.Y6', 'wipe:writes-follow-header', all(v is not None for v in got.values()) and img.total is not None, inf['where'],
               'the image written to the new file holds, at the header offsets %s: %s (total %s bytes)' % (want, got, img.total))
        # the file a cold start creates is the documented layout in full: its length, the size it declares in the
        # header and the length the daemon maps are the total PROTOCOL.md publishes
        chk.ob('C17.Y6', 'wipe:length-is-the-documented-total', img.total == d['total'] and got.get('segsize') == d['total'] and
               inf['map_len'] == d['total'], inf['where'],
               'new segment file: %s bytes written, Segment Size field %s, %s bytes mapped by the daemon; PROTOCOL.md documents %d bytes' % (
                   img.total, got.get('segsize'), inf['map_len'], d['total']))
    chk.tables['doc_layout'] = [{k: v for k, v in f.items()} for f in d['fields']]
    chk.tables['c_records'] = {k: v.get('layout') for k, v in cf.records.items()}


def open_close_rules(fb, chk):
    no_shm = lambda b: b.crate.name == common.SHM
    is_open = lambda n: n.endswith('ShmReader::new')
    entries = []
    for b in fb.bodies(common.CLIENT):
        if b.defkind != 'Closure' and (b.impl_self or '').endswith('ClockBoundClient') and b.name in ('new_with_path',):
            entries.append(('rust', b))
    for b in fb.bodies(common.FFI):
        if b.name == 'clockbound_open':
            entries.append(('c', b))
    chk.floor('C17.Y9', 'open entry points of the client libraries', len(entries), 2)
    for side, b in entries:
        chk.saw(b)
        eng = common.mk_engine(fb, no_inline=no_shm)
        n_ok = n_err = 0
        p1 = ('sym', b.debug_names.get(1, 'arg1'))
        for p in eng.run(b):
            if p.kind != 'return':
                continue
            opens = [(n, ef) for n, ef in enumerate(p.effects) if ef['kind'] == 'call' and is_open(ef['callee'])]
            if not opens:
                chk.ob('C17.Y9', 'open:%s:calls-the-shm-open' % side, False, p.where[2], 'a returning path of %s does not call ShmReader::new' % b.name)
                continue
            n, ef = opens[0]
            oterm = psi.T('call', ef['callee'], n, *ef['args'])
            failed = None
            for term, op, val, _ in p.conds:
                if term == psi.T('discr', oterm) and op == '==':
                    failed = (val == 1)
            # the path opened is the caller's: the argument (or what it points to / was built from) derives from the first parameter
            def mentions_param(v, depth=0):
                if depth > 4:
                    return False
                for y in psi.walk(v):
                    if y == p1:
                        return True
                    if isinstance(y, tuple) and len(y) == 3 and y[0] == 't' and y[1] == 'call' and len(y[2]) > 1 and isinstance(y[2][1], int) and \
                            y[2][1] < len(p.effects):
                        # what the arguments of that call pointed to when it was made
                        for x in (p.effects[y[2][1]].get('pointees') or []):
                            if x is not None and mentions_param(x, depth + 1):
                                return True
                return False
            argv = [ef['args'][0]] + [x for x in (ef.get('pointees') or [])[:1] if x is not None]
            from_param = any(mentions_param(a) for a in argv)
            chk.ob('C17.Y9', 'open:%s:opens-the-path-it-was-given' % side, from_param, ef['site'][2],
                   'ShmReader::new is called with %s' % fmt(ef['args'][0])[:80])
            ok_payload = psi.T('field', psi.T('as', oterm, 'Ok'), '0')
            err_payload = psi.T('field', psi.T('as', oterm, 'Err'), '0')
            shm_err = None
            for term, op, val, _ in p.conds:
                if term == psi.T('discr', err_payload) and op == '==':
                    shm_err = wrappers_model.SHM_ERR.get(val)
            kmap_c = {'SyscallError': 'CLOCKBOUND_ERR_SYSCALL', 'SegmentNotInitialized': 'CLOCKBOUND_ERR_SEGMENT_NOT_INITIALIZED',
                      'SegmentMalformed': 'CLOCKBOUND_ERR_SEGMENT_MALFORMED', 'CausalityBreach': 'CLOCKBOUND_ERR_CAUSALITY_BREACH'}
            kmap_r = {'SyscallError': 'Syscall', 'SegmentNotInitialized': 'SegmentNotInitialized', 'SegmentMalformed': 'SegmentMalformed',
                      'CausalityBreach': 'CausalityBreach'}

            def holds_payload(v, depth=0):
                """the opened reader sits inside the value (followed through heap cells / boxes)"""
                if depth > 5 or v is None:
                    return False
                for y in psi.walk(v):
                    if y == ok_payload:
                        return True
                    if isinstance(y, tuple) and len(y) == 2 and y[0] == 'ref' and isinstance(y[1], tuple) and len(y[1]) == 2 and \
                            isinstance(y[1][0], tuple) and y[1][0] and y[1][0][0] in ('L', 'H'):
                        try:
                            if holds_payload(eng.load(p.state, y[1]), depth + 1):
                                return True
                        except Exception:
                            pass
                return False
            if side == 'rust':
                v = p.value
                is_ok = v[0] == 'agg' and v[2] == 'Ok'
                good = failed is not None and is_ok == (not failed)
                if is_ok and good:
                    good = holds_payload(v)
                if failed and good:
                    ev = v[3][0] if v[3] else None
                    kind = ev[3][0][2] if ev is not None and ev[0] == 'agg' and ev[3] and ev[3][0][0] == 'agg' else None
                    good = shm_err is not None and kind == kmap_r.get(shm_err)
                outcome = 'Ok' if is_ok else 'Err'
            else:
                v = p.value
                is_null = wrappers_model.describe(v)[0] == 'empty' or (v[0] == 'c' and v[1] in (0, ('b', '0000000000000000')))
                good = failed is not None and is_null == failed
                if failed and good:
                    # the error reaches the caller through the out-parameter (when one was given)
                    wr = [e2 for e2 in p.effects if e2['kind'] == 'call' and e2['callee'].endswith('::write') and len(e2['args']) == 2]
                    p2 = ('sym', b.debug_names.get(2, 'arg2'))
                    nullchk = any(c[0][0] == 't' and 'is_null' in fmt(c[0]) for c in p.conds)
                    if wr:
                        rec = wr[0]['args'][1]
                        kind = rec[3][0][2] if rec[0] == 'agg' and rec[3] and rec[3][0][0] == 'agg' else None
                        good = any(y == p2 for y in psi.walk(wr[0]['args'][0])) and shm_err is not None and kind == kmap_c.get(shm_err)
                        # every pointer the record hands to the C caller outlives the call: it comes from the error value's own
                        # `&'static CStr`, never from a string the function built (a CString / String / Vec dropped on return)
                        owned = sorted({x[2][0].split('::')[-2] + '::' + x[2][0].split('::')[-1] for f_ in (rec[3] if rec[0] == 'agg' else ())
                                        for x in psi.walk(f_) if x[0] == 't' and x[1] == 'call' and
                                        any(h_ in x[2][0] for h_ in ('CString', 'string::String', 'vec::Vec', 'boxed::Box', 'format'))})
                        chk.ob('C17.Y9', 'open:c:error-record-holds-no-pointer-into-a-local', not owned, p.where[2],
                               'the error record written for the caller %s' % ('holds only values and static pointers' if not owned else
                               'holds a pointer obtained from %s: the buffer is freed when clockbound_open returns, the caller reads a dangling pointer' % owned))
                    else:
                        good = nullchk      # (no error record asked for)
                if failed is False and good:
                    good = any(holds_payload(a) or holds_payload(x) for e2 in p.effects if e2['kind'] == 'call'
                               for a, x in zip(e2['args'], (e2.get('pointees') or []) + [None] * len(e2['args'])))
                outcome = 'NULL' if is_null else 'a context'
            n_ok += (failed is False)
            n_err += bool(failed)
            chk.ob('C17.Y9', 'open:%s:%s' % (side, 'failure-is-the-shm-error' if failed else 'client-iff-segment-opened'), good, p.where[2],
                   '%s: ShmReader::new %s, caller gets %s' % (b.name, 'failed' if failed else 'succeeded' if failed is False else 'result not consulted', outcome))
        chk.floor('C17.Y9', 'paths of %s (success, failure)' % b.name, min(n_ok, 1) + min(n_err, 1), 2)
    for b in fb.bodies(common.FFI):
        if b.name != 'clockbound_close':
            continue
        chk.saw(b)
        p1 = ('sym', b.debug_names.get(1, 'arg1'))
        freed = False
        for p in common.mk_engine(fb, no_inline=no_shm).run(b):
            if p.kind != 'return':
                continue
            raw = [e2 for e2 in p.effects if e2['kind'] == 'call' and e2['callee'].endswith('Box::<T>::from_raw') and any(y == p1 for a in e2['args'] for y in psi.walk(a))]
            dropped = [e2 for e2 in p.effects if e2['kind'] == 'drop' and 'Box<' in e2['ty']] + \
                      [e2 for e2 in p.effects if e2['kind'] == 'call' and e2['callee'].endswith('mem::drop')]
            freed = bool(raw) and bool(dropped)
            chk.ob('C17.Y9', 'close:c:releases-the-context', freed, p.where[2],
                   'clockbound_close %s' % ('takes the context back into a Box and drops it' if freed else
                                           'does not free the context it was given: the mapping and the descriptor of every closed client leak'))


def ptr_compatible(ctype, rty, crate):
    """C parameter/return type vs Rust type: pointer-ness, constness ignored, pointee record name"""
    c_ptr = ctype.strip().endswith('*')
    r_ptr = rty.get('k') in ('ptr', 'ref')
    if c_ptr != r_ptr:
        return False
    if not c_ptr:
        return True
    cp = ctype.replace('const', '').replace('*', '').replace('struct', '').strip()
    rinner = crate.types[rty['inner']]
    rp = rinner['s']
    if rinner.get('k') in ('ptr', 'ref') and ctype.count('*') < 2:
        return False
    if cp == 'char':
        return rp in ('i8', 'u8', 'std::ffi::c_char')
    return rp.split('::')[-1] == cp
