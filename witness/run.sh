#!/bin/bash
# usage: run.sh <repo root>   -- builds a scratch harness crate that path-depends on
# <repo>/clock-bound-shm and runs its compile_fail / no_run doc-tests on nightly.
set -u
REPO=${1:-/repo}
HERE=$(cd "$(dirname "$0")" && pwd)
W=${CBV_WITNESS_DIR:-$HERE/../.work/witness-build}
rm -rf "$W"; mkdir -p "$W/src"
cp "$HERE/src/lib.rs" "$W/src/lib.rs"
cp "$REPO/Cargo.lock" "$W/Cargo.lock"
cat > "$W/Cargo.toml" <<TOML
[package]
name = "cbv-witness"
version = "0.1.0"
edition = "2021"

[lib]
path = "src/lib.rs"

[dependencies]
clock-bound-shm = { path = "$REPO/clock-bound-shm" }

[workspace]
TOML
cd "$W" && CARGO_NET_OFFLINE=true cargo +nightly test --doc --offline 2>&1
