//! Type-level witnesses for C02.S5 (and the caching clause C02.S3): programs that would
//! break the snapshot discipline must not compile.  Every `compile_fail` test carries the
//! error code it must fail with and has a compiling `no_run` twin that differs only in the
//! offending line, so a witness cannot pass merely because a path or name is wrong.
//! Run by `witness/run.sh <repo>` (cargo +nightly test --doc; stable ignores error codes).

/// Holding the reference returned by `snapshot()` across a second `snapshot()` call must be
/// rejected by the borrow checker: the second call may overwrite the cached record.
///
/// ```compile_fail,E0499
/// use std::ffi::CString;
/// let path = CString::new("/nonexistent").unwrap();
/// let mut r = clock_bound_shm::ShmReader::new(path.as_c_str()).unwrap();
/// let a = r.snapshot().unwrap();
/// let b = r.snapshot().unwrap();
/// let _ = (a, b);
/// ```
///
/// Twin (copies the first record out before asking again):
///
/// ```no_run
/// use std::ffi::CString;
/// let path = CString::new("/nonexistent").unwrap();
/// let mut r = clock_bound_shm::ShmReader::new(path.as_c_str()).unwrap();
/// let a = *r.snapshot().unwrap();
/// let b = r.snapshot().unwrap();
/// let _ = (a, b);
/// ```
pub struct HoldAcrossSnapshot;

/// `ShmReader` keeps an unsynchronised cache: it must not be `Send`.
///
/// ```compile_fail,E0277
/// fn need<T: Send>() {}
/// need::<clock_bound_shm::ShmReader>();
/// ```
///
/// ```no_run
/// fn need<T: Sized>() {}
/// need::<clock_bound_shm::ShmReader>();
/// ```
pub struct ReaderNotSend;

/// `ShmReader` must not be `Sync` either.
///
/// ```compile_fail,E0277
/// fn need<T: Sync>() {}
/// need::<clock_bound_shm::ShmReader>();
/// ```
///
/// ```no_run
/// fn need<T: Sized>() {}
/// need::<clock_bound_shm::ShmReader>();
/// ```
pub struct ReaderNotSync;

/// `snapshot()` needs exclusive access: it cannot be called through a shared reference.
///
/// ```compile_fail,E0596
/// use std::ffi::CString;
/// let path = CString::new("/nonexistent").unwrap();
/// let r = clock_bound_shm::ShmReader::new(path.as_c_str()).unwrap();
/// let _ = r.snapshot();
/// ```
///
/// ```no_run
/// use std::ffi::CString;
/// let path = CString::new("/nonexistent").unwrap();
/// let mut r = clock_bound_shm::ShmReader::new(path.as_c_str()).unwrap();
/// let _ = r.snapshot();
/// ```
pub struct SnapshotNeedsExclusiveAccess;

/// The fields of a record are private: a client cannot patch a snapshot it obtained.
///
/// ```compile_fail,E0616
/// let c = clock_bound_shm::ClockErrorBound::default();
/// let _ = c.bound_nsec;
/// ```
///
/// ```no_run
/// let c = clock_bound_shm::ClockErrorBound::default();
/// let _ = c;
/// ```
pub struct RecordFieldsPrivate;
